"""Reproducer for C28 R1 / C33 R2 (RETURN moved across a procedure boundary). Run: cd /repo && /venv/bin/python /verif/repro/c28_c33.py"""
from loki import Subroutine, fgen
from loki.transformations.inline import inline_internal_procedures
from loki.transformations.extract import outline_pragma_regions
src = """
subroutine host(n, a, b)
  integer, intent(in) :: n
  real, intent(inout) :: a, b
  call clip(a)
  b = 1.        ! must always execute
contains
  subroutine clip(x)
    real, intent(inout) :: x
    if (n < 0) return
    x = 0.
  end subroutine clip
end subroutine host
"""
r = Subroutine.from_source(src)
inline_internal_procedures(r)
print('--- C28: after inlining, the host contains a bare RETURN before `b = 1.`:')
print('\n'.join(l for l in fgen(r.body).splitlines()))
src2 = """
subroutine work(n, a, b)
  integer, intent(in) :: n
  real, intent(inout) :: a, b
  !$loki outline name(part)
  if (n < 0) return
  a = 0.
  !$loki end outline
  b = 1.        ! skipped in the original when n < 0
end subroutine work
"""
r2 = Subroutine.from_source(src2)
new = outline_pragma_regions(r2)
print('--- C33: caller after outlining (b = 1. now runs even for n < 0):')
print(fgen(r2.body))
print('--- outlined routine keeps the RETURN:', 'RETURN' in fgen(new[0]).upper())
