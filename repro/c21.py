"""Reproducer for C21 R2. Run: cd /repo && /venv/bin/python /verif/repro/c21.py"""
import tempfile, pathlib, shutil
from loki.batch import Scheduler, SchedulerConfig
d = pathlib.Path(tempfile.mkdtemp(prefix='c21_'))
try:
    (d/'kern.F90').write_text('subroutine kern_a()\nend subroutine kern_a\n')
    (d/'KERN.F90').write_text('subroutine kern_b()\nend subroutine kern_b\n')
    (d/'driver.F90').write_text('subroutine driver()\n  call kern_a()\n  call kern_b()\nend subroutine driver\n')
    cfg = SchedulerConfig.from_dict({'default': {'role': 'kernel', 'expand': True, 'strict': False},
                                     'routines': {'driver': {'role': 'driver'}}})
    s = Scheduler(paths=[d], config=cfg, seed_routines=['driver'])
    print('items:', sorted(f'{type(i).__name__}:{i.name}' for i in s.items))
    print('file items:', sorted(i.name for i in s.file_graph.items) if hasattr(s, 'file_graph') else '-')
finally:
    shutil.rmtree(d)
