"""Reproducer for C30 findings. Run: cd /repo && /venv/bin/python /verif/repro/c30.py
R1: overlapping sides -- the generated loop reads elements it has already overwritten.
R2: a strided (here: reversed) section on the right-hand side is indexed as if it had unit stride."""
from loki import Subroutine, fgen
from loki.transformations.array_indexing import resolve_vector_notation
src = """
subroutine t(n, a, b)
  integer, intent(in) :: n
  real, intent(inout) :: a(n), b(n)
  a(2:n) = a(1:n-1)
  a(:) = b(:) + a(1)
  b(1:n) = a(n:1:-1)
end subroutine
"""
r = Subroutine.from_source(src)
resolve_vector_notation(r)
print(fgen(r.body))
print("# a(2:n) = a(1:n-1) must shift the array; the loop a(i) = a(i-1) copies a(1) everywhere")
print("# a(:) = b(:) + a(1) must use the old a(1) for every element; the loop overwrites a(1) in its first iteration")
print("# b(1:n) = a(n:1:-1) must reverse a; the loop reads a(i + n - 1), i.e. beyond the array for i > 1")
