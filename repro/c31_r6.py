import sys
sys.path.insert(0, '/repo')
from loki import Subroutine, fgen
from loki.frontend import FP
from loki.transformations.transform_loop import do_loop_fusion
r = Subroutine.from_source("""
subroutine s(n, a, b)
  integer, intent(in) :: n
  real, intent(out) :: a(n), b(n)
  integer :: I, J
  !$loki loop-fusion group(g)
  DO I = 1, n
    a(I) = 1.0
  END DO
  !$loki loop-fusion group(g)
  DO J = 1, n
    b(J) = 2.0*J
  END DO
end subroutine s
""", frontend=FP)
do_loop_fusion(r)
out = fgen(r.body)
print(out)
print('FAIL: the fused loop over I still refers to J' if 'b(J)' in out or 'b(j)' in out else 'PASS')
