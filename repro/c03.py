"""Reproducer for C03 known findings. Run: cd /repo && /venv/bin/python /verif/repro/c03.py
R1: after editing ONE assignment, untouched statements whose node class has no conservative
handler are re-generated instead of being emitted with their original text.
R2: removing the only child of a node leaves the node's source VALID: stale text is emitted."""
from loki import Subroutine, fgen
from loki.ir import nodes as ir, FindNodes, Transformer
src = """subroutine t(n, a, b, k)
  integer, intent(in) :: n, k
  real, intent(inout) :: a(n)
  real, allocatable :: b(:)
  integer :: i
  a(1) = 0.
  allocate( b(n) )
  do while (i<n)
    i=i+1
  end do
  where (a > 0.) a = 1.
  select case(k)
  case (1)
    a(1)=2.
  end select
  !$omp   barrier
  deallocate( b )
  if (n<0)  return
end subroutine
"""
r = Subroutine.from_source(src)
first = FindNodes(ir.Assignment).visit(r.body)[0]
r.body = Transformer({first: first.clone(rhs=first.lhs, source=None)}).visit(r.body)
out = fgen(r.body, conservative=True)
orig_lines = [l for l in src.splitlines()]
lost = [l for l in orig_lines[6:-1] if l not in out.splitlines()]
print('--- conservative output after editing only the first assignment ---')
print(out)
print('--- untouched original lines not reproduced verbatim:', len(lost))
for l in lost:
    print('   ', repr(l))

r = Subroutine.from_source(src)
loop = FindNodes(ir.WhileLoop).visit(r.body)[0]
cond = FindNodes(ir.Conditional).visit(r.body)[0]
r.body = Transformer({cond.body[0]: None}).visit(r.body)
out = fgen(r.body, conservative=True)
print('--- R2: RETURN statement removed from the IR, still printed:', 'return' in out.lower())

# R4 / R5: in-place additions keep the section VALID -> the new node is missing from conservative output
r = Subroutine.from_source(src)
first = FindNodes(ir.Assignment).visit(r.body)[0]
r.body.append(first.clone(lhs=first.lhs.clone(dimensions=(first.lhs.dimensions[0] + 1,)), source=None))
print('--- R4: statement appended with Section.append present in conservative output:', 'a(1 + 1)' in fgen(r, conservative=True))
from loki.expression import symbols as sym
from loki.types import SymbolAttributes, BasicType
r = Subroutine.from_source(src)
r.arguments += (sym.Variable(name='extra', type=SymbolAttributes(BasicType.INTEGER, intent='in'), scope=r),)
print('--- R5: declaration of an argument added via routine.arguments present:', 'extra' in fgen(r.spec, conservative=True).lower())
