import sys
sys.path.insert(0, '/repo')
from loki import Subroutine, FindNodes
from loki import ir
from loki.frontend import FP
from loki.analyse import dataflow_analysis_attached
r = Subroutine.from_source("""
subroutine s(n, a, m, k)
  integer, intent(in) :: n
  real, intent(in) :: a(n)
  real, intent(out) :: m
  integer, intent(out) :: k
  integer :: i
  m = sum(a)/size(a)
  k = 0
  do i = int(a(1)), size(a)
    k = k + 1
  end do
end subroutine s
""", frontend=FP)
bad = []
with dataflow_analysis_attached(r):
    assign = [x for x in FindNodes(ir.Assignment).visit(r.body) if str(x.lhs) == 'm'][0]
    loop = FindNodes(ir.Loop).visit(r.body)[0]
    print('assignment uses', assign.uses_symbols); print('loop uses', loop.uses_symbols)
    if 'a' not in [str(v).lower() for v in assign.uses_symbols]: bad.append('m = sum(a)/size(a): a is read but not in uses_symbols')
    if 'a' not in [str(v).lower() for v in loop.uses_symbols]: bad.append('do i = int(a(1)), size(a): a is read but not in uses_symbols')
print('FAIL: ' + '; '.join(bad) if bad else 'PASS')
