"""Reproducer for C29 R1. Run: cd /repo && /venv/bin/python /verif/repro/c29.py"""
from loki import Subroutine, fgen
from loki.transformations.sanitise import do_resolve_associates
src = """
subroutine t(this)
  type(thing), intent(inout) :: this
  associate(obj => this%member)
    call obj%bump()
    call work(obj%x)
  end associate
end subroutine
"""
r = Subroutine.from_source(src)
do_resolve_associates(r)
print(fgen(r.body))
