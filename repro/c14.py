"""Reproducers for C14 findings. Run: cd /repo && /venv/bin/python /verif/repro/c14.py"""
from loki import Subroutine, fgen
from loki.ir import nodes as ir, FindNodes, Transformer, NestedTransformer
from loki.expression import symbols as sym
src = """
subroutine t(n, a, s)
  integer, intent(in) :: n
  real, intent(inout) :: a(n)
  type(my_t), intent(inout) :: s
  integer :: i
  associate(x => s%x)
    x = 1.
    do i=1,n
      a(i) = x
    end do
  end associate
end subroutine
"""
# R2: non-inplace Transformer mutates the original Associate
r = Subroutine.from_source(src)
assoc = FindNodes(ir.Associate).visit(r.body)[0]
before = assoc.body
loop = FindNodes(ir.Loop).visit(r.body)[0]
new_body = Transformer({loop: None}).visit(r.body)       # inplace=False (default)
print('R2: original Associate body object unchanged after non-inplace transform:', assoc.body is before,
      '| loop still in original tree:', bool(FindNodes(ir.Loop).visit(r.body)))
# R1: NestedTransformer one-to-many on an internal node
r = Subroutine.from_source(src)
loop = FindNodes(ir.Loop).visit(r.body)[0]
c = ir.Comment(text='! x')
try:
    NestedTransformer({loop: (c, loop)}).visit(r.body)
    print('R1: ok')
except Exception as e:
    print('R1: NestedTransformer one-to-many mapping on a Loop raises', type(e).__name__, str(e)[:70])
# R4: structurally equal nodes are one key
a, b = sym.Variable(name='a'), sym.Variable(name='b')
n1, n2 = ir.Assignment(lhs=a, rhs=b), ir.Assignment(lhs=a, rhs=b)
body = ir.Section(body=(n1, ir.Comment(text='! keep'), n2))
out = Transformer({n1: None}).visit(body)
print('R4: mapping only the first of two equal assignments to None leaves', len(FindNodes(ir.Assignment).visit(out)), 'assignment(s) (expected 1)')
