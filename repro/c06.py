"""Reproducer for C06/C35/C36 printer findings. Run: cd /repo && /venv/bin/python /verif/repro/c06.py"""
from loki.expression import symbols as sym, operations as op
from loki.backend import fgen, cgen, pygen
from loki.backend.cgen import CCodeMapper, c_intrinsic_type
from loki.backend.pygen import PyCodeMapper
a, b, c = (sym.Variable(name=n) for n in 'abc')
neg = lambda x: op.Product((-1, x))
cases = {
    'Quotient.den<-Product  a/(b*c)': op.Quotient(a, op.Product((b, c))),
    'Quotient.den<-Quotient a/(b/c)': op.Quotient(a, op.Quotient(b, c)),
    'Product.factor<-Quotient a*(b/c)': op.Product((a, op.Quotient(b, c))),
    'Power.base<-Power (a**b)**c': op.Power(op.Power(a, b), c),
    'Neg.operand<-Neg -(-a)': neg(neg(a)),
}
cm = CCodeMapper(c_intrinsic_type)
pm = PyCodeMapper()
for k, e in cases.items():
    print(f'{k:36s} fgen: {fgen(e):14s} cgen: {cm(e):18s} pygen: {pm(e)}')
