import sys
sys.path.insert(0, '/repo')
from loki import Subroutine, fgen
from loki.frontend import FP
r = Subroutine.from_source("""
subroutine s()
  character(len=0) :: e
end subroutine s
""", frontend=FP)
out = fgen(r.spec)
print(out)
print('PASS' if 'LEN=0' in out.upper().replace(' ', '') else 'FAIL: CHARACTER(LEN=0) regenerated without its length')
