import sys
sys.path.insert(0, "/repo")
from loki import Subroutine, Module, fgen
from loki.frontend import FP
from loki.transformations.routine_signatures import remove_duplicate_args_from_calls

fcode_kernel = """
subroutine kernel(a, b, c)
  real, intent(in) :: a, c
  real, intent(out) :: b
  b = a + c
end subroutine kernel
"""
fcode_driver = """
subroutine driver(x, y)
  real, intent(in) :: x
  real, intent(out) :: y
  call kernel(a=x, b=y, c=x)
end subroutine driver
"""
kernel = Subroutine.from_source(fcode_kernel, frontend=FP)
driver = Subroutine.from_source(fcode_driver, frontend=FP)
driver.enrich(kernel)
remove_duplicate_args_from_calls(driver)
print(fgen(driver.body)); print(fgen(kernel))
call_kw = [k for k, _ in __import__('loki').FindNodes(__import__('loki').CallStatement).visit(driver.body)[0].kwarguments]
print('call keywords', call_kw, 'kernel dummies', kernel.argnames)
bad = [k for k in call_kw if k.lower() not in [a.lower() for a in kernel.argnames]]
print('FAIL: call passes keyword(s) the callee no longer has: %s' % bad if bad else 'PASS')
