"""Reproducer for the C26 known findings. Run: cd /repo && /venv/bin/python /verif/repro/c26.py"""
from loki import Subroutine, Module
from loki.ir import nodes as ir, FindNodes
from loki.analyse import dataflow_analysis_attached
src = """
subroutine t(n, m, a, k)
  integer, intent(in) :: n, m
  integer, intent(in) :: k
  real, allocatable :: c(:)
  real :: a(n), x, y
  integer :: ierr, i
  data x /1.0/
  allocate(c(m), stat=ierr)
  y = x
  print *, y
  forall (i=1:k, a(i) > y) a(i) = 0.
  deallocate(c, stat=ierr)
end subroutine
"""
r = Subroutine.from_source(src)
with dataflow_analysis_attached(r):
    def show(cls, what):
        n = FindNodes(cls).visit(r.ir)[0]
        print(f'{cls.__name__:16s} defines={[str(s) for s in n.defines_symbols]} uses={[str(s) for s in n.uses_symbols]}  # {what}')
    show(ir.DataDeclaration, 'x is initialised but not in defines (so never live)')
    show(ir.Allocation, 'ierr written via STAT= missing from defines')
    show(ir.Deallocation, 'ierr written via STAT= missing from defines')
    show(ir.PrintStmt, 'y read, missing from uses')
    show(ir.Forall, 'k (bound) and y (mask) read, missing from uses')

# R3: dummy without INTENT
msrc = """
module m
contains
subroutine callee(p)
  real :: p
  p = p + 1.
end subroutine
subroutine caller(q)
  real, intent(inout) :: q
  call callee(q)
end subroutine
end module
"""
mod = Module.from_source(msrc)
caller = mod['caller']
caller.enrich(mod['callee'])
with dataflow_analysis_attached(caller):
    call = FindNodes(ir.CallStatement).visit(caller.body)[0]
    print('CallStatement    defines=', [str(s) for s in call.defines_symbols], 'uses=', [str(s) for s in call.uses_symbols],
          ' # q is read and written by callee (no INTENT), missing from both')

# R1: TypeDef
tsrc = """
subroutine s()
  type t
    integer :: a
  end type
  integer :: j
  j = 1
end subroutine
"""
r2 = Subroutine.from_source(tsrc)
try:
    with dataflow_analysis_attached(r2):
        print(r2.spec.defines_symbols)
except RuntimeError as e:
    print('TypeDef          attaching on a unit with a TYPE definition raises:', e)

# R5: WHERE / ELSEWHERE(mask) alternatives are chained
wsrc = """
subroutine w(n, m, m2, a, b)
  integer, intent(in) :: n
  logical, intent(in) :: m(n), m2(n)
  real, intent(inout) :: a(n), b(n)
  where (m)
    a = 1.
  elsewhere (m2)
    b = a
  end where
end subroutine
"""
r3 = Subroutine.from_source(wsrc)
with dataflow_analysis_attached(r3):
    wn = FindNodes(ir.MaskedStatement).visit(r3.body)[0]
    print('MaskedStatement  uses=', [str(s) for s in wn.uses_symbols], ' # a is read in ELSEWHERE(m2) where m is false: missing')
