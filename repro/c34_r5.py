import sys
sys.path.insert(0, '/repo')
from loki import Subroutine, fgen, FindNodes, CallStatement
from loki.frontend import FP
from loki.transformations.sanitise import do_resolve_sequence_association

fcode_kernel = """
subroutine kernel(n, a, b)
  integer, intent(in) :: n
  real, intent(inout) :: a(n)
  real, intent(in) :: b
  a(1) = b
end subroutine kernel
"""
fcode_driver = """
subroutine driver(n, x, y)
  integer, intent(in) :: n
  real, intent(inout) :: x(n, n)
  real, intent(in) :: y
  call kernel(n, x(1, 2), b=y)
end subroutine driver
"""
kernel = Subroutine.from_source(fcode_kernel, frontend=FP)
driver = Subroutine.from_source(fcode_driver, frontend=FP)
driver.enrich(kernel)
do_resolve_sequence_association(driver)
call = FindNodes(CallStatement).visit(driver.body)[0]
print(fgen(call))
n_actual = len(call.arguments) + len(call.kwarguments)
print('FAIL: %d actual arguments for %d dummies' % (n_actual, len(kernel.arguments)) if n_actual != len(kernel.arguments) else 'PASS')
