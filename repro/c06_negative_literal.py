import sys
sys.path.insert(0, '/repo')
from loki.expression import symbols as sym
from loki import fgen
out = fgen(sym.Power(sym.IntLiteral(-1), sym.IntLiteral(2)))
print(out)
print('PASS' if out.replace(' ', '') == '(-1)**2' else 'FAIL: Power(IntLiteral(-1), 2) printed as -1**2 = -(1**2)')
