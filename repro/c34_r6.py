import sys
sys.path.insert(0, '/repo')
from loki import Subroutine, fgen
from loki.frontend import FP
from loki.transformations.argument_shape import ArgumentArrayShapeAnalysis

fcode_kernel = """
subroutine kernel(a)
  real, intent(inout) :: a(*)
  a(1) = 1.0
end subroutine kernel
"""
fcode_driver = """
subroutine driver(x)
  real, intent(inout) :: x(0:9)
  call kernel(x(0:5))
end subroutine driver
"""
kernel = Subroutine.from_source(fcode_kernel, frontend=FP)
driver = Subroutine.from_source(fcode_driver, frontend=FP)
driver.enrich(kernel)
ArgumentArrayShapeAnalysis().apply(driver, role='driver')
shape = kernel.variable_map['a'].shape
print('shape of a:', shape)
print('PASS' if str(shape[0]) == '6' else 'FAIL: x(0:5) has 6 elements')
