import sys
sys.path.insert(0, '/repo')
from loki import Subroutine, fgen
from loki.frontend import FP
from loki.transformations.inline import inline_marked_subroutines

fcode_kernel = """
subroutine kernel(n, a)
  integer, intent(in) :: n
  real, intent(inout) :: a(-1:n)
  a(0:2) = 1.0
end subroutine kernel
"""
fcode_driver = """
subroutine driver(x)
  real, intent(inout) :: x(20)
  !$loki inline
  call kernel(4, x(5:10))
end subroutine driver
"""
kernel = Subroutine.from_source(fcode_kernel, frontend=FP)
driver = Subroutine.from_source(fcode_driver, frontend=FP)
driver.enrich(kernel)
inline_marked_subroutines(driver)
out = fgen(driver.body)
print(out)
# a(-1) is x(5): a(0:2) is x(6:8)
print('PASS' if 'x(6:8)' in out.replace(' ', '').lower() else 'FAIL: a(0:2) of a(-1:n) associated with x(5:10) is x(6:8)')
