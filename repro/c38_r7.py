import sys
sys.path.insert(0, '/repo')
from loki import Subroutine, Dimension, fgen
from loki.frontend import FP
from loki.transformations.temporaries.stack_allocator import DirectIdxStackTransformation

fcode = """
subroutine kernel(nlon, klev, jstart, jend, pout)
  implicit none
  integer, parameter :: jprb = selected_real_kind(13,300)
  integer, intent(in) :: nlon, klev, jstart, jend
  real(kind=jprb), intent(inout) :: pout(nlon, 4)
  real(kind=jprb) :: zflx(nlon, -1:klev)

  zflx(:, 1:klev) = 1._jprb
  zflx(:, -1:0) = 0._jprb
  pout(:, 1) = zflx(:, -1)
  pout(:, 2) = zflx(:, 0)
  pout(:, 3) = zflx(:, 1)
  pout(:, 4) = zflx(:, klev)
end subroutine kernel
""".strip()
routine = Subroutine.from_source(fcode, frontend=FP)
horizontal = Dimension(name='horizontal', size='nlon', index='jl', bounds=('jstart', 'jend'))
block_dim = Dimension(name='block_dim', size='nb', index='b')
trafo = DirectIdxStackTransformation(block_dim=block_dim, horizontal=horizontal)
trafo.apply(routine, role='kernel')
print(fgen(routine.body))
