import sys
sys.path.insert(0, '/repo')
from loki import Subroutine, fgen
from loki.frontend import FP
r = Subroutine.from_source("""
subroutine s(i, a, b)
  integer, intent(in) :: i
  real, intent(inout) :: a, b
  real :: f, x
  external f
  select case (i)
  case default
    a = 1.0
    b = 2.0
  end select
  select case (i)
  case (1)
  case (2)
    a = 3.0
  case default
    b = 4.0
  end select
  x = f(a)
end subroutine s
""", frontend=FP)
out = fgen(r)
print(out)
flat = ' '.join(out.lower().split())
bad = []
if 'b = 2.0' not in flat: bad.append('second statement of a default-only SELECT CASE lost')
if 'case (1) case (2) a = 3.0 case default b = 4.0' not in flat: bad.append('empty CASE shifts the other bodies')
if ':: x' not in flat: bad.append('declaration of x lost next to EXTERNAL f')
print('FAIL: ' + '; '.join(bad) if bad else 'PASS')
