"""Reproducer for C04 findings. Run: cd /repo && /venv/bin/python /verif/repro/c04.py"""
from loki import Subroutine, fgen
long = ' + '.join(f'some_long_variable_name_{i:02d}(i)' for i in range(6))
long2 = ' + '.join(f'v{"x" * 20}_{i:02d}(i)' for i in range(6))
src = f"""
subroutine t(n, res, msg)
  integer, intent(in) :: n
  real, intent(inout) :: res(n)
  character(len=200) :: msg
  integer :: i
  forall (i=1:n, res(i) > 0.) res(i) = {long}
123456 res(1) = {long2}
  msg = '{"x" * 60}''{"y" * 80}'
end subroutine
"""
out = fgen(Subroutine.from_source(src).body)
for l in out.splitlines():
    flag = '  <-- longer than 132' if len(l) > 132 else ''
    print(f'{len(l):4d} {l[:110]}{"..." if len(l) > 110 else ""}{flag}')
