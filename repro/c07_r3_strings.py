import sys
sys.path.insert(0, '/repo')
from loki.expression import parse_expr
from loki import fgen
bad = []
for s, kind in [("c == 'a' .or. c == 'b'", 'LogicalOr'), ('f("x", "y")', 'Array'), ("2.0_jprb*y", 'Product')]:
    try:
        e = parse_expr(s); got = type(e).__name__
        n_args = len(getattr(e, 'dimensions', ())) if kind == 'Array' else None
    except Exception as ex:
        got, n_args = type(ex).__name__, None
    print(f'{s:28} -> {got} {n_args if n_args is not None else ""}')
    if got != kind or (kind == 'Array' and n_args != 2):
        bad.append(s)
print('FAIL: %s' % bad if bad else 'PASS')
