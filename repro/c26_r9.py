import sys
sys.path.insert(0, '/repo')
from loki import Subroutine, FindNodes
from loki import ir
from loki.frontend import FP
from loki.analyse import dataflow_analysis_attached
r = Subroutine.from_source("""
subroutine s(t, i, j)
  type(my_type), intent(inout) :: t(10)
  integer, intent(in) :: i, j
  t(i)%v(j) = 1.
end subroutine s
""", frontend=FP)
with dataflow_analysis_attached(r):
    a = FindNodes(ir.Assignment).visit(r.body)[0]
    used = sorted(str(v).lower() for v in a.uses_symbols)
    print('uses', used)
print('PASS' if 'i' in used and 'j' in used else 'FAIL: t(i)%v(j) = 1. reads i and j')
