"""Reproducer for C07 known findings. Run: cd /repo && /venv/bin/python /verif/repro/c07.py"""
from loki import parse_expr
for s in ['-a**2', '.not. a == b', 'a*b/c/d', 'a .eqv. b', "s // t", '2.d0']:
    try:
        e = parse_expr(s)
        print(f'{s:16s} -> {e!r}'[:200])
    except Exception as ex:
        print(f'{s:16s} -> raises {type(ex).__name__}: {ex}'[:200])
