import sys
sys.path.insert(0, '/repo')
from loki import Sourcefile, fgen
from loki.frontend import FP
from loki.transformations.argument_shape import ArgumentArrayShapeAnalysis, ExplicitArgumentArrayShapeTransformation
src = """
module m
contains
subroutine driver(n, m, b)
  integer, intent(in) :: n, m
  real, intent(inout) :: b(n, m)
  call kernel(b(2:n, :))
end subroutine driver
subroutine kernel(z)
  real, intent(inout) :: z(:, :)
  z = z + 1.0
end subroutine kernel
end module m
"""
s = Sourcefile.from_source(src, frontend=FP)
d, k = s['driver'], s['kernel']
d.enrich(k)
ArgumentArrayShapeAnalysis().apply(d, role='driver')
print('analysed shape of z:', k.variable_map['z'].shape)
shape = tuple(str(x) for x in k.variable_map['z'].shape)
ok = shape == (':', ':')
print('PASS' if ok else 'FAIL: the dummy of a bounded section b(2:n,:) [n-1 rows] gets the declared extents of b')
