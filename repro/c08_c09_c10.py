"""Reproducers for C08 / C09 / C10 findings. Run: cd /repo && /venv/bin/python /verif/repro/c08_c09_c10.py"""
import operator
from loki.expression import symbols as sym, simplify, symbolic_op
from loki.expression.symbolic import get_pyrange
a, b, n, m = (sym.Variable(name=x) for x in 'abnm')
print('C08 simplify((a+b)/2)   ->', simplify(sym.Quotient(sym.Sum((a, b)), sym.IntLiteral(2))), '   # wrong for integers: (1+1)/2=1, 1/2+1/2=0')
print('C08 simplify(a*(b/2))   ->', simplify(sym.Product((a, sym.Quotient(b, sym.IntLiteral(2))))), '   # 2*(1/2)=0 but (2*1)/2=1')
print('C09 symbolic_op(n, eq, m)      ->', symbolic_op(n, operator.eq, m), '  # undecidable, should raise')
print('C09 symbolic_op(-m, ne, 0)     ->', symbolic_op(sym.Product((-1, m)), operator.ne, sym.IntLiteral(0)), '  # undecidable, should raise')
print('C10 get_pyrange(10:1:-3) ->', list(get_pyrange(sym.LoopRange((sym.IntLiteral(10), sym.IntLiteral(1), sym.IntLiteral(-3))))), '  # DO i=10,1,-3 visits 10,7,4,1')
