"""Reproducer for C05 findings. Run: cd /repo && /venv/bin/python /verif/repro/c05.py"""
from loki import Subroutine, fgen
src = """
subroutine t(n)
  integer, intent(in) :: n
  character(len=64) :: s
  s = 'line __LINE__ of __FILE__'   ! mentions __LINE__
  print *, __LINE__, s
end subroutine
"""
out = fgen(Subroutine.from_source(src))
print([l.strip() for l in out.splitlines() if '__' in l or "'line" in l or 'PRINT' in l.upper()])
src2 = """
subroutine u()
  character(len=64) :: s
  s = 'use @PROCESS here'
end subroutine
"""
try:
    print(fgen(Subroutine.from_source(src2)).splitlines()[2:4])
except Exception as e:
    print('string literal containing @PROCESS:', type(e).__name__, str(e)[:80])
