import sys
sys.path.insert(0, '/repo')
from loki.expression import symbols as sym
from loki.expression.symbolic import simplify, Simplification
from loki import fgen
a, b, c = (sym.Variable(name=n) for n in 'abc')
e = sym.Sum((a, sym.Product((3, sym.Product((-1, b, c))))))
out = fgen(simplify(e, enabled_simplifications=Simplification.CollectCoefficients))
print(fgen(e), '->', out)
print('PASS' if 'c' in out else 'FAIL: the factor c was dropped')
