"""Reproducer for C12 known findings. Run: cd /repo && /venv/bin/python /verif/repro/c12.py"""
from loki.tools.util import CaseInsensitiveDict, CaseInsensitiveDefaultDict
from loki.types import SymbolTable, SymbolAttributes, BasicType
def t(label, fn):
    try:
        print(f'{label:52s} -> {fn()!r}')
    except Exception as e:
        print(f'{label:52s} -> raises {type(e).__name__}({e})')
d = CaseInsensitiveDict(A=1)
t("CaseInsensitiveDict(A=1): 'A' in d", lambda: 'A' in d)
t("CaseInsensitiveDict(A=1).pop('A')", lambda: d.pop('A'))
t("del CaseInsensitiveDict(A=1)['A']", lambda: d.__delitem__('A'))
dd = CaseInsensitiveDefaultDict(list, {'A': [1]})
t("CaseInsensitiveDefaultDict(list, {'A':[1]})['a']", lambda: dd['a'])
dd = CaseInsensitiveDefaultDict(list); dd['A'].append(1)
t("CIDD.pop('A')", lambda: dd.pop('A'))
t("del CIDD['A']", lambda: dd.__delitem__('A'))
t("CIDD.setdefault('B', []) keys", lambda: (dd.setdefault('B', []), list(dd))[1])
t("CIDD.update({'C': 3}) keys", lambda: (dd.update({'C': 3}), list(dd))[1])
st = SymbolTable(); st['A'] = SymbolAttributes(BasicType.INTEGER)
t("SymbolTable: 'A' in st", lambda: 'A' in st)
t("SymbolTable.pop('A')", lambda: st.pop('A'))
t("del SymbolTable['A']", lambda: st.__delitem__('A'))
# R4: clone() of a table whose parent is (still) empty drops the parent
parent = SymbolTable(); child = SymbolTable(parent=parent)
clone = child.clone()
parent['x'] = SymbolAttributes(BasicType.REAL)
t("child.lookup('x') through empty-at-clone-time parent", lambda: child.lookup('x'))
t("child.clone().lookup('x')  (parent dropped by clone)", lambda: clone.lookup('x'))
