import sys
sys.path.insert(0, '/repo')
import tempfile
from pathlib import Path
from loki import Scheduler, fgen
from loki.transformations.parametrise import ParametriseTransformation

FCODE = """
module param_two_mod
  implicit none
contains
  subroutine driver(a, b, x, y)
    integer, intent(in) :: a, b
    real, intent(inout) :: x(a), y(b)
    call fill(a, x)
    call fill(b, y)
  end subroutine driver
  subroutine fill(n, z)
    integer, intent(in) :: n
    real, intent(inout) :: z(n)
    integer :: k
    do k=1,n
      z(k) = 1.0
    end do
  end subroutine fill
end module param_two_mod
"""
CONFIG = {'default': {'mode': 'idem', 'role': 'kernel', 'expand': True, 'strict': True},
          'routines': {'driver': {'role': 'driver', 'expand': True}}}
with tempfile.TemporaryDirectory() as tmp:
    tmp = Path(tmp)
    (tmp/'src').mkdir()
    (tmp/'src'/'param_two_mod.F90').write_text(FCODE)
    scheduler = Scheduler(paths=[tmp/'src'], config=CONFIG, seed_routines=['driver'], xmods=[tmp])
    try:
        scheduler.process(transformation=ParametriseTransformation(dic2p={'a': 12, 'b': 11}))
    except Exception as e:
        print('PASS (refused):', type(e).__name__, str(e)[:120]); sys.exit(0)
    fill = [i.ir for i in scheduler.items if i.local_name.lower() == 'fill'][0]
    print(fgen(fill))
    n = fill.variable_map['n']
    if n.type.parameter:
        print(f'FAIL: fill is specialised to n = {n.type.initial} although it is called with a (=12) and with b (=11)')
        sys.exit(1)
    print('PASS')
