import sys
sys.path.insert(0, '/repo')
from loki import Subroutine, fgen
from loki.frontend import FP
from loki.transformations.sanitise import do_resolve_associates
r = Subroutine.from_source("""
subroutine s(n, arr)
  integer, intent(in) :: n
  real, intent(inout) :: arr(n, 2)
  associate (y => arr(1:n-1, 2), z => arr(:, 1))
    y(:) = 0.
    z(:) = 1.
    y(2) = 3.
  end associate
end subroutine s
""", frontend=FP)
do_resolve_associates(r)
out = fgen(r.body).replace(' ', '').lower()
print(fgen(r.body))
print('PASS' if 'arr(1:n-1,2)=0.' in out and 'arr(:,1)=1.' in out and 'arr(2,2)=3.' in out else 'FAIL: y(:) = 0. must become arr(1:n-1, 2) = 0., not arr(:, 2) = 0.')
