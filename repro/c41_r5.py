import sys
sys.path.insert(0, '/repo')
from loki import Subroutine, fgen
from loki.frontend import FP
from loki.transformations.utilities import sanitise_imports
src = """
subroutine t(x)
  use consts
  use parkind1, only: jprb, jprm
  real(kind=jprb), intent(inout) :: x
  x = x + c2
end subroutine t
"""
r = Subroutine.from_source(src, frontend=FP)
sanitise_imports(r)
out = fgen(r.spec).lower()
print(out)
ok = 'use consts' in out and 'jprm' not in out and 'jprb' in out
print('PASS' if ok else 'FAIL: the blanket import `use consts` (which provides c2) was removed')
