"""Reproducer for C36 R4 (fixed in /repo): on the pinned tree a strided DO loop is emitted as range(start, end + incr, incr),
which runs one iteration too many whenever (end - start) is not a multiple of the stride.
Run: cd /repo && /venv/bin/python /verif/repro/c36_r4.py"""
from loki import Subroutine
from loki.backend import pygen
src = """
subroutine t(n, a)
  integer, intent(in) :: n
  integer, intent(inout) :: a(n)
  integer :: i
  do i=1,9,3
    a(i) = i
  end do
  do i=10,1,-4
    a(i) = i
  end do
end subroutine
"""
out = pygen(Subroutine.from_source(src).body)
print(out)
import re
for start, stop, step in re.findall(r'range\((\d+), ([^,]+(?:\([^)]*\))?[^,]*), (-?\d+)\)', out):
    print(f'range({start}, {stop}, {step}) ->', list(range(int(start), eval(stop), int(step))))
print('Fortran: do i=1,9,3 visits 1,4,7 ; do i=10,1,-4 visits 10,6,2')
