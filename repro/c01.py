"""Reproducer for C01 R3 findings. Run: cd /repo && /venv/bin/python /verif/repro/c01.py"""
from loki import Subroutine, fgen
src = """
subroutine t(n, a)
  integer, intent(in) :: n
  real, intent(inout) :: a(n, n)
  integer :: i, j
  integer :: cnt, s2
  save cnt, s2
  outer: do i=1,n
    inner: do j=1,n
      if (a(i,j) < 0.) cycle outer
      a(i,j) = 1.
    end do inner
  end do outer
end subroutine
"""
out = fgen(Subroutine.from_source(src))
print([l.strip() for l in out.splitlines() if 'CYCLE' in l.upper() or l.strip().upper().startswith('SAVE')])
