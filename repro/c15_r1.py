"""Reproducer for the C15 R1 known findings: an expression stored in a non-traversable
field of an IR node is invisible to the finders.  Run: cd /repo && /venv/bin/python /verif/repro/c15_r1.py"""
from loki.ir import nodes as ir
from loki.ir import FindVariables, FindTypedSymbols
from loki.expression import symbols as sym
x = sym.Variable(name='x')
p = sym.ProcedureSymbol('f', scope=None)
cases = [
    ('PrintStmt.values', ir.PrintStmt(values=('*', x))),
    ('FormatStmt.values', ir.FormatStmt(values=(x,))),
    ('SaveStmt.text', ir.SaveStmt(text=(x,))),
    ('PublicStmt.text', ir.PublicStmt(text=(x,))),
    ('PrivateStmt.text', ir.PrivateStmt(text=(x,))),
    ('CommonStmt.text', ir.CommonStmt(text=(x,))),
    ('ImplicitStmt.text', ir.ImplicitStmt(text=(x,))),
    ('Enumeration.symbols', ir.Enumeration(symbols=(x,))),
    ('Interface.spec', ir.Interface(body=(), spec=x)),
    ('CallStatement.chevron', ir.CallStatement(name=p, arguments=(), chevron=(x, x))),
]
bad = 0
for name, node in cases:
    found = FindVariables().visit(node)
    ok = x in found
    bad += not ok
    print(f'{name:28s} FindVariables finds x: {ok}')
print('missed:', bad)
