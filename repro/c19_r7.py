import sys
sys.path.insert(0, '/repo')
from loki import Sourcefile, FindNodes
from loki import ir
from loki.frontend import REGEX, FP
src = """
subroutine s(a)
  use, intrinsic :: iso_c_binding, only: c_int
  use :: other_mod, only: x
  integer :: call_count
  real :: a
  call_count = 1
  call foo(a)
end subroutine s
"""
res = {}
for fe in (REGEX, FP):
    r = Sourcefile.from_source(src, frontend=fe)['s']
    res[fe] = (sorted(str(i.module).lower() for i in r.imports), sorted(str(c.name).lower() for c in FindNodes(ir.CallStatement).visit(r.ir)))
    print(fe, res[fe])
print('PASS' if res[REGEX] == res[FP] else 'FAIL: regex discovery differs from the full parse')
