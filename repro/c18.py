"""Reproducer for C18 findings. Run: cd /repo && /venv/bin/python /verif/repro/c18.py"""
import pickle
from loki import Subroutine, Sourcefile, Module
from loki.ir import FindVariables
src = """
subroutine outer(a, n)
  integer, intent(in) :: n
  real, intent(inout) :: a(n)
  call inner()
contains
  subroutine inner()
    a(1) = 2.
  end subroutine
end subroutine
"""
r2 = pickle.loads(pickle.dumps(Subroutine.from_source(src)))
inner = r2.members[0]
v = [v for v in FindVariables().visit(inner.body) if v.name == 'a'][0]
print('R2: unpickled internal procedure parent:', inner.parent, '| host variable a: scope', v.scope, 'type', v.type)
for cls, s in ((Sourcefile, src), (Module, 'module m\n integer :: x\nend module m\n')):
    o = pickle.loads(pickle.dumps(cls.from_source(s)))
    try:
        o.clone(); print(f'R1: unpickled {cls.__name__}.clone() ok')
    except AttributeError as e:
        print(f'R1: unpickled {cls.__name__}.clone() raises AttributeError:', e)
