"""Reproducer for C32 R1. Run: cd /repo && /venv/bin/python /verif/repro/c32.py"""
from loki import Subroutine, fgen
from loki.transformations.remove_code import do_remove_unused_vars
src = """
subroutine t(n)
  integer, intent(in) :: n
  real :: msg(3), lim(n), work(n)
  integer :: ierr
  real, allocatable :: buf(:)
  allocate(buf(n), stat=ierr)
  print *, msg
  forall (i=1:n, lim(i) > 0.) buf(i) = 0.
end subroutine
"""
r = Subroutine.from_source(src)
do_remove_unused_vars(r, remove_only_arrays=False)
print(fgen(r.spec))
print('# msg (PRINT), lim (FORALL mask), ierr (STAT=) are still referenced in the body but their declarations are gone;')
print('# only `work` is really unused')
