"""Reproducer for C11 known finding. Run: cd /repo && /venv/bin/python /verif/repro/c11.py"""
from loki.expression import symbols as sym
f = sym.ProcedureSymbol('f', scope=None); a = sym.Variable(name='a')
c1 = sym.InlineCall(f, (a,), {'KW': a}); c2 = sym.InlineCall(f, (a,), {'kw': a})
print('f(KW=a) == f(kw=a):', c1 == c2, ' hashes equal:', hash(c1) == hash(c2), ' dict lookup:', {c1: 1}.get(c2))
