import sys
sys.path.insert(0, '/repo')
from loki import Subroutine, fgen
from loki.frontend import FP
r = Subroutine.from_source("""
subroutine s(a, p, q)
  real, target :: a(10)
  real, pointer :: p(:), q(:,:)
  p(0:) => a
  q(1:2, 1:5) => a
end subroutine
""", frontend=FP)
out = fgen(r.body).lower().replace(' ', '')
print(fgen(r.body))
print('PASS' if 'p(0:)=>a' in out and 'q(1:2,1:5)=>a' in out else 'FAIL: bounds of the pointer object dropped')
