import sys, tempfile, os
sys.path.insert(0, '/repo')
from pathlib import Path
from loki import Scheduler, fgen, FindNodes, CallStatement
from loki.batch import SchedulerConfig
from loki.frontend import FP
from loki.transformations.parametrise import ParametriseTransformation

tmp = Path(tempfile.mkdtemp())
(tmp/'driver.F90').write_text("""
subroutine driver(n, x)
  integer, intent(in) :: n
  real, intent(inout) :: x(n)
  call kernel(n, n, x)
end subroutine driver
""")
(tmp/'kernel.F90').write_text("""
subroutine kernel(a, b, x)
  integer, intent(in) :: a, b
  real, intent(inout) :: x(a)
  x(b) = 1.0
end subroutine kernel
""")
config = SchedulerConfig.from_dict({'default': {'role': 'kernel', 'expand': True, 'strict': False}, 'routines': {'driver': {'role': 'driver'}}})
sched = Scheduler(paths=[tmp], config=config, frontend=FP)
sched.process(transformation=ParametriseTransformation(dic2p={'n': 5}))
drv = sched['#driver'].ir; krn = sched['#kernel'].ir
call = FindNodes(CallStatement).visit(drv.body)[0]
print(fgen(call)); print(fgen(krn))
n_act = len(call.arguments) + len(call.kwarguments)
print('PASS' if n_act == len(krn.arguments) else f'FAIL: call passes {n_act} arguments, callee has {len(krn.arguments)} dummies')
