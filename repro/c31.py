"""Reproducer for C31 R1. Run: cd /repo && /venv/bin/python /verif/repro/c31.py"""
from loki import Subroutine, fgen
from loki.transformations.transform_loop import do_loop_unroll
src = """
subroutine t(a)
  real, intent(inout) :: a(10)
  integer :: i
  !$loki loop-unroll
  do i=10,1,-3
    a(i) = 1.
  end do
end subroutine
"""
r = Subroutine.from_source(src)
do_loop_unroll(r)
print(fgen(r.body), '   # a(1) = 1. is missing')
