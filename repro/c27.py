"""Reproducer for C27 R1. Run: cd /repo && /venv/bin/python /verif/repro/c27.py"""
from loki import Subroutine
from loki.ir import nodes as ir, FindNodes
from loki.analyse import dataflow_analysis_attached, read_after_write_vars
def case(label, construct):
    src = f"""
subroutine t(n, k, m, x, y, a)
  integer, intent(in) :: n, k
  logical, intent(in) :: m(n)
  real, intent(inout) :: x, y, a(n)
  integer :: i
  x = 1.
  a(:) = 1.
  !$loki inspect
{construct}
  y = x + a(1)
end subroutine
"""
    r = Subroutine.from_source(src)
    with dataflow_analysis_attached(r):
        pragma = FindNodes(ir.Pragma).visit(r.body)[0]
        res = read_after_write_vars(r.body, pragma)
    print(f'{label:26s} read-after-write across the inspection point: {sorted(str(v) for v in res)}   (x / a written before, may survive, read after)')
case('SELECT CASE', '  select case (k)\n  case (1)\n    x = 2.\n  end select')
case('DO (possibly zero-trip)', '  do i=1,k\n    x = 2.\n  end do')
case('DO WHILE', '  do while (y < 0.)\n    x = 2.\n  end do')
case('WHERE', '  where (m)\n    a = 2.\n  end where')
case('IF (handled)', '  if (k > 0) then\n    x = 2.\n  end if')
case('FORALL (masked)', '  forall (i=1:k, m(i)) a(i) = 2.')
