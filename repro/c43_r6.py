"""Reproducer for C43 R6 (fixed in /repo): on the pinned tree (+ the update_metadata fix) the module line and the subroutine\nheader/footer are re-generated although only the IF was reported.  Run: cd /repo && /venv/bin/python /verif/repro/c43_r6.py"""
import sys
from pathlib import Path
sys.path.insert(0,'/repo/lint_rules')
from loki import Sourcefile
from loki.lint import Linter, Reporter, DefaultHandler
from lint_rules.ifs_coding_standards_2011 import Fortran90OperatorsRule
src = """
module   my_mod   ! a comment
  implicit none
  integer :: X = 1   ! keep   spacing
contains
  subroutine inner(a)
    integer, intent(in) :: a
    if (a .gt. 1) then
      print *, 'x'
    end if
  end subroutine inner
end module my_mod

subroutine  free_r (a)
  integer, intent(in) :: a
  if (a .gt. 1) then
    print *, 'x'
  end if
end subroutine free_r
"""
p = Path('/tmp/c43_r6_demo.F90'); p.write_text(src)
sf = Sourcefile.from_file(p)
linter = Linter(reporter=Reporter([]), rules=[Fortran90OperatorsRule], config={})
rep = linter.check(sf)
linter.fix(sf, rep)
print(p.read_text())
