import sys
sys.path.insert(0, '/repo')
from loki import Subroutine, fgen
from loki.frontend import FP
from loki.transformations.array_indexing import normalize_array_shape_and_access

fcode = """
subroutine kernel(a)
  real, intent(inout) :: a(0:10)
  a(0:10:2) = 1.0
end subroutine kernel
"""
routine = Subroutine.from_source(fcode, frontend=FP)
normalize_array_shape_and_access(routine)
out = fgen(routine.body).replace(' ', '').lower()
print(fgen(routine))
print('PASS' if 'a(1:11:2)' in out else 'FAIL: the stride of a(0:10:2) must survive the shift to a(1:11:2)')
