import sys
sys.path.insert(0, '/repo')
from loki import Sourcefile, FindNodes
from loki import ir
from loki.frontend import REGEX, FP
src = """
subroutine outer(a)
  real :: a
  interface
    subroutine inner(x)
      real :: x
    end subroutine inner
  endinterface
  call inner(a)
  call after(a)
end subroutine outer
"""
res = {}
for fe in (REGEX, FP):
    r = Sourcefile.from_source(src, frontend=fe)['outer']
    res[fe] = (sorted(str(c.name) for c in FindNodes(ir.CallStatement).visit(r.ir)), len(FindNodes(ir.Interface).visit(r.ir)))
    print(fe, res[fe])
print('PASS' if res[REGEX] == res[FP] else 'FAIL: regex discovery differs from the full parse')
