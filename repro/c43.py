"""Reproducer for C43 known findings. Run: cd /repo && PYTHONPATH=/repo/lint_rules /venv/bin/python /verif/repro/c43.py"""
import tempfile, pathlib, shutil
from loki import Sourcefile
from loki.lint import Linter, Reporter, DefaultHandler
from lint_rules.debug_rules import DynamicUboundCheckRule
from lint_rules.ifs_coding_standards_2011 import Fortran90OperatorsRule
d = pathlib.Path(tempfile.mkdtemp(prefix='c43_'))
try:
    src = '''module m
contains
subroutine kern(a, n)
  integer, intent(in) :: n
  real, intent(inout) :: a(:)
  if (ubound(a, 1) < n) then
    print *, 'too small'
  end if
  a(1) = 0.
end subroutine kern
end module m
'''
    f = d/'m.F90'; f.write_text(src)
    handler = DefaultHandler(target=lambda *a, **k: None)
    linter = Linter(reporter=Reporter([handler]), rules=[DynamicUboundCheckRule], config={})
    sf = Sourcefile.from_file(f)
    rep = linter.check(sf)
    print('violations in module procedure:', sum(len(r.problem_reports) for r in rep.reports))
    linter.fix(sf, rep)
    sf2 = Sourcefile.from_file(f)
    rep2 = Linter(reporter=Reporter([handler]), rules=[DynamicUboundCheckRule], config={}).check(sf2)
    print('violations after Linter.fix      :', sum(len(r.problem_reports) for r in rep2.reports), '(expected 0)')
    # R2
    src2 = 'subroutine s(a, b)\n  integer :: a, b\n  if (a .gt. b) a = b\nend subroutine s\n'
    g = d/'s.F90'; g.write_text(src2)
    sf = Sourcefile.from_file(g)
    linter = Linter(reporter=Reporter([handler]), rules=[Fortran90OperatorsRule], config={})
    rep = linter.check(sf)
    try:
        linter.fix(sf, rep)
        print('operator fix ok')
    except AttributeError as e:
        print('Fortran90OperatorsRule fix raises AttributeError:', e)
finally:
    shutil.rmtree(d)
