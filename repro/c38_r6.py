import sys
sys.path.insert(0, '/repo')
from loki import Subroutine, Dimension, fgen
from loki.frontend import FP
from loki.transformations.temporaries.stack_allocator import DirectIdxStackTransformation

fcode = """
subroutine kernel(nlon, klev, jstart, jend, pout)
  implicit none
  integer, parameter :: jprb = selected_real_kind(13,300)
  integer, intent(in) :: nlon, klev, jstart, jend
  real(kind=jprb), intent(inout) :: pout(nlon, klev)
  real(kind=jprb) :: za(nlon, klev), zb(nlon, klev)

  za(:, :) = 1._jprb
  zb(:, :) = 2._jprb
  zb(:, 1) = 3._jprb
  pout(:, :) = za(:, :) + zb(:, :)
end subroutine kernel
""".strip()
routine = Subroutine.from_source(fcode, frontend=FP)
horizontal = Dimension(name='horizontal', size='nlon', index='jl', bounds=('jstart', 'jend'))
block_dim = Dimension(name='block_dim', size='nb', index='b')
trafo = DirectIdxStackTransformation(block_dim=block_dim, horizontal=horizontal)
trafo.apply(routine, role='kernel')
out = fgen(routine.body)
print(out)
import re
lines = [l for l in out.splitlines() if '= 2._jprb' in l or '= 3._jprb' in l or '= 1._jprb' in l]
bad = [l for l in lines if not re.search(r'STACK\(JD_z[ab] \+', l)]
print('FAIL: stack section without the base offset of the temporary: %s' % bad if bad else 'PASS')
