import sys
sys.path.insert(0, '/repo')
from loki import Subroutine, fgen
from loki.frontend import FP
from loki.transformations.extract import outline_pragma_regions
r = Subroutine.from_source("""
subroutine s(n, res)
  integer, intent(in) :: n
  real, intent(out) :: res
  real, allocatable :: w(:)
  integer :: j
  allocate(w(0:n))
  w(:) = 0.0
  !$loki outline name(fill)
  do j = 0, n
    w(j) = real(j)
  end do
  !$loki end outline
  res = w(0)
  deallocate(w)
end subroutine s
""", frontend=FP)
new = outline_pragma_regions(r)
out = fgen(new[0])
print(out)
decl = [l for l in out.splitlines() if ':: w' in l.lower().replace(' ', '') or ' w(' in l.lower()][0]
print('PASS' if 'allocatable' in decl.lower() or '0:' in decl else
      'FAIL: w is allocated as w(0:n) but received as an assumed-shape dummy w(:) with lower bound 1: w(j) addresses the wrong element (w(0) is out of bounds)')
