import sys
sys.path.insert(0, '/repo')
from loki import Subroutine, fgen
from loki.frontend import FP
r = Subroutine.from_source("""
subroutine s(n)
  integer, intent(in) :: n
  character(len=5) :: a, b*10
  real, dimension(n) :: x, y(2*n)
  y(2*n) = 1.0
end subroutine s
""", frontend=FP)
out = fgen(r.spec).lower().replace(' ', '')
print(fgen(r.spec))
bad = []
if 'y(2*n)' not in out: bad.append('own array spec of y lost')
if 'b*(10)' not in out and 'b*10' not in out: bad.append('own character length of b lost')
print('FAIL: ' + '; '.join(bad) if bad else 'PASS')
