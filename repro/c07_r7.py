import sys
sys.path.insert(0, '/repo')
from loki.expression import parse_expr
from loki import fgen
bad = []
for s, want in [('a%b*c', 'a%b*c'), ('a%b(1)*c', 'a%b(1)*c'), ('a%b%c**2', 'a%b%c**2'), ('a%b / c', 'a%b / c')]:
    got = fgen(parse_expr(s))
    print(f'{s:12} -> {got}')
    if got.replace(' ', '') != want.replace(' ', ''):
        bad.append(s)
print('FAIL: %s' % bad if bad else 'PASS')
