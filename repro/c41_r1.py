import sys
sys.path.insert(0, '/repo')
from loki import Subroutine, fgen
from loki.frontend import FP
from loki.transformations.argument_shape import ArgumentArrayShapeAnalysis, ExplicitArgumentArrayShapeTransformation

fcode_kernel = """
subroutine kernel(a)
  real, intent(inout) :: a(:)
  a(1) = 1.0
end subroutine kernel
"""
fcode_driver = """
subroutine driver(n, x)
  integer, intent(inout) :: n
  real, intent(inout) :: x(n)
  call kernel(x)
  n = n + 1
end subroutine driver
"""
kernel = Subroutine.from_source(fcode_kernel, frontend=FP)
driver = Subroutine.from_source(fcode_driver, frontend=FP)
driver.enrich(kernel)
before = fgen(driver.spec)
ArgumentArrayShapeAnalysis().apply(driver, role='driver')
ExplicitArgumentArrayShapeTransformation().apply(kernel, role='kernel')
ExplicitArgumentArrayShapeTransformation().apply(driver, role='driver')
print(fgen(driver)); print(fgen(kernel))
print('scope of kernel args:', [(a.name, getattr(a.scope, 'name', None)) for a in kernel.arguments])
print('driver n intent:', driver.variable_map['n'].type.intent)
ok = driver.variable_map['n'].type.intent.lower() == 'inout' and all(a.scope is kernel for a in kernel.arguments)
print('PASS' if ok else 'FAIL')
