import sys
sys.path.insert(0, '/repo')
from loki import Subroutine, fgen
from loki.frontend import FP
from loki.transformations.inline import inline_marked_subroutines
fcode_kernel = """
subroutine kernel(n, a)
  integer, intent(in) :: n
  real, intent(inout) :: a(n)
  integer :: i
  do i = 1, n
    a(i) = 1.0
  end do
end subroutine kernel
"""
fcode_driver = """
subroutine driver(x)
  real, intent(inout) :: x(-5:20)
  !$loki inline
  call kernel(4, x(0:3))
end subroutine driver
"""
kernel = Subroutine.from_source(fcode_kernel, frontend=FP)
driver = Subroutine.from_source(fcode_driver, frontend=FP)
driver.enrich(kernel)
inline_marked_subroutines(driver)
out = fgen(driver.body).lower().replace(' ', '')
print(fgen(driver.body))
# a(i) is x(i - 1): a(1) = x(0)
ok = 'x(i-1)' in out or 'x(-1+i)' in out
print('PASS' if ok else 'FAIL: a(i) of the dummy associated with x(0:3) is x(i - 1)')
