"""Reproducer for C23 R1. Run: cd /repo && /venv/bin/python /verif/repro/c23.py"""
from loki.batch import ProcedureItem
a, b = ProcedureItem('m#Foo', source=None), ProcedureItem('m#foo', source=None)
print('equal:', a == b, ' hashes equal:', hash(a) == hash(b), ' set size:', len({a, b}))
