#!/venv/bin/python
"""Development-time helper: mark a triaged finding as repaired by a `fix:` commit in /repo.
usage: tools/mark_fixed.py C11 R1 InlineCall <commit>
The entry stays in known_findings.json with status 'fixed' (suppresses nothing) and a `record` line
"fixed: property=<id> <commit> <what failed>"."""
import json, os, sys
HERE = os.path.dirname(os.path.dirname(os.path.abspath(__file__)))
P = os.path.join(HERE, 'known_findings.json')
prop, rule, sub, commit = sys.argv[1:5]
d = json.load(open(P))
n = 0
for f in d['findings']:
    if f['property'] == prop and f['rule'] == rule and sub in f['construct'] and f.get('status') == 'known':
        f['status'] = 'fixed'
        f['commit'] = commit
        f['record'] = f"fixed: property={prop} {commit} {f['what'][:200]}"
        n += 1
        print(f['record'])
json.dump(d, open(P, 'w'), indent=1)
print(n, 'entries marked')
