#!/venv/bin/python
"""Development-time: re-run the quick check of every stored seeded change against the current /repo (apply, check, revert)
and refresh `check_result` in its meta.json.  Reports patches that no longer apply (they must be re-created on HEAD)."""
import glob, json, os, re, subprocess, sys
bad = []
for mf in sorted(glob.glob('/verif/seeded/*/meta.json')):
    d = json.load(open(mf))
    sd = os.path.dirname(mf)
    P = d['property']
    out = subprocess.run(['/verif/tools/eval_seed.sh', f'{sd}/patch.diff', P], capture_output=True, text=True).stdout
    if 'PATCH DOES NOT APPLY' in out:
        bad.append(os.path.basename(sd)); print(os.path.basename(sd), 'PATCH DOES NOT APPLY'); continue
    fired = sorted({(m.group(1), m.group(2)) for m in re.finditer(r'^(C\d+) (R\d+) ', out, re.M)})
    d['check_result']['violation_reported'] = 'VIOLATION' in out
    d['check_result']['rules_fired'] = [f'{p} {r}' for p, r in fired]
    d['check_result']['report_lines'] = [l[:300] for l in out.splitlines() if re.match(r'^C\d+ R\d+ ', l)][:6]
    d['check_result']['evaluated_on_repo_commit'] = subprocess.run(['git', '-C', '/repo', 'log', '--format=%h', '-n1'], capture_output=True, text=True).stdout.strip()
    json.dump(d, open(mf, 'w'), indent=1)
    print(os.path.basename(sd), 'caught' if d['check_result']['violation_reported'] else 'MISSED', d['check_result']['rules_fired'])
sys.exit(1 if bad else 0)
