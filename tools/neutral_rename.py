#!/venv/bin/python
"""
Development-time neutrality test: rewrite every non-test module of a scratch copy of the repository with sa.neutral.rewrite
(locals renamed, optional no-op statements, re-emitted by ast.unparse).  The result behaves identically; every check must give
the same verdict on it as on the original tree.

    tools/neutral_rename.py /tmp/neutral_wt [--suffix _nr|''] [--noop]

Never run on /repo itself.
"""
import os
import sys

sys.path.insert(0, os.path.dirname(os.path.dirname(os.path.abspath(__file__))))
from sa.neutral import rewrite        # noqa: E402


def main():
    root = sys.argv[1]
    suffix = '_nr'
    if '--suffix' in sys.argv:
        suffix = sys.argv[sys.argv.index('--suffix') + 1]
    noop = '--noop' in sys.argv
    assert os.path.realpath(root) != '/repo', 'never on /repo'
    n = 0
    for pkg in ('loki', 'lint_rules/lint_rules'):
        for dp, dn, fn in os.walk(os.path.join(root, pkg)):
            dn[:] = [d for d in dn if d not in ('tests', '__pycache__')]
            for f in fn:
                if not f.endswith('.py'):
                    continue
                p = os.path.join(dp, f)
                out = rewrite(open(p, encoding='utf-8').read(), suffix=suffix, noop=noop)
                if out is None:
                    continue
                open(p, 'w', encoding='utf-8').write(out)
                n += 1
    print('rewritten', n, 'files')


if __name__ == '__main__':
    main()
