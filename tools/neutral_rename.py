#!/venv/bin/python
"""
Development-time neutrality test: rewrite every non-test module of a scratch copy of the repository with
 (a) all function-local variables renamed (suffix `_nr`), parameters / attributes / globals untouched, and
 (b) the code re-emitted by ast.unparse (comments dropped, layout and line numbers changed).
The result behaves identically; every check must therefore give the same verdict on it as on the original tree.

    tools/neutral_rename.py /tmp/neutral_wt            # rewrites loki/ and lint_rules/lint_rules in that worktree

Never run on /repo itself.
"""
import ast
import os
import sys

SUFFIX = '_nr'
NOOP = False      # additionally insert a no-op expression statement (`...`) at the top of every function body


def local_stores(fn):
    """names bound in the scope of function `fn` itself (not in nested defs / classes / lambdas)"""
    out, skip = set(), set()
    params = {a.arg for a in fn.args.posonlyargs + fn.args.args + fn.args.kwonlyargs}
    if fn.args.vararg:
        params.add(fn.args.vararg.arg)
    if fn.args.kwarg:
        params.add(fn.args.kwarg.arg)

    def walk(n, top=False):
        if not top and isinstance(n, (ast.FunctionDef, ast.AsyncFunctionDef, ast.ClassDef, ast.Lambda)):
            if isinstance(n, (ast.FunctionDef, ast.AsyncFunctionDef, ast.ClassDef)):
                skip.add(n.name)
            return
        if isinstance(n, (ast.Global, ast.Nonlocal)):
            skip.update(n.names)
        if isinstance(n, ast.Name) and isinstance(n.ctx, (ast.Store, ast.Del)):
            out.add(n.id)
        if isinstance(n, ast.ExceptHandler) and n.name:
            out.add(n.name)
        if isinstance(n, ast.alias):
            skip.add((n.asname or n.name).split('.')[0])
        for c in ast.iter_child_nodes(n):
            walk(c)
    walk(fn, top=True)
    return {x for x in out if x not in params and x not in skip and not x.startswith('__')}


class Renamer(ast.NodeTransformer):
    def __init__(self):
        self.active = [set()]

    def _fn(self, node):
        mine = local_stores(node)
        params = {a.arg for a in node.args.posonlyargs + node.args.args + node.args.kwonlyargs}
        if node.args.vararg:
            params.add(node.args.vararg.arg)
        if node.args.kwarg:
            params.add(node.args.kwarg.arg)
        # names of the enclosing functions stay renamed unless shadowed by a parameter here
        self.active.append((self.active[-1] - params) | mine)
        # decorators / defaults belong to the enclosing scope
        node.body = [self.visit(b) for b in node.body]
        if NOOP:
            k = 1 if node.body and isinstance(node.body[0], ast.Expr) and isinstance(node.body[0].value, ast.Constant) \
                and isinstance(node.body[0].value.value, str) else 0
            node.body.insert(k, ast.Expr(value=ast.Constant(value=Ellipsis)))
        self.active.pop()
        node.decorator_list = [self.visit(d) for d in node.decorator_list]
        node.args.defaults = [self.visit(d) for d in node.args.defaults]
        node.args.kw_defaults = [self.visit(d) if d is not None else None for d in node.args.kw_defaults]
        return node

    visit_FunctionDef = _fn
    visit_AsyncFunctionDef = _fn

    def visit_Lambda(self, node):
        params = {a.arg for a in node.args.posonlyargs + node.args.args + node.args.kwonlyargs}
        if node.args.vararg:
            params.add(node.args.vararg.arg)
        if node.args.kwarg:
            params.add(node.args.kwarg.arg)
        self.active.append(self.active[-1] - params)
        node.body = self.visit(node.body)
        self.active.pop()
        return node

    def visit_ClassDef(self, node):
        # class bodies are their own scope: names of enclosing functions are still visible for reading in methods
        self.generic_visit(node)
        return node

    def visit_Name(self, node):
        if node.id in self.active[-1]:
            node.id = node.id + SUFFIX
        return node

    def visit_ExceptHandler(self, node):
        if node.name and node.name in self.active[-1]:
            node.name = node.name + SUFFIX
        self.generic_visit(node)
        return node


def uses_dynamic_locals(tree):
    return any(isinstance(n, ast.Call) and isinstance(n.func, ast.Name) and n.func.id in ('locals', 'vars', 'eval', 'exec')
               for n in ast.walk(tree))


def main():
    root = sys.argv[1]
    assert os.path.realpath(root) != '/repo', 'never on /repo'
    n = 0
    for pkg in ('loki', 'lint_rules/lint_rules'):
        for dp, dn, fn in os.walk(os.path.join(root, pkg)):
            dn[:] = [d for d in dn if d not in ('tests', '__pycache__')]
            for f in fn:
                if not f.endswith('.py'):
                    continue
                p = os.path.join(dp, f)
                src = open(p, encoding='utf-8').read()
                tree = ast.parse(src)
                if uses_dynamic_locals(tree):
                    continue
                tree = Renamer().visit(tree)
                ast.fix_missing_locations(tree)
                open(p, 'w', encoding='utf-8').write(ast.unparse(tree) + '\n')
                n += 1
    print('rewritten', n, 'files')


if __name__ == '__main__':
    main()
