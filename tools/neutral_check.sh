#!/bin/bash
# Development-time neutrality test: every check must give the same verdict (exit code and number of KNOWN-FINDING lines) on a
# behaviour-preserving rewrite of the repository as on /repo itself.
#   tools/neutral_check.sh            # local variables renamed + code re-emitted by ast.unparse
#   tools/neutral_check.sh format     # re-emitted only (comments / layout / line numbers change)
#   tools/neutral_check.sh noop       # re-emitted + a no-op statement (`...`) inserted at the top of every function body
MODE=${1:-rename}
WT=/tmp/neutral_wt_$$
git -C /repo worktree add -q --detach $WT HEAD || exit 3
if [ "$MODE" = noop ]; then /venv/bin/python /verif/tools/neutral_rename.py $WT --suffix '' --noop
elif [ "$MODE" = format ]; then /venv/bin/python /verif/tools/neutral_rename.py $WT --suffix ''
else /venv/bin/python /verif/tools/neutral_rename.py $WT; fi
PYTHONPATH=$WT:$WT/lint_rules /venv/bin/python -c "import loki, lint_rules" || { echo "rewritten copy does not import"; git -C /repo worktree remove --force $WT; exit 3; }
cd /verif; bad=0
for f in sa/rules/c[0-9][0-9].py; do p=$(basename $f .py | tr c C)
  ./check $p --no-evidence --repo $WT > /tmp/nc_n_$$.log 2>&1; rc=$?; ./check $p --no-evidence > /tmp/nc_o_$$.log 2>&1; rc0=$?
  k1=$(grep -c '^KNOWN' /tmp/nc_n_$$.log); k0=$(grep -c '^KNOWN' /tmp/nc_o_$$.log)
  if [ $rc != $rc0 ] || [ $k1 != $k0 ]; then bad=1; echo "$p DIFFERS: neutral rc=$rc known=$k1 | /repo rc=$rc0 known=$k0 :: $(grep -E '^C[0-9]+ R|ANALYSIS' /tmp/nc_n_$$.log | cut -c1-160 | head -2)"; fi
done
rm -f /tmp/nc_n_$$.log /tmp/nc_o_$$.log; git -C /repo worktree remove --force $WT
[ $bad = 0 ] && echo "neutrality ($MODE): all checks give the same verdict"
exit $bad
