#!/venv/bin/python
"""Regenerate /verif/MANIFEST.json from sa/registry.py (development-time)."""
import sys, os, json
HERE = os.path.dirname(os.path.dirname(os.path.abspath(__file__)))
sys.path.insert(0, HERE)
import importlib
from sa import registry as R
CLAIMED = {}
for pid in R.ALL_IDS:
    if os.path.isfile(os.path.join(HERE, 'sa', 'rules', pid.lower() + '.py')):
        mod = importlib.import_module('sa.rules.' + pid.lower())
        CLAIMED[pid] = mod.META
checks = []
for pid in R.ALL_IDS:
    if pid not in CLAIMED:
        continue
    M = CLAIMED[pid]
    tech, text, note, ref = M['technique'], M['level'], M['note'], M['ref']
    checks.append({
        'property_id': pid,
        'quick_cmd': f'./check {pid} --tier quick',
        'thorough_cmd': f'./check {pid} --tier thorough',
        'evidence_file': f'/verif/evidence/{pid}.json',
        'replay_cmd_template': './check ' + pid + ' --replay {path}',
        'engine': 'sa',
        'level_claimed': {'category': 'other', 'text': text, 'design_ref': ref},
        'level_note': note,
        'technique': 'static analysis: ' + tech,
    })
na = []
for pid in R.ALL_IDS:
    if pid in CLAIMED:
        continue
    reason = R.NOT_APPLICABLE.get(pid, 'static check not built yet in this round (see DESIGN.md build order); not claimed')
    na.append({'property_id': pid, 'reason': reason})
man = {
    'version': 1,
    'setup_cmd': '/venv/bin/python -c "import sys; sys.path.insert(0, \'/verif\'); from sa.model import Model; from sa import dispatch; dispatch.selftest(Model()); print(\'sa model ok\')"',
    'hooks': {'guard': 'ECMWF_IFS_LOKI_VERIF', 'enable': 'no hooks: checks read /repo source text only; nothing in /repo is instrumented',
              'baseline_off_cmd': 'cd /repo && /venv/bin/python -m pytest -ra -q -p no:cacheprovider --timeout=900 --continue-on-collection-errors',
              'source_commits': [], 'add_only': True},
    'engines': [{'name': 'sa', 'path': '/verif/sa', 'serves_properties': sorted(CLAIMED),
                 'kind_free_text': 'repository-specific static analysis over Python ast: resolved class model (imports, C3 MRO, dataclass fields), static visitor/mapper dispatch, statement-level flow, operator-precedence tables, regex ASTs; no code from /repo is executed'}],
    'checks': checks,
    'not_applicable': na,
    'notes': 'All checks are pure static analysis of the current /repo working tree (python ast of loki, lint_rules and the installed pymbolic/fparser sources). Exit 0 held / 1 VIOLATION / 2 ANALYSIS-ERROR. Known findings: /verif/known_findings.json. thorough = quick + wide domain + in-memory mutation self-test of each rule.',
}
json.dump(man, open(os.path.join(HERE, 'MANIFEST.json'), 'w'), indent=1)
print('claimed', len(checks), 'n/a', len(na))
