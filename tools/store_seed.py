#!/venv/bin/python
"""
Dev-time tool: copy a confirmed seeded change into /verif/seeded/<Cnn>-<v>/.

    tools/store_seed.py C12/a [C12/b ...]

Requires /tmp/seed/out/<Cnn>/<v>/{patch.diff,demo.py,notes.md} (written by the seeding sub-agent) and
/tmp/seed/confirm/<Cnn>_<v>.txt (written by tools/confirm_seed.sh).  The change is kept only if the confirmation
shows: demo exits 0 on the clean tree, non-zero with the patch, and the full baseline suite has no new failing id.
Records which rules of which check fire on it (by applying it to /repo, running the quick check and reverting).
"""
import json
import os
import re
import shutil
import subprocess
import sys

SEED = '/tmp/seed/out'
CONF = '/tmp/seed/confirm'
DEST = '/verif/seeded'


def main():
    for spec in sys.argv[1:]:
        P, V = spec.split('/')
        src = f'{SEED}/{P}/{V}'
        conf = open(f'{CONF}/{P}_{V}.txt').read().splitlines()[0]
        kv = dict(re.findall(r'(\w+)=(\S+)', conf))
        fail_file = f'{CONF}/{P}_{V}.fail.txt'
        base = {l.strip() for l in open(f'{CONF}/baseline_fail.txt')}
        ids = {re.sub(r' - .*', '', l.strip()) for l in open(fail_file) if re.match(r'^(FAILED|ERROR) [^ ]+::', l)}
        new = sorted(ids - base)
        ok = kv.get('import_rc') == '0' and kv.get('demo_clean_rc') == '0' and kv.get('demo_patched_rc') not in ('0', None) and not new
        if not ok:
            print(f'{spec}: NOT confirmed ({conf}; new failing: {new[:3]}) -- not stored')
            continue
        out = subprocess.run(['/verif/tools/eval_seed.sh', f'{src}/patch.diff', P], capture_output=True, text=True).stdout
        fired = sorted({(m.group(1), m.group(2)) for m in re.finditer(r'^(C\d+) (R\d+) ', out, re.M)})
        lines = [l[:300] for l in out.splitlines() if re.match(r'^C\d+ R\d+ ', l)]
        viol = 'VIOLATION' in out
        dest = f'{DEST}/{P}-{V}'
        os.makedirs(dest, exist_ok=True)
        shutil.copy(f'{src}/patch.diff', f'{dest}/patch.diff')
        shutil.copy(f'{src}/demo.py', f'{dest}/demo.py')
        notes = open(f'{src}/notes.md').read()
        open(f'{dest}/notes.md', 'w').write(notes)
        trig = re.search(r'(?:Trigger|Needed to manifest|What it needs to manifest)[^:]*:\**\s*(.*?)(?:\n- |\n\n|\Z)', notes, re.S | re.I)
        note_file = f'{CONF}/{P}_{V}.note'
        meta = {
            'property': P,
            'variant': V,
            'origin': 'written by a fresh sub-agent that saw only the property text and a scratch worktree of /repo',
            'summary': notes.strip().splitlines()[0].lstrip('# ').strip(),
            'needs_to_manifest': ' '.join(trig.group(1).split()) if trig else 'see notes.md',
            'confirmed_by_me': {
                'where': 'scratch git worktree of /repo under /tmp (removed afterwards), tools/confirm_seed.sh',
                'commands': [
                    'git -C /repo worktree add --detach /tmp/confirm_<id> HEAD',
                    'PYTHONPATH=<wt>:<wt>/lint_rules /venv/bin/python demo.py   # clean tree',
                    'git apply patch.diff; /venv/bin/python -c "import loki"; /venv/bin/python demo.py   # patched tree',
                    '/venv/bin/python -m pytest -q -rfE -p no:cacheprovider --timeout=900 --continue-on-collection-errors -n 6   # patched tree',
                    'git -C /repo worktree remove --force /tmp/confirm_<id>',
                ],
                'import_rc': int(kv['import_rc']),
                'demo_exit_clean_tree': int(kv['demo_clean_rc']),
                'demo_exit_patched_tree': int(kv['demo_patched_rc']),
                'failing_test_ids_patched': len(ids),
                'failing_test_ids_baseline': len(base),
                'new_failing_test_ids': new,
            },
            'check_result': {
                'command': f'git -C /repo apply patch.diff; /verif/check {P} --tier quick; git -C /repo checkout -- .',
                'violation_reported': viol,
                'rules_fired': [f'{p} {r}' for p, r in fired],
                'report_lines': lines[:6],
            },
        }
        if os.path.isfile(note_file):
            meta['note'] = open(note_file).read().strip()
        json.dump(meta, open(f'{dest}/meta.json', 'w'), indent=1)
        print(f'{spec}: stored in {dest}; check fired: {viol} {fired}')


if __name__ == '__main__':
    main()
