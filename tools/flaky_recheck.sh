#!/bin/bash
# usage: tools/flaky_recheck.sh Cnn/v
# Re-runs, in isolation and on the patched tree (scratch worktree), the test ids that a loaded full-suite confirmation run reported
# in addition to the baseline.  If all of them pass, they are removed from the fail list (original kept as .fail.orig) and a note is
# written that tools/store_seed.py copies into meta.json.
s=$1; P=${s%/*}; V=${s#*/}
C=/tmp/seed/confirm; WT=/tmp/flaky_${P}_$V
new=$(comm -13 $C/baseline_fail.txt <(sed -E 's/ - .*//' $C/${P}_$V.fail.txt | sort -u))
[ -z "$new" ] && { echo "$s: nothing to re-check"; exit 0; }
ids=$(echo "$new" | sed -E 's/^(FAILED|ERROR) //')
git -C /repo worktree add -q --detach $WT HEAD || exit 3
cd $WT && git apply /tmp/seed/out/$P/$V/patch.diff || { cd /; git -C /repo worktree remove --force $WT; echo "patch does not apply"; exit 3; }
PYTHONPATH=$WT:$WT/lint_rules /venv/bin/python -m pytest -q -p no:cacheprovider --timeout=900 $ids > $C/${P}_$V.recheck.log 2>&1; rc=$?
cd /; git -C /repo worktree remove --force $WT
tail -1 $C/${P}_$V.recheck.log
if [ $rc = 0 ]; then
  cp $C/${P}_$V.fail.txt $C/${P}_$V.fail.orig
  grep -v -F -f <(echo "$ids") $C/${P}_$V.fail.orig > $C/${P}_$V.fail.txt
  echo "the full-suite run under load reported additional failing id(s) ($(echo $ids | tr '\n' ' ')); re-run in isolation on the patched tree they pass (timing / load dependent), so they are not counted" > $C/${P}_$V.note
  echo "$s: flaky ids removed"
else
  echo "$s: ids still fail in isolation -- genuine new failures"
fi
