#!/bin/bash
# usage: tools/confirm_queue.sh C15/a C15/b ...   (sequential, background)
for s in "$@"; do P=${s%/*}; V=${s#*/}; [ -f /tmp/seed/confirm/${P}_$V.txt ] || /verif/tools/confirm_seed.sh $P $V; done
