#!/bin/bash
# usage: tools/eval_seed.sh <patch.diff> <Cnn> [more props]   -- apply to /repo, run checks, revert
set -u
patch=$1; shift
cd /repo
# never run on a dirty /repo: the final `git checkout -- .` would wipe uncommitted work (test runs may leave the reporter dummy file deleted)
git checkout -q -- loki/lint/tests/test_reporter_dummy_file.F90 2>/dev/null
if [ -n "$(git status --short | grep -v '^??')" ]; then echo "REFUSING: /repo has uncommitted changes"; git status --short | head -3; exit 4; fi
git -C /repo apply --check "$patch" || { echo "PATCH DOES NOT APPLY"; exit 3; }
git -C /repo apply "$patch"
cd /verif
for p in "$@"; do
  ./check $p --tier quick --no-evidence 2>&1 | grep -E "^\[|VIOLATION|ANALYSIS-ERROR|^C[0-9]+ R" | cut -c1-260
done
git -C /repo checkout -- . ; git -C /repo status --short | grep -v '^??' | head -3
