#!/bin/bash
# dev tool: store every finished, not yet stored confirmation (re-checking ids that failed only under load)
cd /verif
git -C /repo status --short | grep -q . && { echo "/repo is dirty"; exit 1; }
for f in /tmp/seed/confirm/*.txt; do b=$(basename $f .txt); case $b in *fail*|baseline*) continue;; esac
  P=${b%_*}; V=${b#*_}; [ -d seeded/$P-$V ] && continue
  line=$(head -1 $f)
  case "$line" in *"demo_clean_rc=0"*) ;; *) echo "$b: NOT OK: $line"; continue;; esac
  case "$line" in *"demo_patched_rc=0"*) echo "$b: NOT OK: $line"; continue;; esac
  case "$line" in *"new_failing_tests=0"*) ;; *) [ -f /tmp/seed/confirm/${P}_$V.note ] || tools/flaky_recheck.sh $P/$V | tail -1;; esac
  tools/store_seed.py $P/$V | tail -1
done
