#!/bin/bash
# dev tool: run every claimed check at a tier (default quick) and print the non-zero exits
# usage: tools/run_all.sh [quick|thorough] [extra check args...]
cd /verif
T=${1:-quick}; shift
ids=$(/venv/bin/python -c "import json;print(' '.join(c['property_id'] for c in json.load(open('/verif/MANIFEST.json'))['checks']))")
mkdir -p /tmp/runall
run() { ./check $1 --tier $2 "${@:3}" >/tmp/runall/$1.$2.log 2>&1; echo "$1 rc=$? warn=$(grep -c SELFTEST-WARNING /tmp/runall/$1.$2.log) known=$(grep -c '^KNOWN-FINDING' /tmp/runall/$1.$2.log)"; }
export -f run
echo $ids | tr ' ' '\n' | xargs -P 6 -I{} bash -c "run {} $T $*" | sort
