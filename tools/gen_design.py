#!/venv/bin/python
"""Regenerate /verif/DESIGN.md (development-time): hand-written head + sections derived from the rule modules,
known_findings.json, seeded/*/meta.json and tools/design_notes.md (hand-written triage notes)."""
import glob
import importlib
import json
import os
import sys

HERE = os.path.dirname(os.path.dirname(os.path.abspath(__file__)))
sys.path.insert(0, HERE)
from sa import registry as R          # noqa: E402

props = {}
for line in open(os.path.join(HERE, 'properties.jsonl')):
    d = json.loads(line)
    props[d['id']] = d
known = json.load(open(os.path.join(HERE, 'known_findings.json')))
seeds = {}
for mf in sorted(glob.glob(os.path.join(HERE, 'seeded', '*', 'meta.json'))):
    d = json.load(open(mf))
    seeds.setdefault(d['property'], []).append((os.path.basename(os.path.dirname(mf)), d))

out = [open(os.path.join(HERE, 'tools', 'design_head.md')).read()]
out.append('## 3. Per-property rules (claimed properties)\n')
out.append('Each block: the rule module\'s own description (what is decided, what is not), the deciding technique, '
           'the self-test variants (B = breaking, must fire on the named rule; N = neutral, must stay silent), the known '
           'findings on today\'s tree and the seeded changes (section 8) the check was run against.\n')
claimed = []
for pid in R.ALL_IDS:
    path = os.path.join(HERE, 'sa', 'rules', pid.lower() + '.py')
    if not os.path.isfile(path):
        continue
    claimed.append(pid)
    mod = importlib.import_module('sa.rules.' + pid.lower())
    out.append(f'### {pid} {props[pid]["title"]}\n')
    out.append('```\n' + (mod.__doc__ or '').strip('\n') + '\n```\n')
    out.append(f'*Technique:* {mod.META["technique"]}.\n')
    out.append(f'*Level claimed:* {mod.META["level"]}\n')
    if mod.META.get('note'):
        out.append(f'*Note:* {mod.META["note"]}\n')
    muts = getattr(mod, 'MUTANTS', [])
    if muts:
        b = [f'`{x.name}`->{x.expect[0]}' for x in muts if x.expect]
        n = [f'`{x.name}`' for x in muts if not x.expect]
        out.append(f'*Self-test variants:* B: {", ".join(b) or "-"}; N: {", ".join(n) or "-"}.\n')
    kf = [f for f in known['findings'] if f['property'] == pid and f.get('status') == 'known']
    fx = [f for f in known['findings'] if f['property'] == pid and f.get('status') == 'fixed']
    if kf:
        out.append(f'*Known findings on today\'s tree ({len(kf)}; each reproduced, see `reproducer` in known_findings.json):*\n')
        shown = 0
        byrule = {}
        for f in kf:
            byrule.setdefault(f['rule'], []).append(f)
        for r, fs in sorted(byrule.items()):
            if len(fs) > 6:
                out.append(f'* {r} ({len(fs)} instances of one defect family): ' + '; '.join(f'`{f["construct"]}`' for f in fs[:40]) +
                           (' ...' if len(fs) > 40 else '') + f' -- {fs[0]["what"][:260]}')
            else:
                for f in fs:
                    out.append(f'* {r} `{f["construct"]}` -- {f["what"][:300]}')
        out.append('')
    else:
        out.append('*Known findings:* none; the check is silent on today\'s tree.\n')
    for f in fx:
        out.append(f'* {f["record"]}')
    if fx:
        out.append('')
    if pid in seeds:
        out.append('*Seeded changes:* ' + '; '.join(
            f'`{n}` ({"caught by " + ", ".join(d["check_result"]["rules_fired"]) if d["check_result"]["violation_reported"] else "MISSED"})'
            for n, d in seeds[pid]) + '.\n')
out.append('---------------------------------------------------------------------------\n')
out.append('## 5. Not applicable (no sound static argument in reach)\n')
out.append('| id | title | reason |\n|---|---|---|')
for pid in R.ALL_IDS:
    if pid not in claimed:
        out.append(f'| {pid} | {props[pid]["title"]} | {R.NOT_APPLICABLE[pid]} |')
out.append('')
import subprocess
_log = subprocess.run(['git', '-C', '/repo', 'log', '--reverse', '--format=%h|%s', '--grep=^fix:'], capture_output=True, text=True).stdout.strip().splitlines()
_fix = []
for _l in _log:
    _h, _subj = _l.split('|', 1)
    _props = sorted({f['property'] for f in known['findings'] if f.get('commit') == _h})
    _fix.append(f'* `{_h}` {_subj}  (findings: {", ".join(_props) if _props else "consequence of the previous commit"})')
out.append(open(os.path.join(HERE, 'tools', 'design_notes.md')).read().replace('__FIXLIST__', '\n'.join(_fix)))
out.append('## 8. Seeded changes and which rule catches which\n')
out.append('Each change was written by a fresh sub-agent that was given only the text of one property and a scratch git worktree '
           'of /repo (nothing from /verif).  A change is kept under `/verif/seeded/<Cnn>-<v>/` (patch.diff, demo.py, notes.md, '
           'meta.json) only after I confirmed in a scratch worktree of my own that the patched tree imports, the demonstration exits 0 on the '
           'clean tree and non-zero on the patched one, and the full baseline suite has no new failing test id (the 167 ids that fail '
           'in this sandbox for environmental reasons -- meson / cmake / compilers -- fail identically).  To re-run: '
           '`git -C /repo apply /verif/seeded/<id>/patch.diff; /verif/check <Cnn>; git -C /repo checkout -- .`\n')
out.append('Three rounds were run (`-a/-b`: every claimed property; `-c/-d`: a second and third pair for the properties whose rules were '
           'youngest or thinnest).  The last column is the honest history: "caught as written" means the check as it stood reported the '
           'change; "first evaluation: silent / exit 2" means it did not, and names the rule that was added or generalised afterwards -- '
           'always as a rule about the construct (all sites of the idiom, a truth table, a normal form), never a match on the seeded text; '
           'each such rule has a breaking and, where an equivalent spelling exists, a neutral self-test variant.  Patches that stopped '
           'applying after a later `fix:` commit were rebased in a scratch worktree (demo re-run both ways); the original is kept next to '
           'them as `patch.orig-before-<commit>.diff`.\n')
out.append('| seed | what it breaks | needs to manifest | result of the check (quick tier) | rule added / strengthened because of it |')
out.append('|---|---|---|---|---|')
notes = {}
np_ = os.path.join(HERE, 'tools', 'seed_notes.json')
if os.path.isfile(np_):
    notes = json.load(open(np_))
for pid in sorted(seeds):
    for n, d in seeds[pid]:
        res = ('caught: ' + ', '.join(d['check_result']['rules_fired'])) if d['check_result']['violation_reported'] else 'MISSED'
        out.append(f'| {n} | {d["summary"][:140]} | {d["needs_to_manifest"][:220]} | {res} | {notes.get(n, "")} |')
out.append('')
open(os.path.join(HERE, 'DESIGN.md'), 'w').write('\n'.join(out) + '\n')
print('DESIGN.md written:', len(claimed), 'claimed;', sum(len(v) for v in seeds.values()), 'seeds')
