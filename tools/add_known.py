#!/venv/bin/python
"""Development-time helper (NEVER run by a check): list the currently unlisted
findings of a property and, with --write, append them to known_findings.json
after manual triage.  usage: tools/add_known.py C15 [--write] [--rule R1] [--reason text]"""
import sys, os, json, importlib, argparse
HERE = os.path.dirname(os.path.dirname(os.path.abspath(__file__)))
sys.path.insert(0, HERE)
from sa.model import Model
from sa.report import Ctx, KNOWN_FILE
ap = argparse.ArgumentParser()
ap.add_argument('prop'); ap.add_argument('--write', action='store_true')
ap.add_argument('--rule'); ap.add_argument('--reason', default=''); ap.add_argument('--match', default='')
a = ap.parse_args()
mod = importlib.import_module(f'sa.rules.{a.prop.lower()}')
ctx = Ctx(a.prop.upper(), Model(), quiet=True)
mod.run(ctx)
unl, lst, known = ctx.classify()
data = {'findings': []}
if os.path.isfile(KNOWN_FILE):
    data = json.load(open(KNOWN_FILE))
for f in unl:
    if a.rule and f.rule != a.rule: continue
    if a.match and a.match not in f.construct: continue
    print(f.rule, f.construct, '|', f.message)
    if a.write:
        data['findings'].append({'property': f.prop, 'rule': f.rule, 'construct': f.construct, 'status': 'known',
                                 'what': f.message, 'reproducer': a.reason})
if a.write:
    json.dump(data, open(KNOWN_FILE, 'w'), indent=1)
