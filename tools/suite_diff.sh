#!/bin/bash
# usage: tools/suite_diff.sh [-d dir] [pytest paths...]   -- run (part of) the baseline suite and list failing ids that do
# NOT fail on the pinned tree in this sandbox (baseline list: /verif/tools/baseline_fail.txt).  Development-time only.
DIR=/repo
if [ "$1" = "-d" ]; then DIR=$2; shift 2; fi
cd $DIR
PYTHONPATH=$DIR:$DIR/lint_rules /venv/bin/python -m pytest -q -rfE -p no:cacheprovider --timeout=900 --continue-on-collection-errors -n ${NPROC:-6} "$@" 2>&1 \
  | tee /tmp/suite_diff.$$.log | grep -E '^(FAILED|ERROR) [^ ]+::' | sed -E 's/ - .*//' | sort -u > /tmp/suite_diff.$$.ids
tail -1 /tmp/suite_diff.$$.log
echo "new failing ids (not in baseline):"
comm -13 /verif/tools/baseline_fail.txt /tmp/suite_diff.$$.ids
echo "-- end"
rm -f /tmp/suite_diff.$$.log /tmp/suite_diff.$$.ids
