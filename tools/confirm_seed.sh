#!/bin/bash
# usage: tools/confirm_seed.sh <Cnn> <variant> [pytest paths...]
# Confirms a seeded change in a scratch worktree: demo passes clean, fails patched, given tests have no new failures.
set -u
P=$1; V=$2; shift 2
SRC=/tmp/seed/out/$P/$V
WT=/tmp/confirm_${P}_$V
git -C /repo worktree add -q --detach $WT HEAD || exit 3
cd $WT
export PYTHONPATH=$WT:$WT/lint_rules
/venv/bin/python $SRC/demo.py > /tmp/confirm_${P}_$V.clean.log 2>&1; RC_CLEAN=$?
git apply $SRC/patch.diff || { echo "patch does not apply"; cd /; git -C /repo worktree remove --force $WT; exit 3; }
/venv/bin/python $SRC/demo.py > /tmp/confirm_${P}_$V.patched.log 2>&1; RC_PATCHED=$?
TESTS="$*"
if [ -z "$TESTS" ]; then
  TESTS=$(git diff --name-only | xargs -n1 dirname | sort -u | while read d; do [ -d $d/tests ] && echo $d/tests; done | tr '\n' ' ')
fi
T_PATCHED=$(/venv/bin/python -m pytest -q -p no:cacheprovider --timeout=900 -x -n 4 $TESTS 2>&1 | tail -1)
git checkout -q -- .
T_CLEAN=$(/venv/bin/python -m pytest -q -p no:cacheprovider --timeout=900 -n 4 $TESTS 2>&1 | tail -1)
cd /; git -C /repo worktree remove --force $WT
echo "$P/$V demo clean rc=$RC_CLEAN patched rc=$RC_PATCHED | tests[$TESTS] clean: $T_CLEAN | patched: $T_PATCHED"
tail -2 /tmp/confirm_${P}_$V.patched.log
