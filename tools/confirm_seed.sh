#!/bin/bash
# usage: tools/confirm_seed.sh <Cnn> <variant>
# Confirms a seeded change in a scratch worktree:
#   demo passes on the clean tree, fails with the patch; the full baseline suite has no new failing test ids.
# Result: /tmp/seed/confirm/<Cnn>_<variant>.txt ; the worktree is removed afterwards.
set -u
P=$1; V=$2
SRC=/tmp/seed/out/$P/$V
OUT=/tmp/seed/confirm; mkdir -p $OUT
WT=/tmp/confirm_${P}_$V
BASE=$OUT/baseline_fail.txt
run_suite() {  # $1 = dir ; prints sorted failing ids
  (cd $1 && PYTHONPATH=$1:$1/lint_rules /venv/bin/python -m pytest -q -rfE -p no:cacheprovider --timeout=900 --continue-on-collection-errors -n 6 2>&1 \
     | grep -E '^(FAILED|ERROR) [^ ]+::' | sed -E 's/ - .*//' | sort -u)
}
git -C /repo worktree add -q --detach $WT HEAD || exit 3
if [ ! -s $BASE ]; then run_suite $WT > $BASE; fi
cd $WT; export PYTHONPATH=$WT:$WT/lint_rules
/venv/bin/python $SRC/demo.py > $OUT/${P}_$V.demo_clean.log 2>&1; RC_CLEAN=$?
git apply $SRC/patch.diff || { echo "$P/$V patch does not apply" > $OUT/${P}_$V.txt; cd /; git -C /repo worktree remove --force $WT; exit 3; }
/venv/bin/python -c "import loki" > /dev/null 2>&1; RC_IMPORT=$?
/venv/bin/python $SRC/demo.py > $OUT/${P}_$V.demo_patched.log 2>&1; RC_PATCHED=$?
run_suite $WT > $OUT/${P}_$V.fail.txt
NEW=$(comm -13 $BASE $OUT/${P}_$V.fail.txt | wc -l)
cd /; git -C /repo worktree remove --force $WT
{ echo "$P/$V import_rc=$RC_IMPORT demo_clean_rc=$RC_CLEAN demo_patched_rc=$RC_PATCHED new_failing_tests=$NEW baseline_failing=$(wc -l < $BASE)";
  comm -13 $BASE $OUT/${P}_$V.fail.txt | head -10; } > $OUT/${P}_$V.txt
cat $OUT/${P}_$V.txt
