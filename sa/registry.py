"""Single source for MANIFEST.json: claimed properties and the N/A list."""

NOT_APPLICABLE = {
    'C02': 'Fixpoint of print-parse is equality of two runtime strings/trees; no code-shape necessary condition '
           'beyond those claimed under C01/C06.',
    'C37': 'SCC pipelines: behavioural equivalence of long transformation chains; not a code-shape fact.',
    'C40': 'Idempotence is equality of the outputs of two runs; not decidable from code shape.',
}

ALL_IDS = [f'C{i:02d}' for i in range(1, 45)]
