"""Single source for MANIFEST.json: claimed properties and the N/A list."""

# id -> (technique, level text, level note, design_ref)
CLAIMED = {
    'C15': (
        'AST class-table analysis: dataclass-field vs _traversable agreement, static visitor/mapper dispatch, '
        'sibling-mapper child-coverage comparison',
        'Decides a structural necessary condition of completeness only: every Expression/Node-typed field of all '
        '47 IR node classes is traversable, the walk mapper behind the Find* visitors recurses into every child its '
        'sibling mappers recurse into (36 expression classes), finder handlers visit o.children for every node class '
        '(8 finders x 47 classes), FindNodes is pre-order. Does NOT decide ordering/uniqueness behaviour.',
        'Trusts annotations as the statement of which fields hold expressions; exemption table for attached '
        'pragma/comment metadata and literal-only fields is in sa/rules/c15.py.',
        'DESIGN.md section 3, C15'),
    'C26': (
        'static visitor dispatch totality + intra-procedural may-flow (taint) from node fields to the def/use sinks; '
        'finite-domain evaluation of the intent filters',
        'Decides structural necessary conditions of the over-approximation: every IR node class (47) is handled by a '
        'dataflow handler that funnels into visit_Node; every expression/body field flows into uses/defines; the intent '
        'filters cover {none,in,out,inout}; sequencing (uses before defines) and union merges. Does NOT decide aliasing, '
        'array sections or interprocedural effects.',
        'May-flow is flow-insensitive inside one handler; exemption table (fields naming entities) in sa/rules/c26.py.',
        'DESIGN.md section 3, C26'),
}

NOT_APPLICABLE = {
    'C02': 'Fixpoint of print-parse is equality of two runtime strings/trees; no code-shape necessary condition '
           'beyond those claimed under C01/C06.',
    'C20': 'Line spans are arithmetic over runtime text offsets; the only structural proxy would be a frozen '
           'fragment of source.py (brittle text match).',
    'C30': 'Array-notation equivalence incl. overlap semantics is value-level; no sound structural clause in reach.',
    'C34': 'Call-signature rewrites: caller/callee agreement is whole-program and value-level.',
    'C37': 'SCC pipelines: behavioural equivalence of long transformation chains; not a code-shape fact.',
    'C38': 'Storage sufficiency of stack/pool allocation is arithmetic over runtime sizes.',
    'C39': 'Parametrisation equivalence for matching inputs is value-level.',
    'C40': 'Idempotence is equality of the outputs of two runs; not decidable from code shape.',
    'C41': 'Well-formedness after every transformation lives in runtime scope chains; a generic undefined-name '
           'lint relabelled as this property would be dishonest.',
}

ALL_IDS = [f'C{i:02d}' for i in range(1, 45)]
