"""
Behaviour-preserving rewrites of Python source used as negative controls: every function-local variable renamed
(parameters / attributes / globals untouched), optional no-op statement at the top of every function body, and the code
re-emitted by ast.unparse (comments dropped, layout and line numbers changed).
"""
import ast

SUFFIX = '_nr'
NOOP = False


def local_stores(fn):
    """names bound in the scope of function `fn` itself (not in nested defs / classes / lambdas)"""
    out, skip = set(), set()
    params = {a.arg for a in fn.args.posonlyargs + fn.args.args + fn.args.kwonlyargs}
    if fn.args.vararg:
        params.add(fn.args.vararg.arg)
    if fn.args.kwarg:
        params.add(fn.args.kwarg.arg)

    def walk(n, top=False):
        if not top and isinstance(n, (ast.FunctionDef, ast.AsyncFunctionDef, ast.ClassDef, ast.Lambda)):
            if isinstance(n, (ast.FunctionDef, ast.AsyncFunctionDef, ast.ClassDef)):
                skip.add(n.name)
            return
        if isinstance(n, (ast.Global, ast.Nonlocal)):
            skip.update(n.names)
        if isinstance(n, ast.Name) and isinstance(n.ctx, (ast.Store, ast.Del)):
            out.add(n.id)
        if isinstance(n, ast.ExceptHandler) and n.name:
            out.add(n.name)
        if isinstance(n, ast.alias):
            skip.add((n.asname or n.name).split('.')[0])
        for c in ast.iter_child_nodes(n):
            walk(c)
    walk(fn, top=True)
    return {x for x in out if x not in params and x not in skip and not x.startswith('__')}


class Renamer(ast.NodeTransformer):
    def __init__(self):
        self.active = [set()]

    def _fn(self, node):
        mine = local_stores(node)
        params = {a.arg for a in node.args.posonlyargs + node.args.args + node.args.kwonlyargs}
        if node.args.vararg:
            params.add(node.args.vararg.arg)
        if node.args.kwarg:
            params.add(node.args.kwarg.arg)
        # names of the enclosing functions stay renamed unless shadowed by a parameter here
        self.active.append((self.active[-1] - params) | mine)
        # decorators / defaults belong to the enclosing scope
        node.body = [self.visit(b) for b in node.body]
        if _cfg['noop']:
            k = 1 if node.body and isinstance(node.body[0], ast.Expr) and isinstance(node.body[0].value, ast.Constant) \
                and isinstance(node.body[0].value.value, str) else 0
            node.body.insert(k, ast.Expr(value=ast.Constant(value=Ellipsis)))
        self.active.pop()
        node.decorator_list = [self.visit(d) for d in node.decorator_list]
        node.args.defaults = [self.visit(d) for d in node.args.defaults]
        node.args.kw_defaults = [self.visit(d) if d is not None else None for d in node.args.kw_defaults]
        return node

    visit_FunctionDef = _fn
    visit_AsyncFunctionDef = _fn

    def visit_Lambda(self, node):
        params = {a.arg for a in node.args.posonlyargs + node.args.args + node.args.kwonlyargs}
        if node.args.vararg:
            params.add(node.args.vararg.arg)
        if node.args.kwarg:
            params.add(node.args.kwarg.arg)
        self.active.append(self.active[-1] - params)
        node.body = self.visit(node.body)
        self.active.pop()
        return node

    def visit_ClassDef(self, node):
        # class bodies are their own scope: names of enclosing functions are still visible for reading in methods
        self.generic_visit(node)
        return node

    def visit_Name(self, node):
        if node.id in self.active[-1]:
            node.id = node.id + _cfg['suffix']
        return node

    def visit_ExceptHandler(self, node):
        if node.name and node.name in self.active[-1]:
            node.name = node.name + _cfg['suffix']
        self.generic_visit(node)
        return node


def uses_dynamic_locals(tree):
    return any(isinstance(n, ast.Call) and isinstance(n.func, ast.Name) and n.func.id in ('locals', 'vars', 'eval', 'exec')
               for n in ast.walk(tree))




_cfg = {'suffix': SUFFIX, 'noop': NOOP}


def rewrite(src, suffix='_nr', noop=False):
    """neutral rewrite of one module's source; returns None when the module uses locals()/eval (left alone)"""
    tree = ast.parse(src)
    if uses_dynamic_locals(tree):
        return None
    _cfg['suffix'], _cfg['noop'] = suffix, noop
    tree = Renamer().visit(tree)
    ast.fix_missing_locations(tree)
    return ast.unparse(tree) + '\n'
