"""Shared rule body for the printer-precedence properties (C06, C35, C36)."""
from sa.prec import MapperFacts
from sa import langtables as LT
from sa.model import AnalysisError

PARENS_KINDS = ('PAdd', 'PMul', 'PDiv', 'PPow')


def judge_printer(ctx, rule, relpath, clsname, lang, floor=13, child_filter=None):
    m = ctx.model
    cls = m.get_class(relpath, clsname)
    bad = m.unresolved_bases(cls)
    if bad:
        raise AnalysisError(f'unresolved base of {clsname}: {bad}')
    mf = MapperFacts(m, cls)
    ctx.floor(rule, f'operator handlers resolved for {clsname}', len(mf.handlers), 12)
    ctx.floor(rule, f'child slots extracted for {clsname}', len(mf.slots), floor)
    table = LT.TABLES[lang]
    n = 0
    for slot, row in sorted(table.items()):
        if slot not in mf.slots:
            raise AnalysisError(f'{clsname}: slot {slot} was not extracted from the handlers')
        s = mf.slots[slot]
        for child, verdict in sorted(row.items()):
            if verdict == 'n/a' or (child_filter is not None and not child_filter(child)):
                continue
            n += 1
            emits, why = mf.emits_parens(slot, child)
            inst = f'{clsname}:{slot}<-{child}'
            facts = {**s.facts(), 'child': child, 'child_own_prec': mf.own.get(child), 'language': lang,
                     'language_requires': verdict, 'printer_emits_parens': emits, 'why': why,
                     'example': LT.EXAMPLE.get((slot, child))}
            if verdict == 'need' and not emits:
                ex = LT.EXAMPLE.get((slot, child), '')
                ctx.violation(rule, inst, s.where,
                              f'{clsname} prints a {child} child in position {slot} without parentheses ({why}); '
                              f'{lang} then reads a different tree, e.g. {ex}', facts=facts)
            else:
                if verdict == 'adjacent' and not emits:
                    ctx.note(f'{clsname} {slot}<-{child}: consecutive operators printed without parentheses '
                             f'(value-correct with common compilers, not standard {lang})')
                ctx.judge(rule, inst, nontrivial=(verdict == 'need'), facts=facts)
        # explicitly parenthesised nodes must always come out parenthesised
        for pk in PARENS_KINDS if child_filter is None else ():
            n += 1
            if mf.own.get(pk) == 'always':
                ctx.judge(rule, f'{clsname}:{slot}<-{pk}', nontrivial=False)
            else:
                ctx.violation(rule, f'{clsname}:{pk}:always', mf.handlers[pk].where,
                              f'{clsname}: handler of {pk} does not always parenthesise (own prec {mf.own.get(pk)})')
    return mf, n
