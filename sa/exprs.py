"""Helpers to read facts off visitor / mapper handler bodies."""
import ast

from sa.model import walk_no_nested, dotted as dotted_attr  # noqa: F401


def param_name(func, index=1):
    a = func.node.args
    names = [x.arg for x in a.posonlyargs + a.args]
    return names[index] if len(names) > index else None


def attr_reads_of(func_node, var):
    """name -> list of Attribute nodes ``var.<name>`` (also getattr(var, 'name'))."""
    out = {}
    for n in ast.walk(func_node):
        if isinstance(n, ast.Attribute) and isinstance(n.value, ast.Name) and n.value.id == var:
            out.setdefault(n.attr, []).append(n)
        elif isinstance(n, ast.Call) and isinstance(n.func, ast.Name) and n.func.id in ('getattr', 'hasattr') \
                and len(n.args) >= 2 and isinstance(n.args[0], ast.Name) and n.args[0].id == var \
                and isinstance(n.args[1], ast.Constant) and isinstance(n.args[1].value, str):
            out.setdefault(n.args[1].value, []).append(n)
    return out


def _names_in(node):
    return {n.id for n in ast.walk(node) if isinstance(n, ast.Name)}


def _attrs_of_var(node, var):
    return {n.attr for n in ast.walk(node)
            if isinstance(n, ast.Attribute) and isinstance(n.value, ast.Name) and n.value.id == var}


def recursed_attrs(func_node, var, rec_names=('rec', 'visit', 'rec_with_force_parens_around', 'join_rec',
                                              'visit_all', 'retrieve', 'expr_mapper', '_visit')):
    """Attributes ``var.X`` whose value is handed to a recursion call
    (``self.rec(var.X)``, ``for c in var.X: self.rec(c)``, comprehensions,
    ``zip(var.X, ...)`` loops, locals assigned from ``var.X``)."""
    # 1. taint: local name -> set of attrs it was derived from
    taint = {}
    changed = True
    rounds = 0
    while changed and rounds < 6:
        changed = False
        rounds += 1
        for n in ast.walk(func_node):
            pairs = []
            if isinstance(n, (ast.For, ast.comprehension)):
                pairs.append((n.target, n.iter))
            elif isinstance(n, ast.Assign):
                for t in n.targets:
                    pairs.append((t, n.value))
            elif isinstance(n, ast.NamedExpr):
                pairs.append((n.target, n.value))
            for tgt, src in pairs:
                srcattrs = set(_attrs_of_var(src, var))
                for nm in _names_in(src):
                    srcattrs |= taint.get(nm, set())
                if not srcattrs:
                    continue
                for t in ast.walk(tgt):
                    if isinstance(t, ast.Name):
                        old = taint.get(t.id, set())
                        if not srcattrs <= old:
                            taint[t.id] = old | srcattrs
                            changed = True
    out = set()
    for n in ast.walk(func_node):
        if isinstance(n, ast.Call):
            f = n.func
            fname = f.attr if isinstance(f, ast.Attribute) else (f.id if isinstance(f, ast.Name) else None)
            if fname in rec_names or (fname or '').startswith(('visit_', 'map_')):
                for a in list(n.args) + [k.value for k in n.keywords]:
                    out |= _attrs_of_var(a, var)
                    for nm in _names_in(a):
                        out |= taint.get(nm, set())
    return out


def calls_in(func_node, nested=True):
    it = ast.walk(func_node) if nested else walk_no_nested(func_node)
    return [n for n in it if isinstance(n, ast.Call)]


def _is_noop(st):
    """docstrings, bare constants (`...`) and `pass` have no effect"""
    return isinstance(st, ast.Pass) or (isinstance(st, ast.Expr) and isinstance(st.value, ast.Constant))


def first_stmt(func_node):
    """First effective statement of a function body (docstring / no-op statements skipped)."""
    body = [st for st in func_node.body if not _is_noop(st)]
    return body[0] if body else None


def body_nodoc(func_node):
    """Function body without the docstring and without leading no-op statements."""
    body = list(func_node.body)
    while body and _is_noop(body[0]):
        body = body[1:]
    return body


def attr_flows(func_node, var):
    """Flow-insensitive may-flow: local name -> set of attributes ``var.X`` the
    name may be derived from ('*' when ``var`` itself flows in)."""
    def direct(node):
        out = set(_attrs_of_var(node, var))
        # bare use of var (not as the value of an attribute access)
        attr_values = {id(n.value) for n in ast.walk(node) if isinstance(n, ast.Attribute)}
        for n in ast.walk(node):
            if isinstance(n, ast.Name) and n.id == var and id(n) not in attr_values:
                out.add('*')
        return out

    taint = {}

    def flows(node):
        out = direct(node)
        for nm in _names_in(node):
            out |= taint.get(nm, set())
        return out

    changed, rounds = True, 0
    while changed and rounds < 8:
        changed = False
        rounds += 1
        for n in ast.walk(func_node):
            pairs = []
            if isinstance(n, (ast.For, ast.comprehension)):
                pairs.append((n.target, n.iter))
            elif isinstance(n, ast.Assign):
                for t in n.targets:
                    pairs.append((t, n.value))
            elif isinstance(n, ast.AugAssign):
                pairs.append((n.target, n.value))
            elif isinstance(n, ast.AnnAssign) and n.value is not None:
                pairs.append((n.target, n.value))
            elif isinstance(n, ast.NamedExpr):
                pairs.append((n.target, n.value))
            elif isinstance(n, ast.withitem) and n.optional_vars is not None:
                pairs.append((n.optional_vars, n.context_expr))
            elif isinstance(n, ast.Call) and isinstance(n.func, ast.Attribute) \
                    and n.func.attr in ('update', 'add', 'append', 'extend', 'insert', '__ior__') \
                    and isinstance(n.func.value, ast.Name):
                for a in n.args:
                    pairs.append((n.func.value, a))
            for tgt, src in pairs:
                fl = flows(src)
                if not fl:
                    continue
                for t in ast.walk(tgt):
                    if isinstance(t, ast.Name) and t.id != var:
                        old = taint.get(t.id, set())
                        if not fl <= old:
                            taint[t.id] = old | fl
                            changed = True
    return taint, flows


def call_name_of(node):
    """Last path component of the callee if ``node`` is a Call, else None."""
    if isinstance(node, ast.Call):
        f = node.func
        if isinstance(f, ast.Name):
            return f.id
        if isinstance(f, ast.Attribute):
            return f.attr
    return None


def nodes_with_guards(fnode, pred, early=False):
    """[(node, [guard test text, ...])] for every AST node satisfying ``pred``; guards are the tests of the
    enclosing if/elif/while statements (negated as 'not (...)' on else paths, including earlier elif tests).
    With ``early=True`` the statements following an ``if T: ... return/raise/continue/break`` (no else) in the same
    block additionally carry the guard ``not (T)``."""
    out = []

    def rec(stmts, guards):
        for st in stmts:
            if isinstance(st, ast.If):
                t = ast.unparse(st.test)
                for n in ast.walk(st.test):
                    if pred(n):
                        out.append((n, guards))
                rec(st.body, guards + [t])
                rec(st.orelse, guards + [f'not ({t})'])
                if early and not st.orelse and st.body and isinstance(st.body[-1], (ast.Return, ast.Raise, ast.Continue, ast.Break)):
                    guards = guards + [f'not ({t})']
            elif isinstance(st, (ast.For, ast.AsyncFor)):
                for n in ast.walk(st.iter):
                    if pred(n):
                        out.append((n, guards))
                rec(st.body, guards)
                rec(st.orelse, guards)
            elif isinstance(st, ast.While):
                rec(st.body, guards + [ast.unparse(st.test)])
            elif isinstance(st, (ast.With, ast.AsyncWith)):
                rec(st.body, guards)
            elif isinstance(st, ast.Try):
                rec(st.body, guards)
                for h in st.handlers:
                    rec(h.body, guards + ['<except>'])
                rec(st.orelse, guards)
                rec(st.finalbody, guards)
            elif isinstance(st, (ast.FunctionDef, ast.ClassDef)):
                continue
            else:
                for n in ast.walk(st):
                    if pred(n):
                        out.append((n, guards))
    rec(fnode.body, [])
    return out


# ---------------------------------------------------------------------------------------------------------------------
# statement / expression containment modulo renaming of local variables (wiring rules)
# ---------------------------------------------------------------------------------------------------------------------
import builtins as _builtins
import functools as _functools


@_functools.lru_cache(maxsize=512)
def _parsed(src):
    try:
        return ast.parse(src)
    except SyntaxError:
        return None


def _locals_of(tree):
    out = set()
    for n in ast.walk(tree):
        if isinstance(n, ast.Name) and isinstance(n.ctx, (ast.Store, ast.Del)):
            out.add(n.id)
        elif isinstance(n, ast.arg) and n.arg not in ('self', 'cls'):
            out.add(n.arg)
    return out


def _unify(p, c, loc, fwd, bwd):
    """pattern node p vs candidate node c; Names may differ if the candidate's is a local of the function (consistently)"""
    if type(p) is not type(c):
        return False
    if isinstance(p, ast.Name):
        if p.id == c.id and p.id not in fwd and c.id not in bwd:
            return True
        if p.id in fwd or c.id in bwd:
            return fwd.get(p.id) == c.id and bwd.get(c.id) == p.id
        if c.id in loc and not hasattr(_builtins, p.id):
            fwd[p.id] = c.id
            bwd[c.id] = p.id
            return True
        return False
    if isinstance(p, ast.arg):
        return _unify(ast.Name(id=p.arg, ctx=ast.Load()), ast.Name(id=c.arg, ctx=ast.Load()), loc, fwd, bwd)
    for f in p._fields:
        if f in ('ctx', 'type_comment', 'lineno', 'col_offset', 'end_lineno', 'end_col_offset', 'kind'):
            continue
        a, b = getattr(p, f, None), getattr(c, f, None)
        if isinstance(a, list):
            if not isinstance(b, list) or len(a) != len(b):
                return False
            for x, y in zip(a, b):
                if isinstance(x, ast.AST):
                    if not _unify(x, y, loc, fwd, bwd):
                        return False
                elif x != y:
                    return False
        elif isinstance(a, ast.AST):
            if not isinstance(b, ast.AST) or not _unify(a, b, loc, fwd, bwd):
                return False
        elif a != b:
            return False
    return True


def has(src, fragment):
    """Does the function source ``src`` (``ast.unparse`` text) contain ``fragment`` -- a statement or expression -- up to a
    consistent renaming of the function's local variables?  Fragments that are not parseable on their own (cut-off text) and
    sources that do not parse fall back to plain text containment."""
    if not isinstance(src, str):
        return fragment in src          # a collection, not source text
    if fragment in src:
        return True
    tree, pat = _parsed(src), _parsed(fragment)
    header_only = False
    if tree is not None and pat is None and fragment.lstrip().startswith(('for ', 'if ', 'while ', 'with ')):
        pat = _parsed(fragment.strip().rstrip(':') + ':\n    pass')
        header_only = pat is not None
    if tree is None or pat is None or len(pat.body) != 1:
        return False
    p = pat.body[0]
    if isinstance(p, ast.Expr):
        p = p.value
    loc = _locals_of(tree)
    for c in ast.walk(tree):
        if type(c) is not type(p):
            continue
        if header_only:
            fwd, bwd = {}, {}
            fields = {'For': ('target', 'iter'), 'If': ('test',), 'While': ('test',), 'With': ('items',)}[type(p).__name__]
            ok = True
            for f in fields:
                a, b = getattr(p, f), getattr(c, f)
                if isinstance(a, list):
                    ok = ok and len(a) == len(b) and all(_unify(x, y, loc, fwd, bwd) for x, y in zip(a, b))
                else:
                    ok = ok and _unify(a, b, loc, fwd, bwd)
            if ok:
                return True
        elif _unify(p, c, loc, {}, {}):
            return True
    return False


def _idents(tree):
    out = set()
    for n in ast.walk(tree):
        if isinstance(n, ast.Attribute):
            out.add(n.attr)
        elif isinstance(n, ast.Name):
            out.add(n.id)
        elif isinstance(n, ast.Constant) and isinstance(n.value, str):
            out.add(n.value)
        elif isinstance(n, ast.keyword) and n.arg:
            out.add(n.arg)
    return out


GENERIC = {'self', 'kwargs', 'args', 'o', 'cls', 'True', 'False', 'None', 'super', 'str', 'list', 'tuple', 'set', 'dict', 'len', 'copy'}


def wiring(src, fragment, tokens=None, reshaped_if=None):
    """Tri-state presence test for *wiring* rules ("statement S is part of function F"):
    'ok'        the fragment is there (up to renaming of locals);
    'absent'    the fragment is not there and at least one of the identifiers it is made of (attribute / function names,
                string keys, keyword names -- or the explicit ``tokens``) no longer occurs anywhere in the function:
                the step was removed;
    'reshaped'  the fragment is not there in this form but all its identifiers still occur: the step may have been
                rewritten in another idiom -- the caller must treat this as an unrecognised shape (ANALYSIS-ERROR), not
                as a violation.
    ``reshaped_if(tree)`` replaces the identifier heuristic by a rule-specific test for "some other construct may perform
    the step" (e.g. any store to the same key)."""
    if has(src, fragment):
        return 'ok'
    tree = _parsed(src)
    if tree is None:
        return 'absent'
    if reshaped_if is not None:
        return 'reshaped' if reshaped_if(tree) else 'absent'
    if tokens is None:
        pat = _parsed(fragment)
        if pat is None and fragment.lstrip().startswith(('for ', 'if ', 'while ', 'with ')):
            pat = _parsed(fragment.strip().rstrip(':') + ':\n    pass')
        if pat is None:
            return 'absent'
        loc = _locals_of(tree) | {t.id for n in ast.walk(pat) if isinstance(n, ast.Assign) for t in n.targets if isinstance(t, ast.Name)}
        tokens = {t for t in _idents(pat) if t not in GENERIC and t not in loc}
    have = _idents(tree)
    return 'reshaped' if all(t in have for t in tokens) else 'absent'


BOUND_ATTRS = ('lower', 'upper', 'start', 'stop')


def truthy_bound_uses(tree):
    """[(attribute node, enclosing test)] for every range bound (``x.lower`` / ``.upper`` / ``.start`` / ``.stop``, not the
    string method ``.lower()``) that is evaluated for *truth*: operand of ``or`` / ``and`` / ``not``, test of if / while /
    conditional expression / comprehension filter, directly or through a walrus.  Loki's IntLiteral(0) is falsy, so such a
    test takes an explicit bound 0 for an absent one."""
    called = {id(c.func) for c in ast.walk(tree) if isinstance(c, ast.Call)}
    out = []

    def operands(x, acc):
        if isinstance(x, ast.BoolOp):
            for v in x.values:
                operands(v, acc)
        elif isinstance(x, ast.UnaryOp) and isinstance(x.op, ast.Not):
            operands(x.operand, acc)
        elif isinstance(x, ast.NamedExpr):
            acc.append(x.value)
        else:
            acc.append(x)
    for n in ast.walk(tree):
        tests = []
        if isinstance(n, (ast.If, ast.While, ast.IfExp)):
            tests.append(n.test)
        elif isinstance(n, ast.BoolOp):
            tests.append(n)
        elif isinstance(n, ast.comprehension):
            tests += n.ifs
        for t in tests:
            acc = []
            operands(t, acc)
            for o in acc:
                if isinstance(o, ast.Attribute) and o.attr in BOUND_ATTRS and id(o) not in called and not any(o is x for x, _ in out):
                    out.append((o, t))
    return out


def names_assigned_from(fnode, *needles):
    """names of plain-Name assignment targets whose assigned value's source contains every needle (definition-based
    look-up of a local variable, so that rules do not depend on what the local is called)"""
    out = []
    for n in ast.walk(fnode):
        pairs = []
        if isinstance(n, ast.Assign):
            pairs = [(t, n.value) for t in n.targets]
        elif isinstance(n, ast.NamedExpr):
            pairs = [(n.target, n.value)]
        elif isinstance(n, ast.AnnAssign) and n.value is not None:
            pairs = [(n.target, n.value)]
        for t, v in pairs:
            if isinstance(t, ast.Name) and all(nd in ast.unparse(v) for nd in needles) and t.id not in out:
                out.append(t.id)
    return out
