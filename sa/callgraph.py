"""
Resolved call graph over the model: plain-name calls are resolved through the
module's import table, ``self.m()`` / ``cls.m()`` through the class MRO,
``Class(...)`` to ``__init__`` plus (for visitors/transformers/mappers) all
``visit_*`` / ``map_*`` handlers of that class, ``mod.f()`` through module
attributes.  Unresolved callees are collected, not guessed.
"""
import ast

from sa.model import FunctionInfo, ClassInfo, ModuleInfo


def _handlers(model, cls):
    out = []
    for name in model.all_member_names(cls):
        if name.startswith(('visit_', 'map_', 'transform_', 'plan_')) or name in ('visit', '__call__', '__init__'):
            f = model.member_function(cls, name)
            if f is not None and f.module.name.startswith(('loki', 'lint_rules')):
                out.append(f)
    return out


def callees(model, f):
    """(resolved FunctionInfos, unresolved names) called from function f"""
    res, unres = [], set()
    mod, cls = f.module, f.cls
    for n in ast.walk(f.node):
        if not isinstance(n, ast.Call):
            continue
        fn = n.func
        if isinstance(fn, ast.Name):
            got = model.resolve(mod, fn.id)
            if isinstance(got, FunctionInfo):
                res.append(got)
            elif isinstance(got, ClassInfo):
                res += _handlers(model, got)
            else:
                unres.add(fn.id)
        elif isinstance(fn, ast.Attribute):
            base = fn.value
            if isinstance(base, ast.Name) and base.id in ('self', 'cls') and cls is not None:
                g = model.member_function(cls, fn.attr)
                if g is not None:
                    res.append(g)
                else:
                    unres.add(f'self.{fn.attr}')
            elif isinstance(base, ast.Call) and isinstance(base.func, ast.Name) and base.func.id == 'super' and cls is not None:
                g = model.member_function(cls, fn.attr, after=cls)
                if g is not None:
                    res.append(g)
            elif isinstance(base, ast.Call) and isinstance(base.func, ast.Name):
                # Class(...).visit(...)
                got = model.resolve(mod, base.func.id)
                if isinstance(got, ClassInfo):
                    res += _handlers(model, got)
            else:
                got = model.resolve_expr(mod, fn)
                if isinstance(got, FunctionInfo):
                    res.append(got)
                elif isinstance(got, ClassInfo):
                    res += _handlers(model, got)
    return res, unres


def reachable(model, roots, limit=400, only_prefix=('loki.', 'lint_rules.')):
    seen, order, work = {}, [], list(roots)
    unresolved = set()
    while work and len(seen) < limit:
        f = work.pop()
        if f.fqn in seen:
            continue
        if not f.module.name.startswith(only_prefix):
            continue
        seen[f.fqn] = f
        order.append(f)
        cs, un = callees(model, f)
        unresolved |= un
        work += cs
    return seen, unresolved


def mentions(f, names):
    """does function f reference any of the identifiers (Name or Attribute.attr)?"""
    for n in ast.walk(f.node):
        if isinstance(n, ast.Name) and n.id in names:
            return True
        if isinstance(n, ast.Attribute) and n.attr in names:
            return True
    return False
