"""
Integer "polynomial plus rounded quotients" normal forms of trip-count style expressions found in the analysed source.

A form is ``p0 + sum_i m_i * kind_i(q_i / d_i)`` with polynomials p0, m_i, q_i, d_i over named atoms and
``kind`` one of floor (Python ``//``, ``floor(a / b)``), ceil (``ceil(a / b)``), trunc (``int(a / b)``; loki's
``Quotient`` -- Fortran integer division).  Forms are extracted from the *source* (Python integer arithmetic, loki
constructor trees, or a mix of the two) and compared as formulas:

* ``canonical``   sound rewriting: ``-floor(x) = ceil(-x)``, ``floor(q/d) + r = floor((q + r*d)/d)`` (same for ceil),
                  trunc -> floor when the caller licences it (quotient known to be non-negative), ceil -> floor under a
                  known sign of the denominator.
* ``evaluate``    value of a *form* (never of repository code) for given atom values: used only to exhibit a concrete
                  counterexample for two forms that are not identical after canonicalisation.
"""
import ast
from itertools import product as _iproduct


class NotNormal(Exception):
    pass


# ---------------------------------------------------------------------------------------------------------------- polynomials
def P_const(k):
    return {(): k} if k else {}


def P_atom(a):
    return {(a,): 1}


def P_add(a, b, sgn=1):
    out = dict(a)
    for k, v in b.items():
        out[k] = out.get(k, 0) + sgn * v
    return {k: v for k, v in out.items() if v}


def P_neg(a):
    return {k: -v for k, v in a.items()}


def P_mul(a, b):
    out = {}
    for ka, va in a.items():
        for kb, vb in b.items():
            k = tuple(sorted(ka + kb))
            out[k] = out.get(k, 0) + va * vb
    return {k: v for k, v in out.items() if v}


def P_eq(a, b):
    return P_add(a, b, -1) == {}


def P_is_const(a):
    return all(k == () for k in a)


def P_eval(a, env):
    tot = 0
    for k, v in a.items():
        t = v
        for x in k:
            t *= env[x]
        tot += t
    return tot


def P_subst(a, atom, value):
    """polynomial with ``atom`` replaced by the integer ``value``"""
    out = {}
    for k, v in a.items():
        c = v
        rest = []
        for x in k:
            if x == atom:
                c *= value
            else:
                rest.append(x)
        out[tuple(rest)] = out.get(tuple(rest), 0) + c
    return {k: v for k, v in out.items() if v}


def P_atoms(a):
    return {x for k in a for x in k}


def P_show(a):
    if not a:
        return '0'
    out = []
    for k, v in sorted(a.items(), key=lambda kv: (len(kv[0]), kv[0])):
        mono = '*'.join(k)
        if not k:
            out.append(f'{v:+d}')
        else:
            out.append(('+' if v > 0 else '-') + ('' if abs(v) == 1 else f'{abs(v)}*') + mono)
    s = ' '.join(out)
    return s[1:] if s.startswith('+') else s


# ---------------------------------------------------------------------------------------------------------------------- forms
class Form:
    def __init__(self, p0=None, terms=()):
        self.p0 = p0 or {}
        self.terms = list(terms)          # [(m, kind, q, d)]

    @property
    def pure(self):
        return not self.terms

    def show(self):
        parts = [P_show(self.p0)] if self.p0 or not self.terms else []
        for m, kind, q, d in self.terms:
            parts.append(f'({P_show(m)})*{kind}(({P_show(q)}) / ({P_show(d)}))')
        return ' + '.join(parts)


def F_add(a, b, sgn=1):
    return Form(P_add(a.p0, b.p0, sgn), a.terms + [((P_neg(m) if sgn < 0 else m), k, q, d) for m, k, q, d in b.terms])


def F_mul(a, b):
    if not a.pure and not b.pure:
        raise NotNormal('product of two rounded quotients')
    if a.pure:
        a, b = b, a
    return Form(P_mul(a.p0, b.p0), [(P_mul(m, b.p0), k, q, d) for m, k, q, d in a.terms])


def F_div(kind, a, b):
    if not (a.pure and b.pure):
        raise NotNormal('nested rounded quotient')
    if not b.p0:
        raise NotNormal('division by zero')
    if b.p0 in ({(): 1}, {(): -1}):          # exact
        return Form(a.p0 if b.p0[()] == 1 else P_neg(a.p0))
    return Form({}, [(P_const(1), kind, a.p0, b.p0)])


DUAL = {'floor': 'ceil', 'ceil': 'floor', 'trunc': 'trunc'}


def canonical(f, nonneg=lambda q, d: False, sign_of=lambda d: None):
    """Sound normalisation.  ``nonneg(q, d)``: the caller's licence that q/d >= 0 (then trunc == floor);
    ``sign_of(d)``: +1 / -1 when the sign of the denominator is known (then ceil is rewritten into floor)."""
    p0 = dict(f.p0)
    terms = []
    for m, kind, q, d in f.terms:
        if m and all(v < 0 for v in m.values()):
            m, kind, q = P_neg(m), DUAL[kind], P_neg(q)
        if kind == 'trunc' and nonneg(q, d):
            kind = 'floor'
        if kind == 'ceil' and sign_of(d) in (1, -1):
            # ceil(q/d) = floor((q + d - 1)/d) for d > 0, floor((q + d + 1)/d) for d < 0
            q, kind = P_add(P_add(q, d), P_const(-1 if sign_of(d) > 0 else 1)), 'floor'
        terms.append((m, kind, q, d))
    if len(terms) == 1 and terms[0][1] in ('floor', 'ceil') and len(terms[0][0]) == 1:
        m, kind, q, d = terms[0]
        (mk, mc), = m.items()
        # absorb every monomial of p0 that is an integer multiple of m:  m*kind(q/d) + m*r = m*kind((q + r*d)/d)
        r, rest = {}, {}
        for k, v in p0.items():
            kk = list(k)
            ok = v % mc == 0
            for x in mk:
                if x in kk:
                    kk.remove(x)
                else:
                    ok = False
            if ok:
                r[tuple(kk)] = v // mc
            else:
                rest[k] = v
        q = P_add(q, P_mul(r, d))
        p0, terms = rest, [(m, kind, q, d)]
    return Form(p0, terms)


def F_same(a, b):
    if not P_eq(a.p0, b.p0) or len(a.terms) != len(b.terms):
        return False
    return all(P_eq(m1, m2) and k1 == k2 and P_eq(q1, q2) and P_eq(d1, d2)
               for (m1, k1, q1, d1), (m2, k2, q2, d2) in zip(a.terms, b.terms))


def F_zero(f):
    """the form is identically zero (identical rounded quotients are merged first)"""
    acc = {}
    for m, k, q, d in f.terms:
        key = (k, tuple(sorted(q.items())), tuple(sorted(d.items())))
        acc[key] = P_add(acc.get(key, {}), m)
    return not f.p0 and all(not m for m in acc.values())


def F_subst(f, atom, value):
    return Form(P_subst(f.p0, atom, value), [(P_subst(m, atom, value), k, P_subst(q, atom, value), P_subst(d, atom, value))
                                              for m, k, q, d in f.terms])


def F_atoms(f):
    out = set(P_atoms(f.p0))
    for m, _, q, d in f.terms:
        out |= P_atoms(m) | P_atoms(q) | P_atoms(d)
    return out


def evaluate(f, env):
    tot = P_eval(f.p0, env)
    for m, kind, q, d in f.terms:
        qv, dv = P_eval(q, env), P_eval(d, env)
        if dv == 0:
            raise ZeroDivisionError
        if kind == 'floor':
            r = qv // dv
        elif kind == 'ceil':
            r = -((-qv) // dv)
        else:
            r = abs(qv) // abs(dv) * (1 if (qv >= 0) == (dv > 0) else -1)
        tot += P_eval(m, env) * r
    return tot


# ----------------------------------------------------------------------------------------------------------------- extraction
def _cname(c):
    f = c.func
    return f.attr if isinstance(f, ast.Attribute) else (f.id if isinstance(f, ast.Name) else None)


class Extractor:
    """``atom_of(node)`` names the atoms (returns None for "not an atom"); ``env`` maps local names to their defining
    expression; ``identity_calls`` are names of calls that return the value of their first argument."""

    def __init__(self, atom_of, env=None, identity_calls=()):
        self.atom_of = atom_of
        self.env = env or {}
        self.identity_calls = set(identity_calls) | {'simplify', 'IntLiteral', 'Literal', 'as_tuple'}
        self._busy = set()

    def form(self, e):
        a = self.atom_of(e)
        if a is not None:
            return Form(P_atom(a))
        if isinstance(e, ast.Constant) and isinstance(e.value, int) and not isinstance(e.value, bool):
            return Form(P_const(e.value))
        if isinstance(e, ast.UnaryOp) and isinstance(e.op, ast.USub):
            return F_add(Form(), self.form(e.operand), -1)
        if isinstance(e, ast.UnaryOp) and isinstance(e.op, ast.UAdd):
            return self.form(e.operand)
        if isinstance(e, ast.BinOp):
            if isinstance(e.op, (ast.Add, ast.Sub)):
                return F_add(self.form(e.left), self.form(e.right), 1 if isinstance(e.op, ast.Add) else -1)
            if isinstance(e.op, ast.Mult):
                return F_mul(self.form(e.left), self.form(e.right))
            if isinstance(e.op, ast.FloorDiv):
                return F_div('floor', self.form(e.left), self.form(e.right))
            raise NotNormal(f'operator in `{ast.unparse(e)}`')
        if isinstance(e, ast.Name):
            if e.id in self.env and e.id not in self._busy:
                self._busy.add(e.id)
                try:
                    return self.form(self.env[e.id])
                finally:
                    self._busy.discard(e.id)
            raise NotNormal(f'name `{e.id}`')
        if isinstance(e, ast.Attribute) and e.attr == 'value':
            return self.form(e.value)
        if isinstance(e, ast.Call) and isinstance(e.func, ast.Call) and (_cname(e.func) or '').endswith('EvaluationMapper') and len(e.args) == 1:
            return self.form(e.args[0])          # an evaluation mapper returns the value of the expression
        if isinstance(e, ast.Call):
            cn = _cname(e)
            if cn in ('int', 'floor', 'ceil') and len(e.args) == 1:
                a0 = e.args[0]
                if isinstance(a0, ast.BinOp) and isinstance(a0.op, ast.Div):
                    return F_div({'int': 'trunc', 'floor': 'floor', 'ceil': 'ceil'}[cn], self.form(a0.left), self.form(a0.right))
                return self.form(a0)            # integer valued argument
            if cn in self.identity_calls and e.args:
                return self.form(e.args[0])
            if cn == 'Sum' and len(e.args) == 1 and isinstance(e.args[0], (ast.Tuple, ast.List)):
                out = Form()
                for x in e.args[0].elts:
                    out = F_add(out, self.form(x))
                return out
            if cn == 'Product' and len(e.args) == 1 and isinstance(e.args[0], (ast.Tuple, ast.List)):
                out = Form(P_const(1))
                for x in e.args[0].elts:
                    out = F_mul(out, self.form(x))
                return out
            if cn == 'Quotient' and len(e.args) == 2:
                return F_div('trunc', self.form(e.args[0]), self.form(e.args[1]))
        raise NotNormal(f'`{ast.unparse(e)[:80]}`')


def counterexample(cand, spec, domain, names):
    """first assignment of ``names`` from the iterable ``domain`` (dicts) on which the two forms evaluate differently"""
    for env in domain:
        try:
            a, b = evaluate(cand, env), evaluate(spec, env)
        except ZeroDivisionError:
            continue
        if a != b:
            return env, a, b
    return None


def grid(**ranges):
    keys = list(ranges)
    for vals in _iproduct(*[ranges[k] for k in keys]):
        yield dict(zip(keys, vals))
