"""
Mutation self-test of rules: in-memory variants of the consulted source (an
overlay handed to the model; /repo is never touched) on which a rule must fire
(breaking variants) or stay silent (neutral variants).
"""
import os
import traceback
from concurrent.futures import ProcessPoolExecutor

from sa.model import Model, AnalysisError, REPO
from sa.report import Ctx


class Mutant:
    def __init__(self, name, file, old=None, new=None, expect=None, count=1, edit=None, quick=False,
                 also=None):
        """``expect`` = (rule, construct-substring) for a breaking variant, None for a
        neutral one.  ``old``/``new`` textual replacement that must match exactly
        ``count`` times in today's file, else the mutant is reported as stale
        (skipped, never a failure).  ``also`` = further (file, old, new) edits."""
        self.name, self.file, self.old, self.new = name, file, old, new
        self.expect, self.count, self.edit, self.quick = expect, count, edit, quick
        self.also = also or []

    def overlay(self, repo):
        ov = {}
        for file, old, new in [(self.file, self.old, self.new)] + list(self.also):
            path = os.path.join(repo, file)
            if path in ov:
                src = ov[path]
            else:
                try:
                    with open(path, encoding='utf-8') as f:
                        src = f.read()
                except OSError:
                    return None
            if self.edit is not None and file == self.file and old is None:
                out = self.edit(src)
                if out is None or out == src:
                    return None
            else:
                if src.count(old) != self.count:
                    return None
                out = src.replace(old, new)
            ov[path] = out
        return ov


def _keys(ctx):
    return {f.key for f in ctx.findings}


def run_one(args):
    modname, prop, idx, repo, base_keys = args
    import importlib
    mod = importlib.import_module(modname)
    mut = mod.MUTANTS[idx]
    rec = {'name': mut.name, 'kind': 'breaking' if mut.expect else 'neutral', 'file': mut.file}
    ov = mut.overlay(repo)
    if ov is None:
        rec['outcome'] = 'stale (edit anchor not found in current tree; skipped)'
        rec['ok'] = None
        return rec
    try:
        model = Model(repo, overlay=ov)
        ctx = Ctx(prop, model, quiet=True)
        mod.run(ctx)
        new = sorted(_keys(ctx) - set(map(tuple, base_keys)))
        rec['new_findings'] = [list(k) for k in new][:6]
        if mut.expect:
            rule, sub = mut.expect
            hit = [k for k in new if k[1] == rule and sub in k[2]]
            rec['ok'] = bool(hit)
            rec['outcome'] = f'fired {hit[0][1]} {hit[0][2]}' if hit else \
                f'MISSED (expected {rule} ~ {sub}; new findings {new[:3]})'
        else:
            rec['ok'] = not new
            rec['outcome'] = 'silent' if not new else f'FALSE-ALARM {new[:3]}'
    except AnalysisError as e:
        # a breaking variant may legitimately make the analysis fail closed
        rec['ok'] = bool(mut.expect) and mut.expect[0] == 'ANALYSIS-ERROR'
        rec['outcome'] = f'analysis-error: {e}'
    except Exception:      # pylint: disable=broad-except
        rec['ok'] = False
        rec['outcome'] = 'crash: ' + traceback.format_exc(limit=3)
    return rec


def neutral_control(module, prop, base_ctx, repo, noop=False):
    """Negative control of the thorough tier: the rule is re-run on an in-memory, behaviour-preserving rewrite of every
    repository module (locals renamed, re-emitted by ast.unparse, optionally a no-op statement per function) and must produce
    exactly the findings it produces on the real tree."""
    from sa.neutral import rewrite
    name = 'neutral-control:' + ('noop' if noop else 'rename-locals')
    rec = {'name': name, 'kind': 'neutral', 'file': 'all repository modules'}
    ov = {}
    for pkg in ('loki', 'lint_rules/lint_rules'):
        for dp, dn, fn in os.walk(os.path.join(repo, pkg)):
            dn[:] = [d for d in dn if d not in ('tests', '__pycache__')]
            for f in fn:
                if f.endswith('.py'):
                    path = os.path.join(dp, f)
                    try:
                        out = rewrite(open(path, encoding='utf-8').read(), suffix='' if noop else '_nr', noop=noop)
                    except SyntaxError:
                        out = None
                    if out is not None:
                        ov[path] = out
    try:
        ctx = Ctx(prop, Model(repo, overlay=ov), quiet=True)
        module.run(ctx)
        base, got = _keys(base_ctx), _keys(ctx)
        diff = sorted(base ^ got)
        rec['new_findings'] = [list(k) for k in diff][:6]
        rec['ok'] = not diff
        rec['outcome'] = f'same findings on {len(ov)} rewritten modules' if not diff else f'VERDICT-CHANGED {diff[:3]}'
    except AnalysisError as e:
        rec['ok'] = False
        rec['outcome'] = f'analysis-error on the neutral rewrite: {e}'
    except Exception:      # pylint: disable=broad-except
        rec['ok'] = False
        rec['outcome'] = 'crash: ' + traceback.format_exc(limit=3)
    return rec


def run_mutants(module, prop, base_ctx, only_quick=False, workers=16, repo=None):
    repo = repo or base_ctx.model.repo
    muts = getattr(module, 'MUTANTS', [])
    idxs = [i for i, m in enumerate(muts) if (m.quick or not only_quick)]
    base_keys = [list(k) for k in _keys(base_ctx)]
    jobs = [(module.__name__, prop, i, repo, base_keys) for i in idxs]
    extra = [] if only_quick else [neutral_control(module, prop, base_ctx, repo), neutral_control(module, prop, base_ctx, repo, noop=True)]
    if not jobs:
        return extra
    if len(jobs) <= 60 or workers <= 1:     # process start-up dominates in this sandbox (0.15 s per variant serial)
        return [run_one(j) for j in jobs] + extra
    with ProcessPoolExecutor(max_workers=min(workers, len(jobs))) as ex:
        return list(ex.map(run_one, jobs))
