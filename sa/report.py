"""
Run context shared by all rule modules: collects judged instances and
violations, applies the known-findings file, writes evidence and replay files.
"""
import json
import os
import time
import hashlib

VERIF = os.path.dirname(os.path.dirname(os.path.abspath(__file__)))
KNOWN_FILE = os.path.join(VERIF, 'known_findings.json')
EVIDENCE_DIR = os.path.join(VERIF, 'evidence')
REPLAY_DIR = os.path.join(VERIF, 'replay')


class Finding:
    def __init__(self, prop, rule, construct, where, message, facts=None):
        self.prop, self.rule, self.construct = prop, rule, construct
        self.where, self.message, self.facts = where, message, facts or {}

    @property
    def key(self):
        return (self.prop, self.rule, self.construct)

    def as_dict(self):
        return {'property': self.prop, 'rule': self.rule, 'construct': self.construct,
                'where': self.where, 'message': self.message, 'facts': self.facts}


def load_known():
    if not os.path.isfile(KNOWN_FILE):
        return []
    with open(KNOWN_FILE, encoding='utf-8') as f:
        return json.load(f)['findings']


class Ctx:
    """Per-property run context."""

    def __init__(self, prop, model, tier='quick', seed=0, quiet=False):
        self.prop = prop
        self.model = model
        self.tier = tier
        self.seed = seed
        self.quiet = quiet
        self.instances = []        # (rule, instance key, nontrivial, ok, facts)
        self.findings = []
        self.notes = []            # informational lines
        self.rules = {}            # rule id -> text
        self.assumptions = []
        self.floors = []           # (rule, what, count, minimum)
        self.selftest = []         # mutation self-test records
        self.extra = {}
        self.t0 = time.time()

    # -- recording ---------------------------------------------------------
    def rule(self, rid, text):
        self.rules[rid] = text

    def assume(self, text):
        if text not in self.assumptions:
            self.assumptions.append(text)

    def judge(self, rule, instance, ok=True, nontrivial=True, facts=None):
        self.instances.append((rule, instance, bool(nontrivial), bool(ok), facts))

    def violation(self, rule, construct, where, message, facts=None, instance=None):
        self.findings.append(Finding(self.prop, rule, construct, where, message, facts))
        self.judge(rule, instance or construct, ok=False, facts=facts)

    def wired(self, rule, instance, where, src, fragments, message, tokens=None, reshaped_if=None):
        """Wiring rule: every fragment is a statement / expression of the function source ``src`` (see exprs.wiring).
        Removed step -> violation; step present in another form -> AnalysisError (unrecognised idiom, exit 2)."""
        from sa import exprs as X
        from sa.model import AnalysisError
        st = [(f, X.wiring(src, f, tokens, reshaped_if)) for f in fragments]
        if all(v == 'ok' for _, v in st):
            return self.judge(rule, instance)
        gone = [f for f, v in st if v == 'absent']
        if gone:
            return self.violation(rule, instance, where, f'{message} (missing: `{gone[0]}`)')
        raise AnalysisError(f'{rule} {instance}: `{[f for f, v in st if v == "reshaped"][0]}` is no longer present in this form at {where}, '
                            f'but everything it refers to still occurs in the function: unrecognised idiom, the rule cannot tell '
                            f'whether the step is still performed')

    def note(self, text):
        self.notes.append(text)

    def floor(self, rule, what, count, minimum):
        self.floors.append((rule, what, count, minimum))
        if count < minimum:
            from sa.model import AnalysisError
            raise AnalysisError(f'{self.prop} {rule}: only {count} {what} found, floor is {minimum} '
                                f'(rule would pass vacuously)')

    # -- outcome -------------------------------------------------------------
    def classify(self):
        """Split findings into (unlisted, known) using known_findings.json.
        Entries with status 'fixed' suppress nothing."""
        known = {(k['property'], k['rule'], k['construct']): k for k in load_known()
                 if k.get('status') == 'known'}
        unlisted, listed = [], []
        seen = set()
        for f in self.findings:
            if f.key in seen:
                continue
            seen.add(f.key)
            (listed if f.key in known else unlisted).append(f)
        return unlisted, listed, known

    def finish(self, write=True):
        """Print report, write evidence and replay files; return exit code."""
        unlisted, listed, known = self.classify()
        out = []
        for f in listed:
            out.append(f'KNOWN-FINDING: property={self.prop} rule={f.rule} construct={f.construct} '
                       f'at {f.where}: {f.message}')
        for f in unlisted:
            path = self._write_replay(f) if write else '-'
            out.append(f'{self.prop} {f.rule} {f.where}: {f.construct}: {f.message}')
            out.append(f'VIOLATION property={self.prop} replay={path}')
        stale = [k for k in known if k[0] == self.prop and k not in {f.key for f in self.findings}]
        for k in stale:
            out.append(f'note: known finding no longer observed (repaired?): {k[1]} {k[2]}')
        if write:
            self._write_evidence(unlisted, listed, stale)
        if not self.quiet:
            n_inst = len(self.instances)
            print(f'[{self.prop}] tier={self.tier} rules={sorted(self.rules)} instances={n_inst} '
                  f'violations={len(unlisted)} known={len(listed)} '
                  f'files={len(self.model.consulted)} wall={time.time() - self.t0:.2f}s')
            for r, what, c, mn in self.floors:
                print(f'  floor {r}: {c} {what} (>= {mn})')
            for n in self.notes:
                print(f'  note: {n}')
            for s in self.selftest:
                print(f"  selftest {s['name']}: {s['outcome']}")
            for line in out:
                print(line)
        return 1 if unlisted else 0

    def _write_replay(self, f):
        d = os.path.join(REPLAY_DIR, self.prop)
        os.makedirs(d, exist_ok=True)
        h = hashlib.sha1(repr(f.key).encode()).hexdigest()[:12]
        path = os.path.join(d, f'{f.rule}-{h}.json')
        with open(path, 'w', encoding='utf-8') as fh:
            json.dump(f.as_dict(), fh, indent=1, default=str)
        return path

    def _write_evidence(self, unlisted, listed, stale):
        os.makedirs(EVIDENCE_DIR, exist_ok=True)
        distinct = {(r, str(i)) for r, i, nt, ok, fa in self.instances if nt}
        samples = []
        per_rule = {}
        for r, i, nt, ok, fa in self.instances:
            per_rule.setdefault(r, []).append((i, nt, ok, fa))
        for r, lst in sorted(per_rule.items()):
            picks = [x for x in lst if x[1]][:3] + [x for x in lst if not x[2]][:3]
            for i, nt, ok, fa in picks:
                samples.append({'rule': r, 'instance': str(i), 'holds': ok, 'facts': fa})
        explanation = ' || '.join(f'{r}: {t}' for r, t in sorted(self.rules.items()))
        ev = {
            'property_id': self.prop,
            'tier': self.tier,
            'seed': int(self.seed),
            'level': 'other',
            'coverage': {
                'explanation': 'Static analysis of /repo source (no execution). ' + explanation,
                'evaluations': len(self.instances),
                'distinct_nontrivial': len(distinct),
                'rule': 'one evaluation = one rule instance (class x handler, operator pair, call site, '
                        'exit path ...) enumerated from the current tree; non-trivial = the rule had a '
                        'decision to make on it (e.g. node class with at least one relevant field)',
                'obligations': len(self.instances),
                'discharged': sum(1 for x in self.instances if x[3]),
                'samples': samples[:40] or [{'note': 'no instances'}],
                'instances_per_rule': {r: len(v) for r, v in per_rule.items()},
                'floors': [{'rule': r, 'what': w, 'count': c, 'minimum': m} for r, w, c, m in self.floors],
                'analysed_files': sorted(self.model.consulted),
                'file_digests': self.model.consulted,
                'known_findings': [f.as_dict() for f in listed],
                'unlisted_violations': [f.as_dict() for f in unlisted],
                'stale_known': [list(k) for k in stale],
                'notes': self.notes,
                'selftest': self.selftest,
                'trusted_base': ['CPython ast / re._parser', 'sa.model import+MRO resolution',
                                 'tables embedded in the rule module'],
                **self.extra,
            },
            'assumptions': self.assumptions,
            'wall_s': round(time.time() - self.t0, 3),
            'violations': len(unlisted),
        }
        with open(os.path.join(EVIDENCE_DIR, f'{self.prop}.json'), 'w', encoding='utf-8') as fh:
            json.dump(ev, fh, indent=1, default=str)
