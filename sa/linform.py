"""
Linear normal forms of index expressions found in the analysed source -- used to compare two expressions *as expressions*
(a symbolic identity over their atoms), never to evaluate them.

``lin_py``   Python integer arithmetic (``a + b - 1``, ``2 * n``); anything that is not +, -, constant * x is an atom
             (identified by its source text) unless ``expand`` rewrites it (e.g. a call whose definition is known).
``lin_sym``  expression trees built with loki's constructors: ``Sum((a, b))``, ``Product((-1, a))``, ``IntLiteral(k)``,
             ``simplify(x)`` (value preserving), plain ints; everything else is an atom.
A normal form is ``{atom text: coefficient, 1: constant}``.
"""
import ast


class NotLinear(Exception):
    pass


def _add(a, b, sgn=1):
    out = dict(a)
    for k, v in b.items():
        out[k] = out.get(k, 0) + sgn * v
    return {k: v for k, v in out.items() if v != 0}


def _scale(a, c):
    return {k: c * v for k, v in a.items() if c * v != 0}


def same(a, b):
    return all(a.get(k, 0) == b.get(k, 0) for k in set(a) | set(b))


def show(a):
    terms = []
    for k, v in sorted(a.items(), key=lambda kv: str(kv[0])):
        if v == 0:
            continue
        terms.append(f'{v:+d}' if k == 1 else (f'{"+" if v > 0 else "-"}{"" if abs(v) == 1 else str(abs(v)) + "*"}{k}'))
    return ' '.join(terms) or '0'


def lin_py(e, expand=lambda e: None):
    if isinstance(e, ast.Call) and _const_of(e) is not None:        # sym.Literal(1) / IntLiteral(1) inside operator arithmetic
        return {1: _const_of(e)} if _const_of(e) else {}
    if isinstance(e, ast.Constant) and isinstance(e.value, int) and not isinstance(e.value, bool):
        return {1: e.value} if e.value else {}
    if isinstance(e, ast.BinOp) and isinstance(e.op, (ast.Add, ast.Sub)):
        return _add(lin_py(e.left, expand), lin_py(e.right, expand), 1 if isinstance(e.op, ast.Add) else -1)
    if isinstance(e, ast.UnaryOp) and isinstance(e.op, ast.USub):
        return _scale(lin_py(e.operand, expand), -1)
    if isinstance(e, ast.BinOp) and isinstance(e.op, ast.Mult):
        for c_, o_ in ((e.left, e.right), (e.right, e.left)):
            if isinstance(c_, ast.Constant) and isinstance(c_.value, int):
                return _scale(lin_py(o_, expand), c_.value)
        raise NotLinear(ast.unparse(e))
    x = expand(e)
    if x is not None:
        return lin_py(x, expand)
    if isinstance(e, (ast.Name, ast.Attribute, ast.Subscript, ast.Call)):
        return {ast.unparse(e): 1}
    raise NotLinear(ast.unparse(e))


def _cname(c):
    f = c.func
    return f.attr if isinstance(f, ast.Attribute) else (f.id if isinstance(f, ast.Name) else None)


def _const_of(e):
    """integer value of ``k``, ``-k``, ``IntLiteral(k)``, ``Literal(k)``, else None"""
    if isinstance(e, ast.Constant) and isinstance(e.value, int) and not isinstance(e.value, bool):
        return e.value
    if isinstance(e, ast.UnaryOp) and isinstance(e.op, ast.USub):
        v = _const_of(e.operand)
        return -v if v is not None else None
    if isinstance(e, ast.Call) and _cname(e) in ('IntLiteral', 'Literal') and len(e.args) == 1 and not e.keywords:
        return _const_of(e.args[0])
    return None


def lin_sym(e):
    c = _const_of(e)
    if c is not None:
        return {1: c} if c else {}
    if isinstance(e, ast.Call) and _cname(e) == 'simplify' and len(e.args) == 1:
        return lin_sym(e.args[0])
    if isinstance(e, ast.Call) and _cname(e) == 'Sum' and len(e.args) == 1 and isinstance(e.args[0], (ast.Tuple, ast.List)):
        out = {}
        for x in e.args[0].elts:
            out = _add(out, lin_sym(x))
        return out
    if isinstance(e, ast.Call) and _cname(e) == 'Product' and len(e.args) == 1 and isinstance(e.args[0], (ast.Tuple, ast.List)):
        consts = [_const_of(x) for x in e.args[0].elts]
        rest = [x for x, c_ in zip(e.args[0].elts, consts) if c_ is None]
        k = 1
        for c_ in consts:
            if c_ is not None:
                k *= c_
        if not rest:
            return {1: k} if k else {}
        if len(rest) == 1:
            return _scale(lin_sym(rest[0]), k)
        raise NotLinear(ast.unparse(e))
    if isinstance(e, (ast.Name, ast.Attribute, ast.Subscript, ast.Call)):
        return {ast.unparse(e): 1}
    raise NotLinear(ast.unparse(e))
