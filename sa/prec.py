"""
E3 -- operator-precedence facts of the stringify mappers, extracted from the
handler ASTs (no execution): for each operator handler the precedence handed to
each child recursion, the forced-parenthesis class sets, and the node's own
precedence in ``parenthesize_if_needed``.
"""
import ast

from sa import dispatch as D
from sa.model import AnalysisError, NOFOLD, dotted

REC_CALLS = ('rec', 'join_rec', 'rec_with_force_parens_around')
NEVER = 10 ** 6      # own precedence of a handler (branch) that never parenthesises its output

# expression class -> operator kind (classes are looked up in loki.expression.operations)
KIND_CLASS = {
    'Sum': 'Sum', 'Product': 'Product', 'Quotient': 'Quotient', 'Power': 'Power', 'Comparison': 'Comparison',
    'Not': 'LogicalNot', 'And': 'LogicalAnd', 'Or': 'LogicalOr',
    'PAdd': 'ParenthesisedAdd', 'PMul': 'ParenthesisedMul', 'PDiv': 'ParenthesisedDiv', 'PPow': 'ParenthesisedPow',
}
# attribute of `expr` a recursion is applied to -> slot name
ATTR_SLOT = {
    ('Quotient', 'numerator'): 'Quotient.num', ('Quotient', 'denominator'): 'Quotient.den',
    ('Power', 'base'): 'Power.base', ('Power', 'exponent'): 'Power.exp',
    ('Comparison', 'left'): 'Comparison.left', ('Comparison', 'right'): 'Comparison.right',
    ('Not', 'child'): 'Not.child', ('And', 'children'): 'And.child', ('Or', 'children'): 'Or.child',
    ('Product', 'children'): 'Product.factor', ('Sum', 'children'): 'Sum.plus',
}


class Slot:
    def __init__(self, name, prec, force=(), noforce=(), where='', via=''):
        self.name, self.prec = name, prec
        self.force, self.noforce = frozenset(force), frozenset(noforce)
        self.where, self.via = where, via

    def facts(self):
        return {'slot': self.name, 'prec': self.prec, 'force_parens': sorted(self.force),
                'no_force_parens': sorted(self.noforce), 'where': self.where, 'via': self.via}


def _class_names(model, mod, cls, expr):
    """Names of the classes in a tuple expression such as ``(pmbl.FloorDiv, pmbl.Remainder)`` or
    ``self.multiplicative_primitives``."""
    if isinstance(expr, ast.Attribute) and isinstance(expr.value, ast.Name) and expr.value.id == 'self':
        v, owner = model.class_attr(cls, expr.attr)
        if v is None:
            # instance attribute set in __init__
            for c in model.mro(cls):
                init = getattr(c, 'function', lambda n: None)('__init__')
                if init is None:
                    continue
                for n in ast.walk(init.node):
                    if isinstance(n, ast.Assign) and dotted(n.targets[0]) == f'self.{expr.attr}':
                        return _class_names(model, c.module, c, n.value)
            raise AnalysisError(f'cannot resolve self.{expr.attr} on {cls.name}')
        return _class_names(model, owner.module, owner, v)
    if isinstance(expr, (ast.Tuple, ast.List)):
        out = set()
        for e in expr.elts:
            d = dotted(e)
            if d is None:
                raise AnalysisError(f'unrecognised class reference {ast.unparse(e)}')
            out.add(d.split('.')[-1])
        return out
    if isinstance(expr, ast.Name):
        v = mod.assigns.get(expr.id)
        if v is not None:
            return _class_names(model, mod, cls, v)
    raise AnalysisError(f'cannot resolve class tuple {ast.unparse(expr)}')


class MapperFacts:
    """own[kind] -> int | 'always'; slots[name] -> Slot"""

    def __init__(self, model, mcls):
        self.model, self.mcls = model, mcls
        self.own, self.slots, self.handlers, self.spelling = {}, {}, {}, {}
        self._rwfp_noforce = self._default_noforce()
        ops = model.module('loki.expression.operations')
        if ops is None:
            raise AnalysisError('loki.expression.operations vanished')
        for kind, cname in KIND_CLASS.items():
            ecls = ops.classes.get(cname)
            if ecls is None:
                raise AnalysisError(f'expression class {cname} vanished')
            f, mm = D.mapper_dispatch(model, mcls, ecls)
            if f is None:
                raise AnalysisError(f'{mcls.name} has no handler {mm} for {cname}')
            self.handlers[kind] = f
            self._analyse(kind, f)

    # -- helpers ---------------------------------------------------------
    def _default_noforce(self):
        """Default of ``no_force_parens_around`` in the rec_with_force_parens_around in use."""
        f = self.model.member_function(self.mcls, 'rec_with_force_parens_around')
        if f is None:
            raise AnalysisError('rec_with_force_parens_around vanished')
        for n in ast.walk(f.node):
            if isinstance(n, ast.Call) and dotted(n.func) == 'kwargs.pop' and n.args \
                    and isinstance(n.args[0], ast.Constant) and n.args[0].value == 'no_force_parens_around':
                if len(n.args) > 1:
                    return _class_names(self.model, f.module, self.mcls, n.args[1])
        return set()

    def _prec(self, f, node, env):
        if isinstance(node, ast.Name) and node.id in env:
            return env[node.id]
        v = self.model.const(f.module, node, f.cls)
        if v is NOFOLD:
            if isinstance(node, ast.Name) and node.id == 'enclosing_prec':
                return 'enclosing'
            raise AnalysisError(f'{f.qualname}: cannot fold precedence {ast.unparse(node)}')
        return v

    def _analyse(self, kind, f, as_kind=None):
        """Syntax-directed walk over the handler body."""
        m = self.model
        body = f.node.body
        expr = [a.arg for a in f.node.args.args][1]
        state = {'force': set()}
        helper_returns = {}
        for st in body:
            if isinstance(st, ast.FunctionDef):
                rets = []
                for n in ast.walk(st):
                    if isinstance(n, ast.Return) and isinstance(n.value, ast.Tuple) and len(n.value.elts) == 3:
                        rets.append(n.value)
                helper_returns[st.name] = (st, rets)

        def own_from(call, branch):
            name = call.func.attr
            if name == 'parenthesize_if_needed':
                p = self._prec(f, call.args[2], {})
                self._set_own(kind, branch, p)
            elif name == 'parenthesize':
                self._set_own(kind, branch, 'always')

        def handle_call(call, branch):
            fn = call.func
            if not (isinstance(fn, ast.Attribute) and isinstance(fn.value, ast.Name) and fn.value.id == 'self'):
                return
            if fn.attr in ('parenthesize_if_needed', 'parenthesize'):
                own_from(call, branch)
            elif fn.attr in REC_CALLS:
                target = call.args[1] if fn.attr == 'join_rec' else call.args[0]
                pnode = call.args[2] if fn.attr == 'join_rec' else call.args[1]
                force = set(state['force']) if fn.attr in ('join_rec', 'rec_with_force_parens_around') else set()
                noforce = set(self._rwfp_noforce) if force else set()
                attrs = [n.attr for n in ast.walk(target) if isinstance(n, ast.Attribute)
                         and isinstance(n.value, ast.Name) and n.value.id == expr]
                where = f'{f.module.relpath}:{call.lineno}'
                if isinstance(pnode, ast.Name) and pnode.id not in ('enclosing_prec',) and \
                        m.const(f.module, pnode, f.cls) is NOFOLD:
                    # precedence comes out of a local helper returning (op, prec, expr) tuples
                    src = self._helper_for(f, pnode.id, helper_returns)
                    for tup in src:
                        op = tup.elts[0].value if isinstance(tup.elts[0], ast.Constant) else None
                        p = self._prec(f, tup.elts[1], {})
                        if op == '-':
                            self.slots['Sum.minus'] = Slot('Sum.minus', p, where=where, via=f.qualname)
                        elif op == '+':
                            self.slots['Sum.plus'] = Slot('Sum.plus', p, where=where, via=f.qualname)
                        else:
                            raise AnalysisError(f'{f.qualname}: unrecognised helper tuple {ast.unparse(tup)}')
                    return
                p = self._prec(f, pnode, {})
                if not attrs:
                    raise AnalysisError(f'{f.qualname}: recursion on {ast.unparse(target)} not tied to an attribute of {expr}')
                for a in attrs:
                    slot = ATTR_SLOT.get((kind, a))
                    if kind == 'Product' and branch == 'neg':
                        slot = 'Neg.operand'
                    if slot is None:
                        if a in ('operator',):
                            continue
                        raise AnalysisError(f'{f.qualname}: unclassified recursion on {expr}.{a}')
                    self.slots[slot] = Slot(slot, p, force, noforce, where=where, via=f.qualname)
            elif fn.attr.startswith('map_') and kind in ('PAdd', 'PMul', 'PDiv', 'PPow'):
                pass    # parenthesised wrappers delegate to the plain handler with PREC_NONE

        def walk_stmts(stmts, branch):
            for st in stmts:
                if isinstance(st, ast.FunctionDef):
                    continue
                if isinstance(st, ast.If):
                    test = ast.unparse(st.test)
                    if kind == 'Product' and '-1' in test and 'children[0]' in test:
                        walk_stmts(st.body, 'neg')
                        walk_stmts(st.orelse, branch)
                        continue
                    inner = [n for n in ast.walk(st) if isinstance(n, ast.Call) and isinstance(n.func, ast.Attribute)
                             and n.func.attr in REC_CALLS + ('parenthesize_if_needed', 'parenthesize')]
                    if not inner:
                        continue        # pure string post-processing, no recursion / parenthesisation inside
                    raise AnalysisError(f'{f.qualname}: unrecognised branch `{test}` in an operator handler')
                if isinstance(st, ast.Assign) and len(st.targets) == 1 and \
                        ast.unparse(st.targets[0]) == "kwargs['force_parens_around']":
                    state['force'] = _class_names(m, f.module, self.mcls, st.value)
                    continue
                calls = sorted((n for n in ast.walk(st) if isinstance(n, ast.Call)),
                               key=lambda n: (n.lineno, n.col_offset))
                for c in calls:
                    handle_call(c, branch)
        walk_stmts(body, 'main')
        # a branch that returns text without any parenthesize(_if_needed) call never parenthesises itself
        if kind not in self.own:
            self.own[kind] = NEVER
        if kind == 'Product' and 'Neg.operand' in self.slots and 'Neg' not in self.own:
            self.own['Neg'] = NEVER
        # operator spelling (string constants adjacent to the recursion)
        consts = [n.value for n in ast.walk(f.node) if isinstance(n, ast.Constant) and isinstance(n.value, str)
                  and not (n.value.startswith('\n') or len(n.value) > 40)]
        self.spelling[kind] = [c for c in consts if c.strip() and c != 'force_parens_around']

    def _helper_for(self, f, varname, helper_returns):
        for n in ast.walk(f.node):
            if isinstance(n, ast.Assign) and isinstance(n.targets[0], ast.Tuple) and isinstance(n.value, ast.Call) \
                    and isinstance(n.value.func, ast.Name) and n.value.func.id in helper_returns:
                names = [t.id for t in n.targets[0].elts if isinstance(t, ast.Name)]
                if varname in names:
                    return helper_returns[n.value.func.id][1]
        raise AnalysisError(f'{f.qualname}: precedence variable {varname} has no recognised source')

    def _set_own(self, kind, branch, p):
        key = 'Neg' if (kind == 'Product' and branch == 'neg') else kind
        old = self.own.get(key)
        if old is not None and old != p and old != 'always':
            raise AnalysisError(f'{self.mcls.name}: two different own precedences for {key}: {old} vs {p}')
        if old != 'always':
            self.own[key] = p

    # -- queries ---------------------------------------------------------
    def emits_parens(self, slotname, child):
        """Does the printer put parentheses around a child of kind ``child`` in ``slotname``?"""
        slot = self.slots[slotname]
        ckind = child
        own = self.own.get(ckind)
        if own is None:
            raise AnalysisError(f'{self.mcls.name}: no own precedence extracted for {ckind}')
        if own == 'always':
            return True, 'child handler always parenthesises'
        if own == NEVER:
            return bool(bases_force(self, slot, ckind)), 'child handler never parenthesises its own output'
        if slot.prec > own:
            return True, f'slot prec {slot.prec} > child prec {own}'
        ccls = {'Neg': 'Product'}.get(ckind, KIND_CLASS.get(ckind, ckind))
        bases = CLASS_BASES.get(ccls, {ccls})
        if bases & slot.force and not bases & slot.noforce:
            return True, f'{ccls} in force_parens_around'
        return False, f'slot prec {slot.prec} <= child prec {own}, not forced'


def bases_force(mf, slot, ckind):
    ccls = {'Neg': 'Product'}.get(ckind, KIND_CLASS.get(ckind, ckind))
    bases = CLASS_BASES.get(ccls, {ccls})
    return bases & slot.force and not bases & slot.noforce


# isinstance closure for the classes used in force lists (loki class -> pymbolic bases it also is)
CLASS_BASES = {
    'Sum': {'Sum'}, 'Product': {'Product'}, 'Quotient': {'Quotient'}, 'Power': {'Power'},
    'ParenthesisedAdd': {'ParenthesisedAdd', 'Sum'}, 'ParenthesisedMul': {'ParenthesisedMul', 'Product'},
    'ParenthesisedDiv': {'ParenthesisedDiv', 'Quotient'}, 'ParenthesisedPow': {'ParenthesisedPow', 'Power'},
}
