"""E6 -- evaluate expressions built from set operators over named atoms as boolean functions (membership semantics)."""
import ast
import itertools

from sa.model import AnalysisError


def member(node, env):
    """Is an element with membership profile `env` (name -> bool) in the set denoted by `node`?"""
    if isinstance(node, ast.Name):
        if node.id not in env:
            raise AnalysisError(f'set expression refers to unknown set {node.id}')
        return env[node.id]
    if isinstance(node, ast.BinOp):
        l, r = member(node.left, env), member(node.right, env)
        if isinstance(node.op, ast.BitOr):
            return l or r
        if isinstance(node.op, ast.BitAnd):
            return l and r
        if isinstance(node.op, ast.Sub):
            return l and not r
        if isinstance(node.op, ast.BitXor):
            return l != r
    raise AnalysisError(f'not a set-algebra expression: {ast.unparse(node)}')


def table(exprs, atoms):
    """exprs: name -> ast expr; yields (env, {name: bool})"""
    for bits in itertools.product((False, True), repeat=len(atoms)):
        env = dict(zip(atoms, bits))
        yield env, {k: member(v, env) for k, v in exprs.items()}
