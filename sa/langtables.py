"""
Target-language operator tables used as the oracle for the printer rules
(C06 / C35 / C36).  ``needs(lang, slot, child)`` answers whether the *tree*
``parent(slot=child)`` printed without parentheses around the child would be
read by the target language as a different tree (or as invalid text).

Sources: Fortran 2018 10.1.2.x/10.1.3 (operator levels, `**` right-assoc.,
unary minus at additive level, no two consecutive operators), 10.1.5.2.4
(licence to evaluate mathematically equivalent forms -- integer division
excluded); C11 6.5; Python reference 6.17.

Return values: 'need' | 'no' | 'adjacent' (value-correct with common compilers
but not standard conforming: two consecutive operators) | 'n/a'.
"""

ARITH = ('Sum', 'Product', 'Neg', 'Quotient', 'Power')
LOGIC = ('Comparison', 'Not', 'And', 'Or')

FORTRAN = {
    # a + c
    'Sum.plus': {'Sum': 'no', 'Product': 'no', 'Quotient': 'no', 'Power': 'no', 'Neg': 'n/a'},
    # a - c
    'Sum.minus': {'Sum': 'need', 'Product': 'no', 'Quotient': 'no', 'Power': 'no', 'Neg': 'adjacent'},
    # -c
    'Neg.operand': {'Sum': 'need', 'Product': 'no', 'Quotient': 'no', 'Power': 'no', 'Neg': 'adjacent'},
    # a * c  (c not necessarily first; integer division must keep its grouping)
    'Product.factor': {'Sum': 'need', 'Product': 'no', 'Quotient': 'need', 'Power': 'no', 'Neg': 'adjacent'},
    # c / b
    'Quotient.num': {'Sum': 'need', 'Product': 'no', 'Quotient': 'no', 'Power': 'no', 'Neg': 'no'},
    # a / c
    'Quotient.den': {'Sum': 'need', 'Product': 'need', 'Quotient': 'need', 'Power': 'no', 'Neg': 'adjacent'},
    # c ** b   (** is right associative and binds tighter than unary minus)
    'Power.base': {'Sum': 'need', 'Product': 'need', 'Quotient': 'need', 'Power': 'need', 'Neg': 'need'},
    # a ** c
    'Power.exp': {'Sum': 'need', 'Product': 'need', 'Quotient': 'need', 'Power': 'no', 'Neg': 'adjacent'},
    'Comparison.left': {k: 'no' for k in ARITH}, 'Comparison.right': {k: 'no' for k in ARITH},
    'Not.child': {'Comparison': 'no', 'Not': 'adjacent', 'And': 'need', 'Or': 'need'},
    'And.child': {'Comparison': 'no', 'Not': 'no', 'And': 'no', 'Or': 'need'},
    'Or.child': {'Comparison': 'no', 'Not': 'no', 'And': 'no', 'Or': 'no'},
}

# C: unary operators bind tighter than multiplicative ones, consecutive operators are fine
# (the printers separate binary operators by blanks), `--a` would lex as a decrement.
C = {k: dict(v) for k, v in FORTRAN.items()}
C['Sum.minus']['Neg'] = 'no'
C['Neg.operand']['Neg'] = 'need'
C['Product.factor']['Neg'] = 'no'
C['Quotient.den']['Neg'] = 'no'
C['Not.child']['Not'] = 'no'
# no power operator in C: printed as a call pow(b, e); nothing to group
for _s in ('Power.base', 'Power.exp'):
    C[_s] = {k: 'no' for k in ARITH}
for _s in C:
    if 'Power' in C[_s]:
        C[_s]['Power'] = 'no'

PYTHON = {k: dict(v) for k, v in FORTRAN.items()}
PYTHON['Sum.minus']['Neg'] = 'no'
PYTHON['Neg.operand']['Neg'] = 'no'        # --a == a
PYTHON['Product.factor']['Neg'] = 'no'
PYTHON['Quotient.den']['Neg'] = 'no'
PYTHON['Power.exp']['Neg'] = 'no'          # a ** -b is valid
PYTHON['Not.child']['Not'] = 'no'
# Python `/` is true division: a*(b/c) and (a*b)/c agree up to rounding (which the property tolerates)
PYTHON['Product.factor']['Quotient'] = 'no'

TABLES = {'fortran': FORTRAN, 'c': C, 'python': PYTHON}

EXAMPLE = {
    ('Sum.minus', 'Sum'): 'a - (b + c)', ('Neg.operand', 'Sum'): '-(a + b)',
    ('Product.factor', 'Sum'): 'a*(b + c)', ('Product.factor', 'Quotient'): 'a*(b/c)',
    ('Quotient.num', 'Sum'): '(a + b)/c', ('Quotient.den', 'Sum'): 'a/(b + c)',
    ('Quotient.den', 'Product'): 'a/(b*c)', ('Quotient.den', 'Quotient'): 'a/(b/c)',
    ('Power.base', 'Sum'): '(a + b)**c', ('Power.base', 'Product'): '(a*b)**c', ('Power.base', 'Quotient'): '(a/b)**c',
    ('Power.base', 'Power'): '(a**b)**c', ('Power.base', 'Neg'): '(-a)**b',
    ('Power.exp', 'Sum'): 'a**(b + c)', ('Power.exp', 'Product'): 'a**(b*c)', ('Power.exp', 'Quotient'): 'a**(b/c)',
    ('Not.child', 'And'): '.not. (a .and. b)', ('Not.child', 'Or'): '.not. (a .or. b)',
    ('And.child', 'Or'): 'a .and. (b .or. c)',
}


def needs(lang, slot, child):
    return TABLES[lang].get(slot, {}).get(child, 'n/a')
