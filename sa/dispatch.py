"""
E1 -- static re-implementation of the two dynamic dispatch schemes of loki:

* ``GenericVisitor.lookup_method`` (loki/ir/visitor.py): handler
  ``visit_<type(o).__name__>`` anywhere on the *visitor's* MRO wins; only if no
  handler of that exact name exists is the *node's* MRO walked.
* pymbolic ``Mapper.__call__``: ``getattr(mapper, expr.mapper_method)``.
"""
import ast

from sa.model import ClassInfo, External, AnalysisError, NOFOLD

NODE_FILES = ('loki/ir/nodes/abstract_nodes.py', 'loki/ir/nodes/internal_nodes.py',
              'loki/ir/nodes/leaf_nodes.py', 'loki/ir/nodes/stmt_nodes.py')
EXPR_FILES = ('loki/expression/symbols.py', 'loki/expression/literals.py',
              'loki/expression/operations.py')


def ir_node_classes(model, concrete_only=False):
    """All IR node classes (subclasses of Node, public names)."""
    node = model.get_class(NODE_FILES[0], 'Node')
    out = []
    for f in NODE_FILES:
        mod = model.module_by_path(f)
        for c in mod.classes.values():
            if c.name.startswith('_'):
                continue
            if node in model.mro(c):
                bad = model.unresolved_bases(c)
                if bad:
                    raise AnalysisError(f'unresolved base of IR node {c.fqn}: {bad}')
                out.append(c)
    if concrete_only:
        out = [c for c in out if c.name not in ('Node', 'InternalNode', 'LeafNode')]
    return out


def program_unit_classes(model):
    return [model.get_class('loki/subroutine.py', 'Subroutine'),
            model.get_class('loki/function.py', 'Function'),
            model.get_class('loki/module.py', 'Module')]


def expression_classes(model):
    """Loki expression node classes (derive from pymbolic Expression)."""
    out = []
    for f in EXPR_FILES:
        mod = model.module_by_path(f)
        for c in mod.classes.values():
            if c.name.startswith('_'):
                continue
            if model.is_subclass(c, 'Expression') and c.name not in ('Expression',):
                bad = model.unresolved_bases(c)
                if bad:
                    raise AnalysisError(f'unresolved base of expression class {c.fqn}: {bad}')
                out.append(c)
    return out


def traversable(model, cls):
    v, owner = model.class_attr(cls, '_traversable')
    if v is None:
        return []
    val = model.const(owner.module, v, owner)
    if val is NOFOLD:
        raise AnalysisError(f'cannot fold _traversable of {cls.fqn}')
    return list(val)


def mapper_method(model, cls):
    v, owner = model.class_attr(cls, 'mapper_method')
    if v is None:
        return None
    val = model.const(owner.module, v, owner)
    if val is NOFOLD:
        raise AnalysisError(f'cannot fold mapper_method of {cls.fqn}')
    return val


def visitor_handlers(model, vcls):
    """suffix -> FunctionInfo for every ``visit_*`` bound method of ``vcls``."""
    out = {}
    for name, owner in model.all_member_names(vcls).items():
        if not name.startswith('visit_') or '@' in name:
            continue
        m = model.lookup(vcls, name)
        f = model.member_function(vcls, name)
        if f is None:
            continue
        # staticmethods are not picked up by inspect.ismethod
        if m.kind == 'func' and any(d == 'staticmethod' for d in f.decorators):
            continue
        out[name[len('visit_'):]] = f
    return out


def visitor_dispatch(model, vcls, ncls, handlers=None):
    """The FunctionInfo that ``vcls().visit(<ncls instance>)`` runs, and the
    handler key that selected it."""
    handlers = handlers if handlers is not None else visitor_handlers(model, vcls)
    name = ncls if isinstance(ncls, str) else ncls.name
    if name in handlers:
        return handlers[name], name
    if isinstance(ncls, str):
        return None, None
    for k in model.mro(ncls)[1:]:
        kn = k.name
        if kn in handlers:
            return handlers[kn], kn
    return None, None


def mapper_dispatch(model, mcls, ecls):
    """FunctionInfo selected by ``mcls()(expr)`` for an instance of ``ecls``."""
    meth = mapper_method(model, ecls) if not isinstance(ecls, str) else ecls
    if meth is None:
        return None, None
    f = model.member_function(mcls, meth)
    return f, meth


def mapper_handlers(model, mcls):
    out = {}
    for name in model.all_member_names(mcls):
        if name.startswith('map_') and '@' not in name:
            f = model.member_function(mcls, name)
            if f is not None:
                out[name] = f
    return out


def annotation_mentions(ann, names):
    """Does a type annotation AST mention one of ``names`` (through
    Tuple/Optional/Union/...)?"""
    for n in ast.walk(ann):
        if isinstance(n, ast.Name) and n.id in names:
            return True
        if isinstance(n, ast.Attribute) and n.attr in names:
            return True
        if isinstance(n, ast.Constant) and isinstance(n.value, str) and n.value in names:
            return True
    return False


SELFTEST_EXPECT = [
    # (visitor file, visitor class, node class, owner class of handler, handler name)
    ('loki/backend/fgencon.py', 'FortranCodegenConservative', 'Allocation', 'FortranCodegen', 'visit_Allocation'),
    ('loki/backend/fgencon.py', 'FortranCodegenConservative', 'Assignment', 'FortranCodegenConservative', 'visit_Assignment'),
    ('loki/ir/find.py', 'FindNodes', 'Assignment', 'FindNodes', 'visit_Node'),
    ('loki/ir/find.py', 'FindNodes', 'TypeDef', 'FindNodes', 'visit_TypeDef'),
    ('loki/ir/transformer.py', 'Transformer', 'Associate', 'Transformer', 'visit_ScopedNode'),
    ('loki/backend/fgen.py', 'FortranCodegen', 'SaveStmt', 'FortranCodegen', 'visit_GenericStmt'),
]


def selftest(model):
    """Fixed positives for the dispatch engine; raises AnalysisError on drift."""
    got = []
    for vf, vc, nc, owner, hname in SELFTEST_EXPECT:
        v = model.get_class(vf, vc)
        n = next((c for c in ir_node_classes(model) if c.name == nc), None)
        if n is None:
            raise AnalysisError(f'dispatch selftest: node class {nc} vanished')
        f, key = visitor_dispatch(model, v, n)
        res = (f.cls.name, f.name) if f else None
        got.append(res)
        if res != (owner, hname):
            raise AnalysisError(f'dispatch selftest: ({vc},{nc}) -> {res}, expected {(owner, hname)}')
    return got
