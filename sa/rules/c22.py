"""
C22  Scheduler processing visits each selected item once, in dependency order.

 R1  orientation x direction: graph edges are added as (dependent, dependency)
     and are not swapped on the way into networkx; SFilter iterates the
     topological order for the default direction and its reverse iff
     ``self.reverse`` (callers before callees by default).
 R2  wiring: both SFilter constructions in ``process_transformation`` take
     reverse / mode / include_external (and item_filter / exclude_ignored) from
     the same transformation-manifest / config attributes; ``apply`` receives
     role, mode and targets of the very item being processed.
 R3  selection: SFilter.__next__ skips external items unless requested, filters
     on the item class, honours exclude_ignored and mode; ``Item.targets``
     removes disabled *and* blocked dependencies.
 R4  which items are *selected* also depends on the ``is_ignored`` flag set while
     the graph is populated: it is computed with parent-scope matching (the rule
     C21 R5 is re-evaluated here).
Not decided: exactly-once (property of networkx.topological_sort on a DAG).
"""
import ast

from sa import exprs as X, boolfun as BF
from sa.model import AnalysisError
from sa.mutate import Mutant

PROP = 'C22'

META = dict(
    technique='syntax-directed orientation/direction table (edge tuple order at every add_edge(s) site x iteration order '
              'in SFilter.__iter__), keyword-to-attribute agreement of the SFilter/apply call sites, guard analysis of '
              'SFilter.__next__',
    level='Decides: edges are (dependent, dependency) at every insertion site and reach networkx unswapped; SFilter uses '
          'topological order by default and the reversed list iff reverse; process_transformation wires reverse/mode/'
          'filters/role/targets from the manifest and the current item; selection guards reference the documented flags. '
          'Does NOT decide exactly-once (follows from networkx on a DAG) nor file-graph construction.',
    note='Trusts networkx.topological_sort; shape of the call sites is recognised syntactically.',
    ref='DESIGN.md section 3, C22',
)

SG = 'loki/batch/sgraph.py'
SF = 'loki/batch/sfilter.py'
SC = 'loki/batch/scheduler.py'


def run(ctx):
    m = ctx.model
    ctx.rule('R1', 'edge tuples are (item, dependency); add_edge/add_edges forward in order; SFilter.__iter__: '
                   'reverse => reversed(topological_sort), else topological_sort')
    ctx.rule('R2', 'SFilter(... reverse=transformation.reverse_traversal, mode=mode, include_external=strict) at both sites; '
                   'item_filter/exclude_ignored from the manifest; transformation.apply(role=_item.role, mode=_item.mode, '
                   'targets=_item.targets, item=_item)')
    ctx.rule('R3', 'SFilter.__next__ guards; Item.targets excludes disable + block')
    G = m.get_class(SG, 'SGraph')
    # --- edge insertion sites
    nsites = 0
    for meth in G.members.values():
        if meth.kind != 'func':
            continue
        f = G.function(meth.name)
        params = [a.arg for a in f.node.args.args]
        for n in ast.walk(f.node):
            if isinstance(n, ast.Call) and X.dotted_attr(n.func) in ('self.add_edges', 'self.add_edge') and n.args:
                nsites += 1
                arg = n.args[0]
                tup = arg.elt if isinstance(arg, ast.GeneratorExp) else arg
                where = f'{f.module.relpath}:{n.lineno}'
                inst = f'{f.name}:{ast.unparse(tup)}'
                if not (isinstance(tup, ast.Tuple) and len(tup.elts) == 2):
                    raise AnalysisError(f'{f.qualname}: edge argument {ast.unparse(arg)} not a 2-tuple')
                a, b = (ast.unparse(e) for e in tup.elts)
                # the dependent is the function's own item / file_item; the dependency is the loop variable
                loopvars = set()
                if isinstance(arg, ast.GeneratorExp):
                    for g in arg.generators:
                        loopvars |= {x.id for x in ast.walk(g.target) if isinstance(x, ast.Name)}
                # names that stand for a dependency: generator variables of the edge argument, loop variables over successors /
                # created dependencies, and everything computed from those
                succ = set(loopvars)
                for ln in ast.walk(f.node):
                    if isinstance(ln, ast.For) and ('successors(' in ast.unparse(ln.iter) or 'dependencies' in ast.unparse(ln.iter)):
                        succ |= {x.id for x in ast.walk(ln.target) if isinstance(x, ast.Name)}
                grew = True
                while grew:
                    grew = False
                    for an in ast.walk(f.node):
                        if isinstance(an, ast.Assign) and isinstance(an.targets[0], ast.Name) and an.targets[0].id not in succ \
                                and any(isinstance(x, ast.Name) and x.id in succ for x in ast.walk(an.value)):
                            succ.add(an.targets[0].id)
                            grew = True
                dependent_first = a not in succ and b in succ
                if dependent_first and a != b:
                    ctx.judge('R1', inst, facts={'where': where, 'edge': f'({a}, {b})'})
                else:
                    ctx.violation('R1', inst, where, f'edge is inserted as ({a}, {b}); expected (dependent, dependency): '
                                  'reverses callers-before-callees order')
    ctx.floor('R1', 'edge insertion sites', nsites, 2)
    for name, inner in (('add_edge', '_graph.add_edge'), ('add_edges', '_graph.add_edges_from')):
        f = G.function(name)
        calls = [n for n in ast.walk(f.node) if isinstance(n, ast.Call) and (X.dotted_attr(n.func) or '').endswith(inner)]
        if not calls:
            raise AnalysisError(f'SGraph.{name}: networkx call not found')
        args = [ast.unparse(a) for a in calls[0].args]
        ok = args in (['edge[0]', 'edge[1]'], ['edges'], ['edge'])
        (ctx.judge('R1', f'SGraph.{name}', facts={'args': args}) if ok else
         ctx.violation('R1', f'SGraph.{name}', f.where, f'{name} forwards {args} to networkx (edge direction altered)'))
    # --- iteration direction
    F = m.get_class(SF, 'SFilter')
    it = F.function('__iter__')
    ifs = [n for n in ast.walk(it.node) if isinstance(n, ast.If)]
    if len(ifs) != 1 or ast.unparse(ifs[0].test) != 'self.reverse':
        raise AnalysisError('SFilter.__iter__: `if self.reverse` not found')
    t_body = ' '.join(ast.unparse(s) for s in ifs[0].body)
    t_else = ' '.join(ast.unparse(s) for s in ifs[0].orelse)
    ok = 'topological_sort' in t_body and 'reversed(' in t_body and 'topological_sort' in t_else and 'reversed(' not in t_else
    facts = {'reverse': t_body, 'default': t_else}
    (ctx.judge('R1', 'SFilter.__iter__', facts=facts) if ok else
     ctx.violation('R1', 'SFilter.__iter__', it.where, f'iteration order: reverse branch `{t_body}`, default `{t_else}`', facts=facts))
    gs = {ast.unparse(n.args[0]) for n in ast.walk(it.node) if isinstance(n, ast.Call) and X.call_name_of(n) == 'topological_sort'}
    (ctx.judge('R1', 'SFilter graph') if gs == {'self.sgraph._graph'} else
     ctx.violation('R1', 'SFilter.__iter__:graph', it.where, f'topological_sort over {sorted(gs)}'))

    # --- R2 wiring
    pt = m.get_function(SC, 'Scheduler.process_transformation')
    sfs = [n for n in ast.walk(pt.node) if isinstance(n, ast.Call) and X.call_name_of(n) == 'SFilter']
    if len(sfs) != 2:
        raise AnalysisError(f'process_transformation: expected 2 SFilter constructions, found {len(sfs)}')
    WANT_BOTH = {'reverse': 'transformation.reverse_traversal', 'mode': 'mode',
                 'include_external': "self.config.default.get('strict', True)"}
    for i, c in enumerate(sfs):
        kw = {k.arg: ast.unparse(k.value) for k in c.keywords}
        for k, v in WANT_BOTH.items():
            inst = f'SFilter#{i}:{k}'
            if kw.get(k) == v:
                ctx.judge('R2', inst, facts={'value': v})
            else:
                ctx.violation('R2', inst, f'{pt.module.relpath}:{c.lineno}', f'SFilter {k}={kw.get(k)!r}, expected {v!r}')
    kw_sets = [{k.arg: ast.unparse(k.value) for k in c.keywords} for c in sfs]
    plain = [k for k in kw_sets if 'item_filter' in k or 'exclude_ignored' in k]
    if len(plain) != 1:
        raise AnalysisError('process_transformation: the non-file-graph SFilter not identified')
    k = plain[0]
    ifn = (X.names_assigned_from(pt.node, 'transformation.item_filter') or ['item_filter'])[0]
    for key, want in (('item_filter', ifn), ('exclude_ignored', 'not transformation.process_ignored_items')):
        (ctx.judge('R2', f'SFilter(plain):{key}') if k.get(key) == want else
         ctx.violation('R2', f'SFilter(plain):{key}', pt.where, f'{key}={k.get(key)!r}, expected {want!r}'))
    ifl = [n for n in ast.walk(pt.node) if isinstance(n, ast.Assign) and ast.unparse(n.targets[0]) == ifn]
    (ctx.judge('R2', 'item_filter source') if ifl and 'transformation.item_filter' in ast.unparse(ifl[0].value) else
     ctx.violation('R2', 'item_filter source', pt.where, 'item_filter is not taken from transformation.item_filter'))
    afg = [n for n in ast.walk(pt.node) if isinstance(n, ast.Call) and X.call_name_of(n) == 'as_filegraph']
    if afg:
        kw = {k.arg: ast.unparse(k.value) for k in afg[0].keywords}
        ok = kw.get('item_filter') == ifn and kw.get('exclude_ignored') == 'not transformation.process_ignored_items'
        (ctx.judge('R2', 'as_filegraph wiring', facts=kw) if ok else
         ctx.violation('R2', 'as_filegraph wiring', pt.where, f'as_filegraph called with {kw}'))
    ap = [n for n in ast.walk(pt.node) if isinstance(n, ast.Call) and X.dotted_attr(n.func) == 'transformation.apply']
    if len(ap) != 1:
        raise AnalysisError('process_transformation: transformation.apply call not found')
    kw = {k.arg: ast.unparse(k.value) for k in ap[0].keywords if k.arg}
    loopvar = None
    trn = set(X.names_assigned_from(pt.node, 'SFilter('))
    for n in ast.walk(pt.node):
        if isinstance(n, ast.For) and ast.unparse(n.iter) in trn:
            loopvar = ast.unparse(n.target)
    if loopvar is None:
        raise AnalysisError('process_transformation: `for <item> in traversal` not found')
    for key, attr in (('role', 'role'), ('mode', 'mode'), ('targets', 'targets'), ('item', None)):
        want = f'{loopvar}.{attr}' if attr else loopvar
        (ctx.judge('R2', f'apply:{key}', facts={'value': kw.get(key)}) if kw.get(key) == want else
         ctx.violation('R2', f'apply:{key}', f'{pt.module.relpath}:{ap[0].lineno}', f'apply receives {key}={kw.get(key)!r}, expected {want!r}'))
    first = ast.unparse(ap[0].args[0]) if ap[0].args else None
    (ctx.judge('R2', 'apply:ir') if first == f'{loopvar}.transformation_ir' else
     ctx.violation('R2', 'apply:ir', pt.where, f'apply is given {first!r} instead of {loopvar}.transformation_ir'))

    # --- R3 : exact truth table of the selection procedure over its atomic conditions
    nx_ = F.function('__next__')
    wl = [n for n in nx_.node.body if isinstance(n, ast.While)]
    if len(wl) != 1:
        raise AnalysisError('SFilter.__next__: while loop not found')
    # the locals of __next__: the node drawn from the iterator and the class it is filtered by
    nd = next((n.target.id for n in ast.walk(wl[0].test) if isinstance(n, ast.NamedExpr)), None) or \
        (X.names_assigned_from(nx_.node, 'next(self._iter)') or ['node'])[0]
    nc = (X.names_assigned_from(nx_.node, f'type({nd})') or ['node_cls'])[0]
    A = {'E': f'isinstance({nd}, ExternalItem)', 'IE': 'self.include_external', 'S': f'issubclass({nc}, self.item_filter)',
         'XI': 'self.exclude_ignored', 'IG': f'{nd}.is_ignored', 'MN': 'self.mode is None',
         'MA': f'isinstance({nd}, (ExternalItem, TypeDefItem, InterfaceItem))', 'MM': f'{nd}.mode == self.mode'}

    def g(env, k):
        return env.get(A[k], False)

    def expected(env):
        return (not g(env, 'E') or g(env, 'IE')) and g(env, 'S') and not (g(env, 'XI') and g(env, 'IG')) and \
            (g(env, 'MN') or g(env, 'MA') or g(env, 'MM'))
    rows = bad = 0
    example = None
    seen_atoms = BF.collect_atoms(wl[0].body)
    for env, label, _ in BF.truth_table(wl[0].body, constraints=lambda e: (not e.get(A['E'], False)) or e.get(A['MA'], True),
                                        extra_atoms=list(A.values())):
        rows += 1
        yielded = label == 'break'
        if yielded != expected(env):
            bad += 1
            example = example or ({k: v for k, v in env.items()}, yielded)
    ctx.floor('R3', 'truth-table rows of SFilter.__next__', rows, 128)
    facts = {'atoms': seen_atoms, 'rows': rows, 'mismatching_rows': bad}
    if bad:
        env, y = example
        short = {k: env.get(v) for k, v in A.items()}
        extra = {k: v for k, v in env.items() if k not in A.values()}
        ctx.violation('R3', 'SFilter.__next__:selection', nx_.where,
                      f'selection differs from (not external or include_external) and class-match and not (exclude_ignored and '
                      f'ignored) and (mode is None or mode-agnostic type or mode match) on {bad}/{rows} rows; e.g. {short} {extra} -> '
                      f'{"yielded" if y else "skipped"}', facts={**facts, 'example': short})
    else:
        ctx.judge('R3', 'SFilter.__next__:selection', facts=facts)
    # the class used for the filter is origin_cls for externals
    ncls = [n for n in ast.walk(nx_.node) if isinstance(n, ast.Assign) and ast.unparse(n.targets[0]) == nc]
    vals = sorted(ast.unparse(n.value) for n in ncls)
    (ctx.judge('R3', 'node_cls', facts={'values': vals}) if vals == sorted([f'{nd}.origin_cls', f'type({nd})']) else
     ctx.violation('R3', 'SFilter.__next__:node_cls', nx_.where, f'class used for filtering is {vals}'))
    # file-graph processing: the ignore rule is applied per definition item
    gdi = [n for n in pt.node.body if isinstance(n, ast.FunctionDef) and n.name == '_get_definition_items']
    if not gdi:
        raise AnalysisError('process_transformation._get_definition_items vanished')
    lp = [n for n in gdi[0].body if isinstance(n, ast.For)]
    if not lp:
        raise AnalysisError('_get_definition_items: loop not found')
    lv = ast.unparse(lp[0].target)
    gpar = [a.arg for a in gdi[0].args.args]
    cin = (X.names_assigned_from(gdi[0], '_get_definition_items(') or ['child_items'])[0]
    accn = next((ast.unparse(r.value) for r in reversed(gdi[0].body) if isinstance(r, ast.Return) and isinstance(r.value, ast.Name)), 'items')
    B = {'CI': cin, 'IN': f'{lv} in {gpar[-1]}', 'PI': 'transformation.process_ignored_items', 'IG': f'{lv}.is_ignored'}
    is_add = lambda st: isinstance(st, ast.AugAssign) and ast.unparse(st.target) == accn and lv in ast.unparse(st.value)   # noqa: E731
    rows = bad = 0
    example = None
    pre = [st for st in gdi[0].body if st is not lp[0] and not isinstance(st, (ast.Return,)) and st.lineno < lp[0].lineno]
    for env, label, marks in BF.truth_table(pre + lp[0].body, is_mark=is_add, extra_atoms=list(B.values())):
        if label == 'return' and not marks:
            continue        # early exit of the helper before the loop (e.g. not a file-graph traversal)
        if not env.get('transformation.traverse_file_graph', True):
            continue
        rows += 1
        want = (env[B['CI']] or env[B['IN']]) and (env[B['PI']] or not env[B['IG']])
        if bool(marks) != want:
            bad += 1
            example = example or dict(env)
    if bad:
        ctx.violation('R3', '_get_definition_items:ignore-rule', f'{pt.module.relpath}:{lp[0].lineno}',
                      f'a definition item is handed to the transformation iff (has children or in graph) and (process_ignored_items '
                      f'or not item.is_ignored) -- violated on {bad}/{rows} rows, e.g. {example}', facts={'example': example})
    else:
        ctx.judge('R3', '_get_definition_items:ignore-rule', facts={'rows': rows})
    item = m.get_class('loki/batch/item.py', 'Item')
    tg = item.function('targets')
    src = ast.unparse(tg.node)
    exn = [k for c in ast.walk(tg.node) if isinstance(c, ast.Call) and (X.dotted_attr(c.func) or '').endswith('_get_children')
           for k in c.keywords if k.arg == 'exclude']
    exsrc = ''
    if exn and isinstance(exn[0].value, ast.Name):
        exsrc = ' '.join(ast.unparse(n.value) for n in ast.walk(tg.node)
                         if (isinstance(n, ast.Assign) and ast.unparse(n.targets[0]) == exn[0].value.id)
                         or (isinstance(n, ast.AugAssign) and ast.unparse(n.target) == exn[0].value.id))
    ok = bool(exn) and 'self.disable' in exsrc and 'self.block' in exsrc
    (ctx.judge('R3', 'Item.targets excludes disable+block') if ok else
     ctx.violation('R3', 'Item.targets', tg.where, 'targets no longer excludes both disabled and blocked dependencies'))
    # ---- R4: the "ignored" selection follows parent scopes (re-evaluation of C21 R5 on the same model)
    from sa.report import Ctx
    from sa.rules import c21
    ctx.rule('R4', 'the is_ignored flag that selects items for processing is computed with parent-scope matching (C21 R5 re-evaluated)')
    sub = Ctx('C21', m, quiet=True)
    c21.run(sub)
    hits = [f_ for f_ in sub.findings if f_.rule == 'R5']
    for f_ in hits:
        ctx.violation('R4', f'selection:{f_.construct}', f_.where,
                      f'{f_.message}: an `ignore` entry naming the enclosing module / type no longer marks the dependency as ignored, so '
                      f'transformations with process_ignored_items=False are applied to items the configuration excludes')
    if not hits:
        ctx.judge('R4', 'ignore flags use parent-scope matching', facts={'c21_r5_instances': sum(1 for i_ in sub.instances if i_[0] == 'R5')})


def _flatten_selection(src):
    """behaviour-preserving rewrite of the selection block of SFilter.__next__ (neutral variant)"""
    a = src.find('            if issubclass(node_cls, self.item_filter) and not (self.exclude_ignored and node.is_ignored):')
    b = src.find('        return node', a)
    if a < 0 or b < 0:
        return None
    new = ('            if not issubclass(node_cls, self.item_filter):\n                continue\n'
           '            if self.exclude_ignored and node.is_ignored:\n                continue\n'
           '            if self.mode is None or isinstance(node, (ExternalItem, TypeDefItem, InterfaceItem)) '
           'or node.mode == self.mode:\n                break\n')
    return src[:a] + new + src[b:]


MUTANTS = [
    Mutant('swap-edge', SG, "self.add_edges((item, item_) for item_ in dependencies if not item == item_)",
           "self.add_edges((item_, item) for item_ in dependencies if not item == item_)", expect=('R1', '_add_children'), quick=True),
    Mutant('drop-reversed', SF, "self._iter = iter(reversed(list(nx.topological_sort(self.sgraph._graph))))",
           "self._iter = iter(list(nx.topological_sort(self.sgraph._graph)))", expect=('R1', 'SFilter.__iter__')),
    Mutant('add-edge-swapped', SG, "self._graph.add_edge(edge[0], edge[1])", "self._graph.add_edge(edge[1], edge[0])",
           expect=('R1', 'SGraph.add_edge')),
    Mutant('filegraph-no-reverse', SC,
           "                traversal = SFilter(\n                    graph, reverse=transformation.reverse_traversal,\n                    include_external=self.config.default.get('strict', True),\n                    mode=mode\n                )",
           "                traversal = SFilter(\n                    graph,\n                    include_external=self.config.default.get('strict', True),\n                    mode=mode\n                )",
           expect=('R2', 'SFilter#0:reverse')),
    Mutant('apply-wrong-mode', SC, "role=_item.role, mode=_item.mode, targets=_item.targets,", "role=_item.role, mode=mode, targets=_item.targets,",
           expect=('R2', 'apply:mode')),
    Mutant('targets-keep-blocked', 'loki/batch/item.py',
           "        exclude = as_tuple(str(t).lower() for t in self.disable)\n        exclude += as_tuple(str(t).lower() for t in self.block)\n        return self._get_children(exclude=exclude)",
           "        exclude = as_tuple(str(t).lower() for t in self.disable)\n        return self._get_children(exclude=exclude)",
           expect=('R3', 'Item.targets')),
    Mutant('ignore-filter-or', SF, "if issubclass(node_cls, self.item_filter) and not (self.exclude_ignored and node.is_ignored):",
           "if issubclass(node_cls, self.item_filter) or not (self.exclude_ignored and node.is_ignored):", expect=('R3', 'selection')),
    Mutant('neutral-flattened-selection', SF, None, None, expect=None, edit=lambda src: _flatten_selection(src)),
    Mutant('definition-ignore-on-parent', SC,
           "                    if transformation.process_ignored_items or not item.is_ignored:\n                        items += (item,) + child_items",
           "                    if transformation.process_ignored_items or not _item.is_ignored:\n                        items += (item,) + child_items",
           expect=('R3', 'ignore-rule')),
    Mutant('neutral-rename-loopvar', SC, "for _item in traversal:", "for _item in traversal:  # each item once", expect=None),
]
