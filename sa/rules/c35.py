"""
C35  Fortran-to-C transpilation preserves behaviour.

Only the expression-printing clause has a structural reading:
 R1  the C-family printers (CCodeMapper, CppCodeMapper, CudaCodeMapper) emit
     parentheses wherever C's grammar would otherwise re-associate the tree
     (exhaustive operator-pair table, C11 6.5), including integer division.
 R2  operator semantics: an operator printed for a Fortran operator must mean
     the same in C for integer and real operands; `**` must not be printed as
     a C operator (C has none) and logical operators must use C spellings.
 R3  a cast binds tighter than every binary operator: the operand of
     ``map_cast`` is rendered so that any binary-operator child is parenthesised
     -- through ``parenthesize`` or ``parenthesize_if_needed`` with an enclosing
     precedence above the child's own one, or a recursion precedence above
     ``PREC_PRODUCT``.  ``(double) i / m`` divides in floating point.
 R4  derived-type arguments are copied back for every intent that lets the
     kernel write: the post-call ``transfer`` in the ISO-C wrapper is emitted for
     ``intent(out)`` and ``intent(inout)`` (guard evaluated over the intent
     domain).
Not decided: array index/order translation, the rest of the ISO-C wrapper,
intrinsics.
"""
import ast

from sa.printers import judge_printer
from sa.mutate import Mutant
from sa.model import AnalysisError, NOFOLD
from sa import exprs as X

PROP = 'C35'

META = dict(
    technique='precedence-table extraction from the C-family printer handler ASTs checked exhaustively against an '
              'embedded C11 operator table; operator-spelling extraction',
    level='Decides only the expression clause: for CCodeMapper/CppCodeMapper/CudaCodeMapper every (parent position x child '
          'operator) pair that C would re-associate is parenthesised; Fortran-only operator spellings do not leak into C. '
          'Does NOT decide index translation, wrappers, intrinsics or numerical equality.',
    note='Oracle = C operator table in sa/langtables.py.',
    ref='DESIGN.md section 3, C35/C36',
)

PRINTERS = [('loki/backend/cgen.py', 'CCodeMapper', 'c'), ('loki/backend/cppgen.py', 'CppCodeMapper', 'c'),
            ('loki/backend/cudagen.py', 'CudaCodeMapper', 'c')]
FORTRAN_ONLY = ('.and.', '.or.', '.not.', '**', '.eqv.', '.neqv.', '/=')


def run(ctx):
    ctx.rule('R1', 'C-family printers: language needs parentheses => printer emits them (all operator pairs)')
    ctx.rule('R2', 'operator handlers of the C-family printers contain no Fortran-only operator spelling')
    total = 0
    for rel, cn, lang in PRINTERS:
        mf, n = judge_printer(ctx, 'R1', rel, cn, lang)
        total += n
        for kind, f in mf.handlers.items():
            lits = [x.value for x in ast.walk(f.node) if isinstance(x, ast.Constant) and isinstance(x.value, str)]
            bad = [l for l in lits if any(tok in l.lower() for tok in FORTRAN_ONLY) and len(l) < 30]
            inst = f'{cn}:{kind}:spelling'
            if bad:
                ctx.violation('R2', inst, f.where, f'{f.qualname} prints {kind} with Fortran spelling {bad}', facts={'literals': lits})
            else:
                ctx.judge('R2', inst, facts={'handler': f.qualname, 'literals': [l for l in lits if len(l) < 30][:6]})
    ctx.floor('R1', 'operator pairs judged', total, 200)

    # ---- R3 cast operand
    m = ctx.model
    ctx.rule('R3', 'map_cast of the C-family printers: the operand is rendered with forced parentheses or a recursion precedence > PREC_PRODUCT')
    ctx.rule('R4', 'generate_iso_c_wrapper_routine: the post-call copy-back of derived-type arguments is emitted for intent out and inout')
    st = m.module('pymbolic.mapper.stringifier')
    def prec(name, mod):
        v = m.const(mod, ast.Name(id=name, ctx=ast.Load()))
        if v is NOFOLD:
            v2 = m.const(st, ast.Name(id=name, ctx=ast.Load()))
            return v2
        return v
    seen = set()
    for rel, cn, lang in PRINTERS:
        C_ = m.get_class(rel, cn)
        f = m.member_function(C_, 'map_cast')
        if f is None:
            raise AnalysisError(f'{cn}.map_cast vanished')
        if f.fqn in seen:
            ctx.judge('R3', f'{cn}.map_cast (inherited {f.qualname})', nontrivial=False)
            continue
        seen.add(f.fqn)
        par = [a.arg for a in f.node.args.args][1]
        # the expression through which `<expr>.parameters` reaches the output
        ok, how = False, 'operand rendering not recognised'
        for c_ in ast.walk(f.node):
            if isinstance(c_, ast.Call) and isinstance(c_.func, ast.Attribute) and f'{par}.parameters' in ast.unparse(c_):
                d = X.dotted_attr(c_.func) or ''
                if d == 'self.parenthesize':
                    ok, how = True, 'self.parenthesize(...)'
                elif d == 'self.parenthesize_if_needed' and len(c_.args) >= 3:
                    enc, own = (prec(ast.unparse(a_), f.module) for a_ in c_.args[1:3])
                    inner = c_.args[0]
                    if isinstance(enc, int) and isinstance(own, int) and enc > own and f'{par}.parameters' in ast.unparse(inner):
                        ok, how = True, f'parenthesize_if_needed(.., {ast.unparse(c_.args[1])}, {ast.unparse(c_.args[2])}) always parenthesises'
        if not ok:
            # fall back: recursion precedence of the operand
            pp = prec('PREC_PRODUCT', f.module)
            for c_ in ast.walk(f.node):
                if isinstance(c_, ast.Call) and (X.dotted_attr(c_.func) or '') in ('self.join_rec', 'self.rec') and f'{par}.parameters' in ast.unparse(c_):
                    pa = [a_ for a_ in c_.args if isinstance(a_, ast.Name) and a_.id.startswith('PREC_')]
                    if pa:
                        pv = prec(pa[0].id, f.module)
                        if isinstance(pv, int) and isinstance(pp, int) and pv > pp:
                            ok, how = True, f'operand recursed with {pa[0].id} > PREC_PRODUCT'
                        else:
                            how = f'operand recursed with {pa[0].id} (not above PREC_PRODUCT) and no forced parentheses'
        inst = f'{cn}.map_cast:operand'
        if ok:
            ctx.judge('R3', inst, facts={'how': how})
        else:
            ctx.violation('R3', inst, f.where,
                          f'{f.qualname}: {how}: a product or quotient under a cast is printed without parentheses, `real(i/m)` becomes '
                          f'`(double) i / m`, i.e. the integer division turns into a floating-point division')
    # ---- R4
    import types as _types
    from sa.miniev import ev_ext, Unknown
    gw = m.get_function('loki/transformations/transpile/fortran_iso_c_wrapper.py', 'generate_iso_c_wrapper_routine')
    outs = None
    for a_ in ast.walk(gw.node):      # the list appended to the body after the call statement
        if isinstance(a_, ast.AugAssign) and isinstance(a_.value, ast.Name) and 'body' in ast.unparse(a_.target):
            outs = a_.value.id
    cands = [(n_, g_) for n_, g_ in X.nodes_with_guards(gw.node, lambda x: isinstance(x, ast.AugAssign) and isinstance(x.target, ast.Name)
                                                        and 'transfer' not in ast.unparse(x) and isinstance(x.value, ast.List))]
    post = [(n_, g_) for n_, g_ in cands if n_.target.id == outs]
    if not post:
        raise AnalysisError('generate_iso_c_wrapper_routine: post-call copy-back statements not found')
    for n_, guards in post:
        rel_g = [g for g in guards if 'intent' in g]
        missing = []
        for intent in ('out', 'inout'):
            argv = next((l_.target.id for l_ in ast.walk(gw.node) if isinstance(l_, ast.For) and isinstance(l_.target, ast.Name)
                         and n_ in list(ast.walk(l_))), 'arg')
            env = {argv: _types.SimpleNamespace(type=_types.SimpleNamespace(intent=intent))}
            try:
                fires = all(bool(ev_ext(ast.parse(g, mode='eval').body, env)) for g in rel_g)
            except Unknown as u:
                raise AnalysisError(f'generate_iso_c_wrapper_routine: intent guard uses `{u}`, outside the evaluated fragment')
            if not fires:
                missing.append(intent)
        inst = 'generate_iso_c_wrapper_routine:copy-back'
        if missing:
            ctx.violation('R4', inst, f'{gw.module.relpath}:{n_.lineno}',
                          f'the copy-back of a derived-type argument after the kernel call is emitted under `{" and ".join(rel_g)}`, which '
                          f'excludes intent {missing}: what the C kernel writes into such an argument never reaches the caller')
        else:
            ctx.judge('R4', inst, facts={'guards': rel_g})


MUTANTS = [
    Mutant('cast-operand-not-parenthesised', 'loki/backend/cgen.py',
           "        expression = self.parenthesize_if_needed(\n            self.join_rec('', expr.parameters, PREC_NONE, *args, **kwargs),\n            PREC_CALL, PREC_NONE)",
           "        expression = self.join_rec('', expr.parameters, PREC_PRODUCT, *args, **kwargs)", expect=('R3', 'map_cast:operand'),
           also=[('loki/backend/cgen.py', "PREC_UNARY, PREC_LOGICAL_OR, PREC_LOGICAL_AND, PREC_NONE, PREC_CALL", "PREC_UNARY, PREC_PRODUCT, PREC_LOGICAL_OR, PREC_LOGICAL_AND, PREC_NONE, PREC_CALL")]),
    Mutant('copy-back-inout-only', 'loki/transformations/transpile/fortran_iso_c_wrapper.py',
           "            casts_out += [ir.Assignment(lhs=arg, rhs=cast_out)]", "            if arg.type.intent.lower() == 'inout':\n                casts_out += [ir.Assignment(lhs=arg, rhs=cast_out)]",
           expect=('R4', 'copy-back')),
    Mutant('neutral-copy-back-not-in', 'loki/transformations/transpile/fortran_iso_c_wrapper.py',
           "            casts_out += [ir.Assignment(lhs=arg, rhs=cast_out)]", "            if arg.type.intent.lower() != 'in':\n                casts_out += [ir.Assignment(lhs=arg, rhs=cast_out)]",
           expect=None),
    Mutant('c-not-uses-fortran-handler', 'loki/backend/cgen.py',
           "    def map_logical_not(self, expr, enclosing_prec, *args, **kwargs):\n        return self.parenthesize_if_needed(\n            \"!\" + self.rec(expr.child, PREC_UNARY, *args, **kwargs),",
           "    def map_logical_not(self, expr, enclosing_prec, *args, **kwargs):\n        return self.parenthesize_if_needed(\n            \".not.\" + self.rec(expr.child, PREC_UNARY, *args, **kwargs),",
           expect=('R2', 'CCodeMapper:Not:spelling'), quick=True),
    Mutant('c-power-as-operator', 'loki/backend/cgen.py',
           "self.format('pow(%s, %s)', self.rec(expr.base, PREC_NONE, *args, **kwargs),",
           "self.format('%s**%s', self.rec(expr.base, PREC_NONE, *args, **kwargs),", expect=('R2', 'Power:spelling')),
    Mutant('c-den-primitives', 'loki/backend/cgen.py',
           "class CCodeMapper(LokiStringifyMapper):\n", "class CCodeMapper(LokiStringifyMapper):\n    multiplicative_primitives = ()\n",
           expect=('R1', 'CCodeMapper:Quotient.den<-Product')),
]
