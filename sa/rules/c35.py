"""
C35  Fortran-to-C transpilation preserves behaviour.

Only the expression-printing clause has a structural reading:
 R1  the C-family printers (CCodeMapper, CppCodeMapper, CudaCodeMapper) emit
     parentheses wherever C's grammar would otherwise re-associate the tree
     (exhaustive operator-pair table, C11 6.5), including integer division.
 R2  operator semantics: an operator printed for a Fortran operator must mean
     the same in C for integer and real operands; `**` must not be printed as
     a C operator (C has none) and logical operators must use C spellings.
Not decided: array index/order translation, ISO-C wrapper, intrinsics.
"""
import ast

from sa.printers import judge_printer
from sa.mutate import Mutant

PROP = 'C35'

META = dict(
    technique='precedence-table extraction from the C-family printer handler ASTs checked exhaustively against an '
              'embedded C11 operator table; operator-spelling extraction',
    level='Decides only the expression clause: for CCodeMapper/CppCodeMapper/CudaCodeMapper every (parent position x child '
          'operator) pair that C would re-associate is parenthesised; Fortran-only operator spellings do not leak into C. '
          'Does NOT decide index translation, wrappers, intrinsics or numerical equality.',
    note='Oracle = C operator table in sa/langtables.py.',
    ref='DESIGN.md section 3, C35/C36',
)

PRINTERS = [('loki/backend/cgen.py', 'CCodeMapper', 'c'), ('loki/backend/cppgen.py', 'CppCodeMapper', 'c'),
            ('loki/backend/cudagen.py', 'CudaCodeMapper', 'c')]
FORTRAN_ONLY = ('.and.', '.or.', '.not.', '**', '.eqv.', '.neqv.', '/=')


def run(ctx):
    ctx.rule('R1', 'C-family printers: language needs parentheses => printer emits them (all operator pairs)')
    ctx.rule('R2', 'operator handlers of the C-family printers contain no Fortran-only operator spelling')
    total = 0
    for rel, cn, lang in PRINTERS:
        mf, n = judge_printer(ctx, 'R1', rel, cn, lang)
        total += n
        for kind, f in mf.handlers.items():
            lits = [x.value for x in ast.walk(f.node) if isinstance(x, ast.Constant) and isinstance(x.value, str)]
            bad = [l for l in lits if any(tok in l.lower() for tok in FORTRAN_ONLY) and len(l) < 30]
            inst = f'{cn}:{kind}:spelling'
            if bad:
                ctx.violation('R2', inst, f.where, f'{f.qualname} prints {kind} with Fortran spelling {bad}', facts={'literals': lits})
            else:
                ctx.judge('R2', inst, facts={'handler': f.qualname, 'literals': [l for l in lits if len(l) < 30][:6]})
    ctx.floor('R1', 'operator pairs judged', total, 200)


MUTANTS = [
    Mutant('c-not-uses-fortran-handler', 'loki/backend/cgen.py',
           "    def map_logical_not(self, expr, enclosing_prec, *args, **kwargs):\n        return self.parenthesize_if_needed(\n            \"!\" + self.rec(expr.child, PREC_UNARY, *args, **kwargs),",
           "    def map_logical_not(self, expr, enclosing_prec, *args, **kwargs):\n        return self.parenthesize_if_needed(\n            \".not.\" + self.rec(expr.child, PREC_UNARY, *args, **kwargs),",
           expect=('R2', 'CCodeMapper:Not:spelling'), quick=True),
    Mutant('c-power-as-operator', 'loki/backend/cgen.py',
           "self.format('pow(%s, %s)', self.rec(expr.base, PREC_NONE, *args, **kwargs),",
           "self.format('%s**%s', self.rec(expr.base, PREC_NONE, *args, **kwargs),", expect=('R2', 'Power:spelling')),
    Mutant('c-den-primitives', 'loki/backend/cgen.py',
           "class CCodeMapper(LokiStringifyMapper):\n", "class CCodeMapper(LokiStringifyMapper):\n    multiplicative_primitives = ()\n",
           expect=('R1', 'CCodeMapper:Quotient.den<-Product')),
]
