"""
C33  Region outlining and procedure extraction preserve behaviour.

 R1  argument-set algebra (exact, Python operator precedence included): with
     u = used in region, d = defined in region, i = imported, the expressions for
     the in / inout / out argument sets must satisfy, for every symbol:
     d and not i  =>  out or inout   (written values are passed back),
     u and not i  =>  in or inout    (read values are passed in),
     and the three sets are pairwise disjoint.
 R2  procedure-relative statements: a ``RETURN`` inside an outlined region now
     leaves only the new subroutine.  Necessary condition as for C28: some function
     reachable from outline_region / outline_pragma_regions references ReturnStmt.
 R3  the call replaces the region (mapping keyed by the region node) and receives
     the arguments in the order of the new routine's dummies.
Not decided: dataflow soundness inside the region (C26), intent overrides by pragma.
"""
import ast

from sa import exprs as X, callgraph as CG, setalg as SA
from sa.model import AnalysisError
from sa.mutate import Mutant

PROP = 'C33'

META = dict(
    technique='truth-table evaluation of the three argument-set expressions over (used, defined, imported) with Python operator '
              'precedence; call-graph reachability + ReturnStmt reference test; call/argument-order shape check',
    level='Decides exactly the set algebra that classifies region variables into in/inout/out arguments, and the necessary '
          'condition that outlining looks at RETURN statements. Does NOT decide the dataflow sets themselves (C26) or pragma '
          'overrides.',
    note='Atoms are the three set names used in outline_region.',
    ref='DESIGN.md section 3, C33',
)

OL = 'loki/transformations/extract/outline.py'


def run(ctx):
    m = ctx.model
    ctx.rule('R1', 'in/inout/out set expressions: d&~i => out|inout ; u&~i => in|inout ; pairwise disjoint (all 8 membership profiles)')
    ctx.rule('R2', 'some function reachable from outline_region / outline_pragma_regions references ReturnStmt')
    ctx.rule('R3', 'region mapped to the generated call; call arguments follow the new routine\'s dummy order')
    f = m.get_function(OL, 'outline_region')
    # roles are read off the code: the three argument sets are the ones zipped with the intents ('in', 'inout', 'out');
    # the atoms are the locals bound to region.uses_symbols / region.defines_symbols / the imported symbols
    rpar = [a.arg for a in f.node.args.args][0]
    roles = None
    for z in ast.walk(f.node):
        if isinstance(z, ast.Call) and X.call_name_of(z) == 'zip' and len(z.args) == 2 and isinstance(z.args[0], ast.Tuple) \
                and [getattr(e, 'value', None) for e in z.args[0].elts] == ['in', 'inout', 'out'] and isinstance(z.args[1], ast.Tuple):
            roles = [ast.unparse(e) for e in z.args[1].elts]
    if not roles or len(roles) != 3:
        raise AnalysisError('outline_region: the (in, inout, out) argument sets zipped with the intents were not found')
    N_IN, N_IO, N_OUT = roles
    un = (X.names_assigned_from(f.node, f'{rpar}.uses_symbols') or ['region_uses_symbols'])[0]
    dn = (X.names_assigned_from(f.node, f'{rpar}.defines_symbols') or ['region_defines_symbols'])[0]
    imn = (X.names_assigned_from(f.node, '.symbols', 'for ') or ['imported_symbols'])[0]
    exprs = {}
    for n in f.node.body:
        if isinstance(n, ast.Assign) and isinstance(n.targets[0], ast.Name) and n.targets[0].id in roles \
                and n.targets[0].id not in exprs and isinstance(n.value, ast.BinOp):
            exprs[n.targets[0].id] = n.value
    if set(exprs) != set(roles):
        raise AnalysisError(f'outline_region: set expressions found for {sorted(exprs)} only')
    atoms = [un, dn, imn]
    bad = []
    rows = 0
    for env, val in SA.table(exprs, atoms):
        rows += 1
        u, d, i = (env[a] for a in atoms)
        IN, IO, OUT = val[N_IN], val[N_IO], val[N_OUT]
        if d and not i and not (OUT or IO):
            bad.append((env, 'defined in the region but neither out nor inout: the value is not passed back'))
        if u and not i and not (IN or IO):
            bad.append((env, 'used in the region but neither in nor inout: the value is not passed in'))
        if (IN and IO) or (IN and OUT) or (IO and OUT):
            bad.append((env, 'sets overlap: the variable becomes two dummy arguments'))
        if i and (IN or IO or OUT):
            bad.append((env, 'imported symbol passed as argument'))
        if not u and not d and (IN or IO or OUT):
            bad.append((env, 'untouched symbol passed as argument'))
    facts = {k: ast.unparse(v) for k, v in exprs.items()}
    ctx.floor('R1', 'membership profiles', rows, 8)
    if bad:
        env, why = bad[0]
        ctx.violation('R1', 'outline_region:argument-sets', f.where,
                      f'argument classification {facts} is wrong for a symbol with {env}: {why}', facts=facts)
    else:
        ctx.judge('R1', 'outline_region:argument-sets', facts=facts)
    # the symbol sets come from the region's dataflow properties
    src = ast.unparse(f.node)
    ok = f'in {rpar}.uses_symbols' in src and f'in {rpar}.defines_symbols' in src
    (ctx.judge('R1', 'sets taken from region.uses_symbols / defines_symbols') if ok else
     ctx.violation('R1', 'outline_region:dataflow-source', f.where, 'used/defined sets are not taken from the region node'))
    # ---- R2
    for name in ('outline_region', 'outline_pragma_regions'):
        g = m.get_function(OL, name)
        seen, unres = CG.reachable(m, [g], limit=250)
        hits = [q for q, h in seen.items() if CG.mentions(h, {'ReturnStmt'})]
        facts = {'reachable_functions': len(seen), 'sample': sorted(seen)[:10], 'mention_ReturnStmt': hits[:5], 'unresolved': sorted(unres)[:12]}
        if hits:
            ctx.judge('R2', name, facts=facts)
        else:
            ctx.violation('R2', f'{name}:return-not-considered', g.where,
                          f'none of the {len(seen)} functions reachable from {name} references ReturnStmt: a RETURN inside an '
                          f'outlined region ends up in the new subroutine and only leaves that one -- the statements after the '
                          f'region in the original routine are executed although they were skipped before', facts=facts)
    # ---- R3
    opr = m.get_function(OL, 'outline_pragma_regions')
    s2 = ast.unparse(opr.node)
    # the (call, new routine) pair returned by outline_region(<region>, ...) and a mapping <m>[<region>] = <call>
    ok = False
    for a_ in ast.walk(opr.node):
        if isinstance(a_, ast.Assign) and isinstance(a_.value, ast.Call) and X.call_name_of(a_.value) == 'outline_region' \
                and isinstance(a_.targets[0], ast.Tuple) and a_.value.args:
            calln, regn = ast.unparse(a_.targets[0].elts[0]), ast.unparse(a_.value.args[0])
            ok = ok or any(isinstance(b_, ast.Assign) and isinstance(b_.targets[0], ast.Subscript)
                           and ast.unparse(b_.targets[0].slice) == regn and ast.unparse(b_.value) == calln for b_ in ast.walk(opr.node))
    (ctx.judge('R3', 'region replaced by the call') if ok else
     ctx.violation('R3', 'outline_pragma_regions:mapping', opr.where, 'the generated call is not mapped onto the outlined region'))
    ran = None
    for n_ in ast.walk(f.node):
        if isinstance(n_, ast.Assign) and isinstance(n_.targets[0], ast.Attribute) and n_.targets[0].attr == 'arguments' \
                and isinstance(n_.value, ast.Name):
            ran = n_.value.id
    ok = ran is not None and any(isinstance(c_, ast.GeneratorExp) and ast.unparse(c_.generators[0].iter) == ran
                                 and isinstance(c_.generators[0].target, ast.Name) and not c_.generators[0].ifs
                                 and isinstance(c_.elt, ast.Subscript) and ast.unparse(c_.elt.slice) == f'{c_.generators[0].target.id}.name'
                                 for c_ in ast.walk(f.node))
    (ctx.judge('R3', 'call arguments follow dummy order') if ok else
     ctx.violation('R3', 'outline_region:argument-order', f.where, 'call arguments are not built in the order of the new routine\'s dummies'))
    ok = ran is not None
    (ctx.judge('R3', 'dummy list set from the same sequence') if ok else
     ctx.violation('R3', 'outline_region:dummies', f.where, 'new routine\'s dummy list is not the sequence used for the call'))


MUTANTS = [
    Mutant('out-uses-or', OL, "    region_out_args = region_defines_symbols - region_uses_symbols - imported_symbols",
           "    region_out_args = region_defines_symbols | region_uses_symbols - imported_symbols", expect=('R1', 'argument-sets'), quick=True),
    Mutant('neutral-reordered', OL, "    region_inout_args = region_uses_symbols & region_defines_symbols - imported_symbols",
           "    region_inout_args = region_uses_symbols - imported_symbols & region_defines_symbols", expect=None),
    Mutant('inout-is-union', OL, "    region_inout_args = region_uses_symbols & region_defines_symbols - imported_symbols",
           "    region_inout_args = region_uses_symbols | region_defines_symbols - imported_symbols", expect=('R1', 'argument-sets')),
    Mutant('neutral-parenthesised', OL, "    region_inout_args = region_uses_symbols & region_defines_symbols - imported_symbols",
           "    region_inout_args = (region_uses_symbols & region_defines_symbols) - imported_symbols", expect=None),
    Mutant('in-drops-defined-filter', OL, "    region_in_args = region_uses_symbols - region_defines_symbols - imported_symbols",
           "    region_in_args = region_uses_symbols - imported_symbols", expect=('R1', 'argument-sets')),
]
