"""
C33  Region outlining and procedure extraction preserve behaviour.

 R1  argument-set algebra (exact, Python operator precedence included): with
     u = used in region, d = defined in region, i = imported, the expressions for
     the in / inout / out argument sets must satisfy, for every symbol:
     d and not i  =>  out or inout   (written values are passed back),
     u and not i  =>  in or inout    (read values are passed in),
     and the three sets are pairwise disjoint.
 R4  intent overrides are per variable: the second-stage expressions that apply
     the pragma's ``in(..) / inout(..) / out(..)`` lists are pure set algebra and,
     evaluated over all membership profiles (used, defined, imported, overridden
     as in / inout / out), leave every variable that is not overridden exactly
     where the inference put it and move an overridden one to the requested set
     only.  (A whole-set test such as ``A or B`` makes one variable's
     classification depend on whether *another* variable is overridden.)
 R5  extracted internal procedures receive host variables whole: the function
     branch and the subroutine branch of ``extract_internal_procedure`` build the
     added keyword arguments with the same ``clone(...)`` keywords
     (``dimensions=None``): a host array passed as ``a(n)`` is a single element.
 R2  procedure-relative statements: a ``RETURN`` inside an outlined region now
     leaves only the new subroutine.  Necessary condition as for C28: some function
     reachable from outline_region / outline_pragma_regions references ReturnStmt.
 R3  the call replaces the region (mapping keyed by the region node) and receives
     the arguments in the order of the new routine's dummies.
 R6  the outlined routine sees the bounds the region saw: the dummies keep the
     ``pointer`` / ``allocatable`` attribute of the host variable (a deferred-shape
     array received as plain assumed shape starts at 1).
 R7  internal procedures are extracted before regions are outlined (a call that
     has moved into an outlined routine is no longer rewritten).
Not decided: dataflow soundness inside the region (C26), intent overrides by pragma.
"""
import ast

from sa import exprs as X, callgraph as CG, setalg as SA
from sa.model import AnalysisError
from sa.mutate import Mutant

PROP = 'C33'

META = dict(
    technique='truth-table evaluation of the three argument-set expressions over (used, defined, imported) with Python operator '
              'precedence; call-graph reachability + ReturnStmt reference test; call/argument-order shape check',
    level='Decides exactly the set algebra that classifies region variables into in/inout/out arguments, and the necessary '
          'condition that outlining looks at RETURN statements. Does NOT decide the dataflow sets themselves (C26) or pragma '
          'overrides.',
    note='Atoms are the three set names used in outline_region.',
    ref='DESIGN.md section 3, C33',
)

OL = 'loki/transformations/extract/outline.py'


def run(ctx):
    m = ctx.model
    ctx.rule('R1', 'in/inout/out set expressions: d&~i => out|inout ; u&~i => in|inout ; pairwise disjoint (all 8 membership profiles)')
    ctx.rule('R2', 'some function reachable from outline_region / outline_pragma_regions references ReturnStmt')
    ctx.rule('R3', 'region mapped to the generated call; call arguments follow the new routine\'s dummy order')
    f = m.get_function(OL, 'outline_region')
    # roles are read off the code: the three argument sets are the ones zipped with the intents ('in', 'inout', 'out');
    # the atoms are the locals bound to region.uses_symbols / region.defines_symbols / the imported symbols
    rpar = [a.arg for a in f.node.args.args][0]
    roles = None
    for z in ast.walk(f.node):
        if isinstance(z, ast.Call) and X.call_name_of(z) == 'zip' and len(z.args) == 2 and isinstance(z.args[0], ast.Tuple) \
                and [getattr(e, 'value', None) for e in z.args[0].elts] == ['in', 'inout', 'out'] and isinstance(z.args[1], ast.Tuple):
            roles = [ast.unparse(e) for e in z.args[1].elts]
    if not roles or len(roles) != 3:
        raise AnalysisError('outline_region: the (in, inout, out) argument sets zipped with the intents were not found')
    N_IN, N_IO, N_OUT = roles
    un = (X.names_assigned_from(f.node, f'{rpar}.uses_symbols') or ['region_uses_symbols'])[0]
    dn = (X.names_assigned_from(f.node, f'{rpar}.defines_symbols') or ['region_defines_symbols'])[0]
    imn = (X.names_assigned_from(f.node, '.symbols', 'for ') or ['imported_symbols'])[0]
    exprs = {}
    for n in f.node.body:
        if isinstance(n, ast.Assign) and isinstance(n.targets[0], ast.Name) and n.targets[0].id in roles \
                and n.targets[0].id not in exprs and isinstance(n.value, ast.BinOp):
            exprs[n.targets[0].id] = n.value
    if set(exprs) != set(roles):
        raise AnalysisError(f'outline_region: set expressions found for {sorted(exprs)} only')
    atoms = [un, dn, imn]
    bad = []
    rows = 0
    for env, val in SA.table(exprs, atoms):
        rows += 1
        u, d, i = (env[a] for a in atoms)
        IN, IO, OUT = val[N_IN], val[N_IO], val[N_OUT]
        if d and not i and not (OUT or IO):
            bad.append((env, 'defined in the region but neither out nor inout: the value is not passed back'))
        if u and not i and not (IN or IO):
            bad.append((env, 'used in the region but neither in nor inout: the value is not passed in'))
        if (IN and IO) or (IN and OUT) or (IO and OUT):
            bad.append((env, 'sets overlap: the variable becomes two dummy arguments'))
        if i and (IN or IO or OUT):
            bad.append((env, 'imported symbol passed as argument'))
        if not u and not d and (IN or IO or OUT):
            bad.append((env, 'untouched symbol passed as argument'))
    facts = {k: ast.unparse(v) for k, v in exprs.items()}
    ctx.floor('R1', 'membership profiles', rows, 8)
    if bad:
        env, why = bad[0]
        ctx.violation('R1', 'outline_region:argument-sets', f.where,
                      f'argument classification {facts} is wrong for a symbol with {env}: {why}', facts=facts)
    else:
        ctx.judge('R1', 'outline_region:argument-sets', facts=facts)
    # the symbol sets come from the region's dataflow properties
    src = ast.unparse(f.node)
    ok = f'in {rpar}.uses_symbols' in src and f'in {rpar}.defines_symbols' in src
    (ctx.judge('R1', 'sets taken from region.uses_symbols / defines_symbols') if ok else
     ctx.violation('R1', 'outline_region:dataflow-source', f.where, 'used/defined sets are not taken from the region node'))
    # ---- R4 overrides
    ctx.rule('R4', 'outline_region: the override expressions are pure set algebra and act per variable (evaluated over all membership profiles)')
    stage2 = {}
    for n in f.node.body:
        if isinstance(n, ast.Assign) and isinstance(n.targets[0], ast.Name) and n.targets[0].id in roles and n.targets[0].id in exprs \
                and n.value is not exprs[n.targets[0].id] and isinstance(n.value, (ast.BinOp, ast.BoolOp)):
            stage2.setdefault(n.targets[0].id, n.value)
    pnames = {}
    for k_ in ('in', 'inout', 'out'):
        got = X.names_assigned_from(f.node, f"intent_map['{k_}']")
        if got:
            pnames[k_] = got[0]
    if len(stage2) == 3 and len(pnames) == 3:
        impure = [(k_, v_) for k_, v_ in stage2.items() if any(isinstance(x_, ast.BoolOp) or isinstance(x_, ast.IfExp) for x_ in ast.walk(v_))]
        if impure:
            k_, v_ = impure[0]
            ctx.violation('R4', 'outline_region:override-not-per-variable', f'{f.module.relpath}:{v_.lineno}',
                          f'`{k_} = {ast.unparse(v_)}` combines the sets with a whole-set test (`or` / conditional): whether an inferred '
                          f'argument keeps its place depends on whether *some other* variable is overridden -- with `out(c)` every other '
                          f'write-only variable of the region stops being passed back')
        else:
            atoms2 = [N_IN, N_IO, N_OUT, pnames['in'], pnames['inout'], pnames['out']]
            bad2 = []
            rows2 = 0
            for env, val in SA.table(stage2, atoms2):
                i0, io0, o0, pi, pio, po = (env[a_] for a_ in atoms2)
                if sum((i0, io0, o0)) > 1 or sum((pi, pio, po)) > 1:
                    continue            # the inferred sets are disjoint (R1); a variable is overridden at most once
                rows2 += 1
                IN2, IO2, OUT2 = val[N_IN], val[N_IO], val[N_OUT]
                want = (pi, pio, po) if (pi or pio or po) else (i0, io0, o0)
                if (IN2, IO2, OUT2) != want:
                    bad2.append((env, (IN2, IO2, OUT2), want))
            ctx.floor('R4', 'override profiles', rows2, 12)
            if bad2:
                env, got_, want = bad2[0]
                ctx.violation('R4', 'outline_region:override-sets', f.where,
                              f'after applying the intent overrides a variable with profile {env} is classified (in, inout, out) = {got_}, '
                              f'expected {want}', facts={k_: ast.unparse(v_) for k_, v_ in stage2.items()})
            else:
                ctx.judge('R4', 'outline_region:override-sets', facts={k_: ast.unparse(v_) for k_, v_ in stage2.items()})
    else:
        raise AnalysisError('outline_region: the three override expressions / pragma sets were not found')
    # ---- R5 internal procedures
    ctx.rule('R5', 'extract_internal_procedure: the keyword arguments added to calls are built with identical clone(...) keywords in the '
                   'function and the subroutine branch, including dimensions=None')
    ei = m.get_function('loki/transformations/extract/internal.py', 'extract_internal_procedure')
    clones = [c for c in ast.walk(ei.node) if isinstance(c, ast.Call) and isinstance(c.func, ast.Attribute) and c.func.attr == 'clone'
              and any(k.arg == 'scope' and ast.unparse(k.value) == 'procedure' for k in c.keywords)
              and isinstance(c.func.value, ast.Name)]
    kwsets = [tuple(sorted((k.arg, ast.unparse(k.value)) for k in c.keywords)) for c in clones]
    ctx.floor('R5', 'argument clones in extract_internal_procedure', len(clones), 2)
    callarg = [ks for ks, c in zip(kwsets, clones)]
    whole = [ks for ks in callarg if ('dimensions', 'None') in ks]
    if len(set(callarg)) > 1 and len(whole) != len(callarg) and whole:
        odd = [c for ks, c in zip(kwsets, clones) if ('dimensions', 'None') not in ks and c.lineno > min(c2.lineno for c2 in clones)]
    else:
        odd = []
    # only the clones that feed call arguments (inside a comprehension building (name, value) pairs) must agree
    pairs = [c for c in clones if any(isinstance(t_, ast.Tuple) and c in list(ast.walk(t_)) and len(t_.elts) == 2
                                      for t_ in ast.walk(ei.node))]
    pk = [tuple(sorted((k.arg, ast.unparse(k.value)) for k in c.keywords)) for c in pairs]
    if len(pairs) >= 2 and len(set(pk)) == 1 and ('dimensions', 'None') in pk[0]:
        ctx.judge('R5', 'extract_internal_procedure:call-argument-clones', facts={'keywords': list(pk[0]), 'sites': len(pairs)})
    elif len(pairs) < 2:
        raise AnalysisError('extract_internal_procedure: the (name, clone) pairs added to the calls were not found')
    else:
        badc = next(c for c, ks in zip(pairs, pk) if ('dimensions', 'None') not in ks) if any(('dimensions', 'None') not in ks for ks in pk) else pairs[-1]
        ctx.violation('R5', 'extract_internal_procedure:call-argument-clones', f'{ei.module.relpath}:{badc.lineno}',
                      f'the host variables added to the calls are cloned with different keywords in the two branches '
                      f'({sorted(set(pk))}): without dimensions=None a host array is passed with its declared extents as subscripts '
                      f'(`a=a(n)`, one element) and the extracted procedure reads beyond it')
    # ---- R2
    for name in ('outline_region', 'outline_pragma_regions'):
        g = m.get_function(OL, name)
        seen, unres = CG.reachable(m, [g], limit=250)
        hits = [q for q, h in seen.items() if CG.mentions(h, {'ReturnStmt'})]
        facts = {'reachable_functions': len(seen), 'sample': sorted(seen)[:10], 'mention_ReturnStmt': hits[:5], 'unresolved': sorted(unres)[:12]}
        if hits:
            ctx.judge('R2', name, facts=facts)
        else:
            ctx.violation('R2', f'{name}:return-not-considered', g.where,
                          f'none of the {len(seen)} functions reachable from {name} references ReturnStmt: a RETURN inside an '
                          f'outlined region ends up in the new subroutine and only leaves that one -- the statements after the '
                          f'region in the original routine are executed although they were skipped before', facts=facts)
    # ---- R3
    opr = m.get_function(OL, 'outline_pragma_regions')
    s2 = ast.unparse(opr.node)
    # the (call, new routine) pair returned by outline_region(<region>, ...) and a mapping <m>[<region>] = <call>
    ok = False
    for a_ in ast.walk(opr.node):
        if isinstance(a_, ast.Assign) and isinstance(a_.value, ast.Call) and X.call_name_of(a_.value) == 'outline_region' \
                and isinstance(a_.targets[0], ast.Tuple) and a_.value.args:
            calln, regn = ast.unparse(a_.targets[0].elts[0]), ast.unparse(a_.value.args[0])
            ok = ok or any(isinstance(b_, ast.Assign) and isinstance(b_.targets[0], ast.Subscript)
                           and ast.unparse(b_.targets[0].slice) == regn and ast.unparse(b_.value) == calln for b_ in ast.walk(opr.node))
    (ctx.judge('R3', 'region replaced by the call') if ok else
     ctx.violation('R3', 'outline_pragma_regions:mapping', opr.where, 'the generated call is not mapped onto the outlined region'))
    ran = None
    for n_ in ast.walk(f.node):
        if isinstance(n_, ast.Assign) and isinstance(n_.targets[0], ast.Attribute) and n_.targets[0].attr == 'arguments' \
                and isinstance(n_.value, ast.Name):
            ran = n_.value.id
    ok = ran is not None and any(isinstance(c_, ast.GeneratorExp) and ast.unparse(c_.generators[0].iter) == ran
                                 and isinstance(c_.generators[0].target, ast.Name) and not c_.generators[0].ifs
                                 and isinstance(c_.elt, ast.Subscript) and ast.unparse(c_.elt.slice) == f'{c_.generators[0].target.id}.name'
                                 for c_ in ast.walk(f.node))
    (ctx.judge('R3', 'call arguments follow dummy order') if ok else
     ctx.violation('R3', 'outline_region:argument-order', f.where, 'call arguments are not built in the order of the new routine\'s dummies'))
    ok = ran is not None
    (ctx.judge('R3', 'dummy list set from the same sequence') if ok else
     ctx.violation('R3', 'outline_region:dummies', f.where, 'new routine\'s dummy list is not the sequence used for the call'))

    run_r67(ctx)


def run_r67(ctx):
    m = ctx.model
    ctx.rule('R6', 'outline_region: the dummy of the outlined routine keeps the attributes that carry the bounds of the actual argument '
                   '(pointer, allocatable are not reset to None)')
    ctx.rule('R7', 'ExtractTransformation: for every routine internal procedures are extracted before regions are outlined')
    f = m.get_function(OL, 'outline_region')
    clones = [c for c in ast.walk(f.node) if isinstance(c, ast.Call) and isinstance(c.func, ast.Attribute) and c.func.attr == 'clone'
              and any(k.arg == 'intent' for k in c.keywords)]
    if not clones:
        raise AnalysisError('outline_region: the type clone that sets the intent of the new dummies was not found')
    for c in clones:
        reset = sorted(k.arg for k in c.keywords if isinstance(k.value, ast.Constant) and k.value.value is None)
        for attr in ('pointer', 'allocatable'):
            inst = f'outline_region:dummy-type:{attr}'
            if attr in reset:
                ctx.violation('R6', inst, f'{OL}:{c.lineno}',
                              f'the dummies of the outlined routine are created with `{attr}=None`: a deferred-shape {attr} array is then '
                              f'received as an assumed-shape dummy whose lower bound is 1, whatever the bounds of the actual argument are -- '
                              f'with allocate(w(0:n)) / w => work(0:n) the subscripts inside the region address other elements')
            else:
                ctx.judge('R6', inst)
    E = m.get_class('loki/transformations/extract/__init__.py', 'ExtractTransformation')
    n = 0
    for name in ('transform_module', 'transform_file'):
        g = E.function(name)
        if g is None:
            raise AnalysisError(f'ExtractTransformation.{name} vanished')
        ext = [c.lineno for c in ast.walk(g.node) if isinstance(c, ast.Call) and X.call_name_of(c) == 'extract_internal_procedures']
        out = [c.lineno for c in ast.walk(g.node) if isinstance(c, ast.Call) and X.call_name_of(c) == 'outline_pragma_regions']
        if not ext or not out:
            raise AnalysisError(f'ExtractTransformation.{name}: extraction / outlining calls not found')
        n += 1
        if max(ext) < min(out):
            ctx.judge('R7', f'{name}: internals extracted before regions are outlined')
        else:
            ctx.violation('R7', f'ExtractTransformation.{name}:outline-before-extract', f'{g.module.relpath}:{min(out)}',
                          'a region is outlined before the internal procedures of the routine are extracted: extract_internal_procedure only '
                          'rewrites the calls left in the parent body, so a call to an internal procedure that has moved into the outlined '
                          'routine never receives the host variables as arguments')
    ctx.floor('R7', 'entry points of ExtractTransformation', n, 2)


MUTANTS = [
    Mutant('outlined-dummy-loses-pointer', OL, "type=local_var.type.clone(intent=intent, allocatable=None, target=None),",
           "type=local_var.type.clone(intent=intent, allocatable=None, pointer=None, target=None),", expect=('R6', 'dummy-type:pointer')),
    Mutant('outline-before-extract', 'loki/transformations/extract/__init__.py',
           "        # Extract internal (contained) procedures into standalone ones\n        if self.extract_internals:\n            for routine in module.subroutines:\n                new_routines = extract_internal_procedures(routine)\n                module.contains.append(new_routines)\n\n",
           "", also=[('loki/transformations/extract/__init__.py',
                      "            for routine in module.subroutines:\n                new_routines = outline_pragma_regions(routine)\n                module.contains.append(new_routines)\n",
                      "            for routine in module.subroutines:\n                new_routines = outline_pragma_regions(routine)\n                module.contains.append(new_routines)\n        if self.extract_internals:\n            for routine in module.subroutines:\n                new_routines = extract_internal_procedures(routine)\n                module.contains.append(new_routines)\n")],
           expect=('R7', 'outline-before-extract')),
    Mutant('out-override-replaces-inferred', OL, "    region_out_args = (region_out_args - (pragma_in_args | pragma_inout_args)) | pragma_out_args",
           "    region_out_args = pragma_out_args or (region_out_args - (pragma_in_args | pragma_inout_args))", expect=('R4', 'override-not-per-variable')),
    Mutant('out-override-drops-inferred', OL, "    region_out_args = (region_out_args - (pragma_in_args | pragma_inout_args)) | pragma_out_args",
           "    region_out_args = (region_out_args & (pragma_in_args | pragma_inout_args)) | pragma_out_args", expect=('R4', 'override-sets')),
    Mutant('function-branch-keeps-dimensions', 'loki/transformations/extract/internal.py',
           "                newkwargs = tuple((v.name, v.clone(dimensions=None, scope=procedure)) for v in vars_to_resolve)\n                call_map[call] = call.clone(kw_parameters=",
           "                newkwargs = tuple((v.name, v.clone(scope=procedure)) for v in vars_to_resolve)\n                call_map[call] = call.clone(kw_parameters=",
           expect=('R5', 'call-argument-clones')),
    Mutant('out-uses-or', OL, "    region_out_args = region_defines_symbols - region_uses_symbols - imported_symbols",
           "    region_out_args = region_defines_symbols | region_uses_symbols - imported_symbols", expect=('R1', 'argument-sets'), quick=True),
    Mutant('neutral-reordered', OL, "    region_inout_args = region_uses_symbols & region_defines_symbols - imported_symbols",
           "    region_inout_args = region_uses_symbols - imported_symbols & region_defines_symbols", expect=None),
    Mutant('inout-is-union', OL, "    region_inout_args = region_uses_symbols & region_defines_symbols - imported_symbols",
           "    region_inout_args = region_uses_symbols | region_defines_symbols - imported_symbols", expect=('R1', 'argument-sets')),
    Mutant('neutral-parenthesised', OL, "    region_inout_args = region_uses_symbols & region_defines_symbols - imported_symbols",
           "    region_inout_args = (region_uses_symbols & region_defines_symbols) - imported_symbols", expect=None),
    Mutant('in-drops-defined-filter', OL, "    region_in_args = region_uses_symbols - region_defines_symbols - imported_symbols",
           "    region_in_args = region_uses_symbols - imported_symbols", expect=('R1', 'argument-sets')),
]
