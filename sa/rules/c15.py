"""
C15  Node and expression finders return exactly the matching nodes.

Decided (structural, necessary conditions for *completeness* of the search):
 R1  every Expression/Node-typed dataclass field of every IR node class is in
     ``_traversable`` (else no Visitor can reach what it holds);
 R2  LokiWalkMapper (the traversal behind every Find* expression finder)
     recurses into every child attribute that its sibling traversals
     (LokiIdentityMapper, ExpressionCallbackMapper) recurse into;
 R3  the finder visitors' handlers traverse ``o.children`` for every node class
     except the documented TypeDef cut-off; FindNodes is pre-order;
 R4  ``Node.children`` enumerates ``_traversable`` unfiltered; generic
     ``Visitor.visit_Node`` / ``visit_tuple`` visit every child.
 R5  "... and nothing else": the retriever behind every expression finder is a
     *shared* object (one per finder class) with an accumulator; the accumulator
     is emptied before every walk on every path -- the reset precedes the walk
     in ``ExpressionRetriever.retrieve`` (or the walk sits in ``try`` with the
     reset in ``finally``).  A reset that only follows a successful walk leaves the
     nodes collected by an aborted search in the next result.
Not decided: result ordering beyond pre-order of FindNodes, uniqueness keys.
"""
import ast

from sa import dispatch as D, exprs as X
from sa.model import AnalysisError, walk_no_nested
from sa.mutate import Mutant

PROP = 'C15'

META = dict(
    technique='AST class-table analysis: dataclass-field vs _traversable agreement, static visitor/mapper dispatch, sibling-mapper child-coverage comparison',
    level='Decides a structural necessary condition of completeness only: every Expression/Node-typed field of all 47 IR node classes is traversable, the walk mapper behind the Find* visitors recurses into every child its sibling mappers recurse into (36 expression classes), finder handlers visit o.children for every node class (8 finders x 47 classes), FindNodes is pre-order. Does NOT decide ordering/uniqueness behaviour.',
    note='Trusts annotations as the statement of which fields hold expressions; exemption table for attached pragma/comment metadata and literal-only fields is in sa/rules/c15.py.',
    ref='DESIGN.md section 3, C15',
)

# attached metadata, documented as not discoverable while attached (pragmas_attached docs,
# Assignment/VariableDeclaration docstrings) and aggregate leaf by construction
R1_EXEMPT = {
    ('*', 'pragma'): 'attached pragma metadata; documented as hidden from finders while attached',
    ('*', 'pragma_post'): 'attached pragma metadata',
    ('*', 'comment'): 'inline comment metadata attached to a statement',
    ('CommentBlock', 'comments'): 'CommentBlock is an aggregate leaf of Comment nodes by construction',
    ('StopStmt', 'text'): 'field validator coerces the value to a Literal: can hold no variable or call',
    ('ExitStmt', 'text'): 'field validator coerces the value to an IntLiteral: can hold no variable or call',
}

# alternative spellings of the same children, per mapper method
_RANGE = [{'children'}, {'start', 'stop', 'step'}]
_META = [{'_symbol'}, {'symbol', 'dimensions', 'parent'}]      # parent is reached through the wrapped symbol
_SUBS = [{'aggregate', 'index'}, {'symbol', 'index_tuple'}]
CHILD_GROUPS = {'map_range': _RANGE, 'map_range_index': _RANGE, 'map_loop_range': _RANGE,
                'map_meta_symbol': _META, 'map_scalar': _META, 'map_array': _META,
                'map_array_subscript': _SUBS, 'map_string_subscript': _SUBS}
R2_NOT_CHILDREN = {'scope', 'type'}   # declaration attributes, not occurrences inside the expression

FINDERS = [('loki/ir/find.py', 'FindNodes'), ('loki/ir/find.py', 'FindScopes'),
           ('loki/ir/expr_visitors.py', 'ExpressionFinder'), ('loki/ir/expr_visitors.py', 'FindVariables'),
           ('loki/ir/expr_visitors.py', 'FindInlineCalls'), ('loki/ir/expr_visitors.py', 'FindTypedSymbols'),
           ('loki/ir/expr_visitors.py', 'FindExpressions'), ('loki/ir/expr_visitors.py', 'FindLiterals')]
DOCUMENTED_CUTOFF = {'TypeDef'}


def _covered(walk_attrs, sibling_attrs, mm):
    """Missing child attributes of the walk handler relative to a sibling."""
    missing = set()
    todo = set(sibling_attrs) - R2_NOT_CHILDREN
    for reps in [CHILD_GROUPS[mm]] if mm in CHILD_GROUPS else []:
        members = set().union(*reps)
        if todo & members:
            if not any(rep <= walk_attrs for rep in reps):
                missing |= (todo & members)
            todo -= members
    missing |= (todo - walk_attrs)
    return missing


def run(ctx):
    m = ctx.model
    ctx.rule('R1', 'every dataclass field of an IR node class whose annotation mentions Expression or Node '
                   'is listed in _traversable (exemptions: attached pragma/comment metadata, CommentBlock.comments)')
    ctx.rule('R2', 'for every expression class, the LokiWalkMapper handler selected by mapper_method reads every '
                   'child attribute that LokiIdentityMapper / ExpressionCallbackMapper recurse into')
    ctx.rule('R3', 'for every IR node class the handler dispatched in each finder visitor iterates o.children '
                   '(only TypeDef may cut off); FindNodes.visit_Node appends the match before descending')
    ctx.rule('R4', 'Node.children returns every _traversable field; Visitor.visit_Node/visit_tuple visit all')

    nodes = D.ir_node_classes(m)
    ctx.floor('R1', 'IR node classes', len(nodes), 45)
    # ---- R1
    nfields = 0
    for c in nodes:
        trav = set(D.traversable(m, c))
        fields = m.dataclass_fields(c)
        relevant = [(n, a) for n, (a, d, o) in fields.items() if D.annotation_mentions(a, {'Expression', 'Node'})]
        if not relevant:
            ctx.judge('R1', c.name, nontrivial=False)
            continue
        for n, ann in relevant:
            nfields += 1
            inst = f'{c.name}.{n}'
            if n in trav:
                ctx.judge('R1', inst, facts={'annotation': ast.unparse(ann), 'traversable': True})
            elif ('*', n) in R1_EXEMPT or (c.name, n) in R1_EXEMPT:
                ctx.judge('R1', inst, nontrivial=False, facts={'exempt': R1_EXEMPT.get(('*', n)) or R1_EXEMPT[(c.name, n)]})
            else:
                owner = fields[n][2]
                ctx.violation('R1', inst, c.where,
                              f'field {n}: {ast.unparse(ann)} holds expressions/nodes but is not in '
                              f'{c.name}._traversable {sorted(trav)}; finders cannot reach it',
                              facts={'annotation': ast.unparse(ann), 'declared_in': owner.name})
        # a traversable name that is not a field would make children raise
        for t in trav:
            if t not in fields:
                ctx.violation('R1', f'{c.name}._traversable:{t}', c.where,
                              f'_traversable names {t!r} which is not a dataclass field of {c.name}')
    ctx.floor('R1', 'expression/node typed fields', nfields, 60)

    # ---- R2
    W = m.get_class('loki/expression/mappers.py', 'LokiWalkMapper')
    sibs = [m.get_class('loki/expression/mappers.py', 'LokiIdentityMapper'),
            m.get_class('loki/expression/mappers.py', 'ExpressionCallbackMapper')]
    ecls = D.expression_classes(m)
    ctx.floor('R2', 'expression classes', len(ecls), 36)
    for e in ecls:
        mm = D.mapper_method(m, e)
        if mm is None:
            raise AnalysisError(f'expression class {e.fqn} has no mapper_method')
        wf, _ = D.mapper_dispatch(m, W, e)
        if wf is None:
            ctx.violation('R2', f'LokiWalkMapper.{mm}', e.where,
                          f'no handler {mm} for {e.name} in LokiWalkMapper: expression finders raise/skip on it')
            continue
        wread = set(X.attr_reads_of(wf.node, X.param_name(wf)))
        sib_attrs = set()
        used = []
        for S in sibs:
            sf, _ = D.mapper_dispatch(m, S, e)
            if sf is None:
                continue
            ra = X.recursed_attrs(sf.node, X.param_name(sf))
            sib_attrs |= ra
            used.append(f'{sf.qualname}:{sorted(ra)}')
        missing = _covered(wread, sib_attrs, mm)
        facts = {'walk_handler': wf.qualname, 'walk_reads': sorted(wread), 'siblings': used}
        if missing:
            ctx.violation('R2', f'LokiWalkMapper.{mm}:{",".join(sorted(missing))}', wf.where,
                          f'{wf.qualname} (handler for {e.name}) never reads child attribute(s) '
                          f'{sorted(missing)} that sibling traversals recurse into', facts=facts, instance=f'{e.name}')
        else:
            ctx.judge('R2', e.name, nontrivial=bool(sib_attrs - R2_NOT_CHILDREN), facts=facts)
    # the retriever must collect in post_visit via the query, for every visited node
    R = m.get_class('loki/expression/mappers.py', 'ExpressionRetriever')
    pv = R.function('post_visit')
    if pv is None:
        raise AnalysisError('ExpressionRetriever.post_visit vanished')
    ok = any(isinstance(n, ast.Call) and X.dotted_attr(n.func) == 'self.exprs.append' for n in ast.walk(pv.node))
    ctx.judge('R2', 'ExpressionRetriever.post_visit', ok=ok)
    if not ok:
        ctx.violation('R2', 'ExpressionRetriever.post_visit', pv.where, 'post_visit no longer appends matches to self.exprs')

    # ---- R3
    npairs = 0
    for vf, vn in FINDERS:
        V = m.get_class(vf, vn)
        handlers = D.visitor_handlers(m, V)
        for c in nodes:
            f, key = D.visitor_dispatch(m, V, c, handlers)
            npairs += 1
            inst = f'{vn}x{c.name}'
            if f is None:
                ctx.violation('R3', inst, V.where, f'no handler for {c.name} in {vn}')
                continue
            par = X.param_name(f)
            reads = X.attr_reads_of(f.node, par)
            trav = D.traversable(m, c)
            # the handler must iterate o.children (or delegate to a handler that does via super())
            visits_children = 'children' in reads or any(
                isinstance(n, ast.Call) and isinstance(n.func, ast.Attribute) and n.func.attr == 'visit_Node'
                for n in ast.walk(f.node))
            facts = {'handler': f.qualname, 'key': key}
            if visits_children or not trav:
                ctx.judge('R3', inst, nontrivial=bool(trav), facts=facts)
            elif c.name in DOCUMENTED_CUTOFF and key == c.name:
                ctx.judge('R3', inst, nontrivial=False, facts={**facts, 'documented_cutoff': True})
            else:
                ctx.violation('R3', inst, f.where,
                              f'{f.qualname} handles {c.name} (traversable {trav}) without visiting o.children',
                              facts=facts)
    ctx.floor('R3', 'finder x node pairs', npairs, 300)
    # pre-order of FindNodes.visit_Node: append precedes the descent
    fn = m.get_function('loki/ir/find.py', 'FindNodes.visit_Node')
    rn = (X.names_assigned_from(fn.node, "kwargs.pop('ret'") or ['ret'])[0]
    app = [n.lineno for n in ast.walk(fn.node) if isinstance(n, ast.Call) and X.dotted_attr(n.func) == f'{rn}.append']
    loops = [n.lineno for n in ast.walk(fn.node) if isinstance(n, ast.For)
             and 'children' in {a.attr for a in ast.walk(n.iter) if isinstance(a, ast.Attribute)}]
    ok = bool(app) and bool(loops) and min(app) < min(loops)
    if ok:
        ctx.judge('R3', 'FindNodes.visit_Node:pre-order', facts={'append_line': app, 'descent_line': loops})
    else:
        ctx.violation('R3', 'FindNodes.visit_Node:pre-order', fn.where,
                      'match is not appended before descending into o.children (pre-order lost)')
    # the match test must be the visitor's rule applied to o, unconditionally evaluated
    for qn in ('FindNodes.visit_Node', 'FindNodes.visit_TypeDef'):
        f = m.get_function('loki/ir/find.py', qn)
        conds = [n for n in X.body_nodoc(f.node) if isinstance(n, ast.If)
                 and 'self.rule(self.match, o)' == ast.unparse(n.test)]
        if conds:
            ctx.judge('R3', f'{qn}:rule-test')
        else:
            ctx.violation('R3', f'{qn}:rule-test', f.where,
                          'top-level `if self.rule(self.match, o)` test not found: match criterion altered')

    # early exits of the node finders: a `return` that skips the descent must be control-dependent on the match test
    for rel, qn in (('loki/ir/find.py', 'FindNodes.visit_Node'), ('loki/ir/find.py', 'FindScopes.visit_Node')):
        f = m.get_function(rel, qn)
        loop_line = min([n.lineno for n in ast.walk(f.node) if isinstance(n, ast.For)
                         and 'children' in ast.unparse(n.iter)] or [10 ** 9])

        def early_returns(stmts, guards, out):
            for st in stmts:
                if isinstance(st, ast.If):
                    early_returns(st.body, guards + [ast.unparse(st.test)], out)
                    early_returns(st.orelse, guards + ['not ' + ast.unparse(st.test)], out)
                elif isinstance(st, ast.Return) and st.lineno < loop_line:
                    out.append((st, guards))
            return out
        bad = [(r, g) for r, g in early_returns(f.node.body, [], []) if not any('self.rule(self.match, o)' in x for x in g)]
        if bad:
            r, g = bad[0]
            ctx.violation('R3', f'{qn}:early-exit', f'{f.module.relpath}:{r.lineno}',
                          f'`{ast.unparse(r)}` under `{" and ".join(g) or "<no guard>"}` skips the descent into o.children without '
                          f'the node itself having matched: nested matches are lost (greedy mode must only prune below a match)')
        else:
            ctx.judge('R3', f'{qn}:early-exit')
        greedy = [g for r, g in early_returns(f.node.body, [], []) if any('self.greedy' in x for x in g)]
        (ctx.judge('R3', f'{qn}:greedy-prunes') if greedy else
         ctx.violation('R3', f'{qn}:greedy', f.where, 'greedy mode no longer prunes below a matched node'))

    # ---- R4
    node = m.get_class('loki/ir/nodes/abstract_nodes.py', 'Node')
    ch = node.function('children')
    gens = [n for n in ast.walk(ch.node) if isinstance(n, (ast.GeneratorExp, ast.ListComp))]
    ok = False
    if len(gens) == 1 and len(gens[0].generators) == 1:
        g = gens[0].generators[0]
        ok = ast.unparse(g.iter) == 'self._traversable' and not g.ifs and \
            ast.unparse(gens[0].elt) == f'getattr(self, {ast.unparse(g.target)})'
    if ok:
        ctx.judge('R4', 'Node.children')
    else:
        ctx.violation('R4', 'Node.children', ch.where,
                      'children is no longer `getattr(self, i) for i in self._traversable` unfiltered')
    vis = m.get_class('loki/ir/visitor.py', 'Visitor')
    vn = vis.function('visit_Node')
    ok = any(isinstance(n, ast.Call) and X.dotted_attr(n.func) == 'self.visit'
             and n.args and ast.unparse(n.args[0]) == 'o.children' for n in ast.walk(vn.node))
    (ctx.judge('R4', 'Visitor.visit_Node') if ok else
     ctx.violation('R4', 'Visitor.visit_Node', vn.where, 'generic visit_Node does not visit o.children'))
    for vf, vname in [('loki/ir/visitor.py', 'Visitor'), ('loki/ir/find.py', 'FindNodes'),
                      ('loki/ir/expr_visitors.py', 'ExpressionFinder')]:
        V = m.get_class(vf, vname)
        vt = m.member_function(V, 'visit_tuple')
        gl = [n for n in ast.walk(vt.node) if isinstance(n, (ast.For, ast.comprehension))]
        ok = len(gl) >= 1 and all(ast.unparse(g.iter) == 'o' and not getattr(g, 'ifs', []) for g in gl)
        ok = ok and any(isinstance(n, ast.Call) and X.dotted_attr(n.func) == 'self.visit' for n in ast.walk(vt.node))
        # early exits inside the loop would skip elements
        for g in [n for n in ast.walk(vt.node) if isinstance(n, ast.For)]:
            if any(isinstance(s, (ast.Break, ast.Return)) for s in ast.walk(g)):
                ok = False
        (ctx.judge('R4', f'{vname}.visit_tuple') if ok else
         ctx.violation('R4', f'{vname}.visit_tuple', vt.where,
                       'visit_tuple does not visit every element of the tuple'))
        lm = model_alias_ok(m, V)
        (ctx.judge('R4', f'{vname}.visit_list') if lm else
         ctx.violation('R4', f'{vname}.visit_list', V.where, 'visit_list is not the same handler as visit_tuple'))
    run_r5(ctx)


def run_r5(ctx):
    m = ctx.model
    ctx.rule('R5', 'ExpressionRetriever.retrieve empties the accumulator before the walk on every path (reset precedes `self(expr)`, or try/finally)')
    R = m.get_class('loki/expression/mappers.py', 'ExpressionRetriever')
    pv, rt = R.function('post_visit'), R.function('retrieve')
    if pv is None or rt is None:
        raise AnalysisError('ExpressionRetriever.post_visit / retrieve vanished')
    acc = {ast.unparse(c.func.value) for c in ast.walk(pv.node) if isinstance(c, ast.Call) and isinstance(c.func, ast.Attribute)
           and c.func.attr in ('append', 'add', 'extend') and ast.unparse(c.func.value).startswith('self.')}
    if len(acc) != 1:
        raise AnalysisError(f'ExpressionRetriever.post_visit: accumulator not identified ({sorted(acc)})')
    acc = acc.pop()
    resetters = {name for name, mem in R.members.items() if mem.kind == 'func' and any(
        isinstance(a, ast.Assign) and any(ast.unparse(t) == acc for t in a.targets) and isinstance(a.value, (ast.List, ast.Call, ast.Tuple))
        and not getattr(a.value, 'elts', None) and not getattr(a.value, 'args', None) for a in ast.walk(mem.node))}

    def is_reset(st):
        if isinstance(st, ast.Expr) and isinstance(st.value, ast.Call) and (X.dotted_attr(st.value.func) or '') in {f'self.{r}' for r in resetters}:
            return True
        return isinstance(st, ast.Assign) and any(ast.unparse(t) == acc for t in st.targets) and isinstance(st.value, ast.List) and not st.value.elts

    def is_walk(st):
        return any(isinstance(c, ast.Call) and isinstance(c.func, ast.Name) and c.func.id == 'self' for c in ast.walk(st)) or \
            any(isinstance(c, ast.Call) and (X.dotted_attr(c.func) or '') in ('self.rec', 'self.__call__', 'super().__call__') for c in ast.walk(st))
    body = X.body_nodoc(rt.node)
    widx = [i for i, st in enumerate(body) if is_walk(st)]
    if not widx:
        raise AnalysisError('ExpressionRetriever.retrieve: the walk `self(expr, ...)` was not found')
    i = widx[0]
    st = body[i]
    before = any(is_reset(s_) for s_ in body[:i])
    in_try = isinstance(st, ast.Try) and any(is_reset(s_) for s_ in st.finalbody)
    if before or in_try:
        ctx.judge('R5', 'ExpressionRetriever.retrieve:reset-before-walk', facts={'accumulator': acc, 'resetters': sorted(resetters)})
    else:
        ctx.violation('R5', 'ExpressionRetriever.retrieve:reset-before-walk', rt.where,
                      f'`{acc}` is not emptied before the walk (and the walk is not protected by try/finally): the finders share one retriever '
                      f'per class, so after a search that ended with an exception the next search with the same finder class also returns '
                      f'the nodes the aborted one had collected -- nodes that are not in the tree it was given')


def model_alias_ok(m, V):
    a = m.member_function(V, 'visit_list')
    b = m.member_function(V, 'visit_tuple')
    return a is not None and b is not None and a.node is b.node


MUTANTS = [
    Mutant('reset-after-walk', 'loki/expression/mappers.py', "        self.reset()\n        self(expr, *args, **kwargs)\n        return self.exprs\n",
           "        self(expr, *args, **kwargs)\n        exprs = self.exprs\n        self.reset()\n        return exprs\n", expect=('R5', 'reset-before-walk')),
    Mutant('neutral-reset-inline', 'loki/expression/mappers.py', "        self.reset()\n        self(expr, *args, **kwargs)\n        return self.exprs\n",
           "        self.exprs = []\n        self(expr, *args, **kwargs)\n        return self.exprs\n", expect=None),
    Mutant('drop-traversable-field', 'loki/ir/nodes/leaf_nodes.py',
           "_traversable = ['variables', 'data_source', 'status_var']", "_traversable = ['variables', 'data_source']",
           expect=('R1', 'Allocation.status_var'), quick=True),
    Mutant('walk-skips-subscript-index', 'loki/expression/mappers.py',
           "        self.rec(expr.aggregate, *args, **kwargs)\n        self.rec(expr.index, *args, **kwargs)\n        self.post_visit(expr, *args, **kwargs)\n\n    map_string_subscript",
           "        self.rec(expr.aggregate, *args, **kwargs)\n        self.post_visit(expr, *args, **kwargs)\n\n    map_string_subscript",
           expect=('R2', 'map_array_subscript')),
    Mutant('walk-cast-skips-kind', 'loki/expression/mappers.py',
           "        if expr.kind is not None:\n            self.rec(expr.kind, *args, **kwargs)\n        self.post_visit(expr, *args, **kwargs)\n\n    map_range = WalkMapper.map_slice",
           "        self.post_visit(expr, *args, **kwargs)\n\n    map_range = WalkMapper.map_slice",
           expect=('R2', 'map_cast')),
    Mutant('finder-cutoff-added', 'loki/ir/expr_visitors.py',
           "    def visit_VariableDeclaration(self, o, **kwargs):\n        expressions = as_tuple(super().visit(o.children, **kwargs))",
           "    def visit_Interface(self, o, **kwargs):\n        return self._return(o, ())\n\n    def visit_VariableDeclaration(self, o, **kwargs):\n        expressions = as_tuple(super().visit(o.children, **kwargs))",
           expect=('R3', 'Interface')),
    Mutant('children-filtered', 'loki/ir/nodes/abstract_nodes.py',
           "return tuple(getattr(self, i) for i in self._traversable)",
           "return tuple(getattr(self, i) for i in self._traversable if getattr(self, i))",
           expect=('R4', 'Node.children')),
    Mutant('findnodes-postorder', 'loki/ir/find.py',
           "        ret = kwargs.pop('ret', self.default_retval())\n        if self.rule(self.match, o):\n            ret.append(o)\n            if self.greedy:\n                return ret\n        for i in o.children:\n            ret = self.visit(i, ret=ret, **kwargs)\n        return ret or self.default_retval()\n\n    def visit_TypeDef",
           "        ret = kwargs.pop('ret', self.default_retval())\n        for i in o.children:\n            ret = self.visit(i, ret=ret, **kwargs)\n        if self.rule(self.match, o):\n            ret.append(o)\n        return ret or self.default_retval()\n\n    def visit_TypeDef",
           expect=('R3', 'pre-order')),
    Mutant('greedy-return-outside-match', 'loki/ir/find.py',
           "        if self.rule(self.match, o):\n            ret.append(o)\n            if self.greedy:\n                return ret\n        for i in o.children:\n            ret = self.visit(i, ret=ret, **kwargs)\n        return ret or self.default_retval()\n\n    def visit_TypeDef",
           "        if self.rule(self.match, o):\n            ret.append(o)\n        if self.greedy and ret:\n            return ret\n        for i in o.children:\n            ret = self.visit(i, ret=ret, **kwargs)\n        return ret or self.default_retval()\n\n    def visit_TypeDef",
           expect=('R3', 'early-exit')),
    Mutant('neutral-rename-local', 'loki/ir/find.py',
           "        for i in o.children:\n            ret = self.visit(i, ret=ret, **kwargs)\n        return ret or self.default_retval()\n\n    def visit_TypeDef",
           "        for child in o.children:\n            ret = self.visit(child, ret=ret, **kwargs)\n        return ret or self.default_retval()\n\n    def visit_TypeDef",
           expect=None),
    Mutant('neutral-new-node-class', 'loki/ir/nodes/leaf_nodes.py',
           "# Leaf node types\n",
           "# Leaf node types\n\n@dataclass_strict(frozen=True)\nclass _FooBase():\n    expr: Expression\n\n@dataclass_strict(frozen=True)\nclass Foo(LeafNode, _FooBase):\n    _traversable = ['expr']\n",
           expect=None),
    Mutant('new-node-class-untraversable', 'loki/ir/nodes/leaf_nodes.py',
           "# Leaf node types\n",
           "# Leaf node types\n\n@dataclass_strict(frozen=True)\nclass _FooBase():\n    expr: Expression\n\n@dataclass_strict(frozen=True)\nclass Foo(LeafNode, _FooBase):\n    pass\n",
           expect=('R1', 'Foo.expr')),
]
