"""
C08  Symbolic simplification preserves expression values.

Only one clause has a structural reading: "This includes integer division, which
truncates toward zero".
 R1  type-blindness x real-only identity.  Let F be the functions reachable in
     the call graph of loki/expression/symbolic.py from SimplifyMapper.map_sum /
     map_product / map_quotient.  If F contains a rewrite that is valid over the
     reals only -- (a) *quotient distribution* ``(x + y)/d -> x/d + y/d`` or
     (b) *factor absorption* ``a*(b/c) -> (a*b)/c`` -- while no function in F ever
     looks at an operand type (``.type`` / ``.dtype`` / ``BasicType``), then the
     output cannot depend on integer vs real operands, yet both identities are
     false under truncating division ((1+1)/2 = 1 but 1/2 + 1/2 = 0).
Not decided: every other rewrite (literal folding, coefficient collection, sign
handling, powers) -- value-level, not structural.
"""
import ast

from sa import exprs as X
from sa.model import AnalysisError
from sa.mutate import Mutant

PROP = 'C08'

META = dict(
    technique='call-graph reachability inside the simplifier module + structural recognition of two real-only rewrite shapes + '
              'type-blindness (no read of type information anywhere on the reachable code)',
    level='Decides one necessary condition of the integer-division clause: a simplifier that distributes or re-associates '
          'division must consult operand types somewhere; if no reachable function does, integer quotients are rewritten like '
          'real ones. Does NOT decide any other simplification step.',
    note='Rewrite shapes are recognised syntactically (loop building one Quotient per queued term; Quotient branch that splits '
         'numerator/denominator into a factor queue).',
    ref='DESIGN.md section 3, C08',
)

FILE = 'loki/expression/symbolic.py'
ROOTS = ['map_sum', 'map_product', 'map_quotient']
TYPE_READS = {'type', 'dtype', 'is_integer', 'kind'}


def _callees(fnode, mod):
    out = set()
    for n in ast.walk(fnode):
        if isinstance(n, ast.Call) and isinstance(n.func, ast.Name) and n.func.id in mod.functions:
            out.add(n.func.id)
    return out


def run(ctx):
    m = ctx.model
    mod = m.module_by_path(FILE)
    ctx.rule('R1', 'reachable(SimplifyMapper.map_sum/product/quotient) contains quotient distribution or factor absorption '
                   '=> some reachable function reads operand type information')
    S = mod.classes.get('SimplifyMapper')
    if S is None:
        raise AnalysisError('SimplifyMapper vanished')
    reach, work = set(), []
    roots = []
    for r in ROOTS:
        f = S.function(r)
        if f is None:
            raise AnalysisError(f'SimplifyMapper.{r} vanished')
        roots.append(f.node)
        work += list(_callees(f.node, mod))
    while work:
        n = work.pop()
        if n in reach:
            continue
        reach.add(n)
        work += list(_callees(mod.functions[n].node, mod))
    ctx.floor('R1', 'functions reachable from the simplifier handlers', len(reach), 6)
    typed = []
    for fn in [mod.functions[n].node for n in reach] + roots:
        for n in ast.walk(fn):
            if isinstance(n, ast.Attribute) and n.attr in TYPE_READS:
                typed.append(f'{fn.name}:{ast.unparse(n)}')
            if isinstance(n, ast.Name) and n.id in ('BasicType', 'SymbolAttributes'):
                typed.append(f'{fn.name}:{n.id}')
    identities = []
    for name in sorted(reach):
        fn = mod.functions[name].node
        par = fn.args.args[0].arg if fn.args.args else None
        # (a) quotient distribution: inside a loop, Quotient(<term>, <param>.denominator ...) is appended per term
        for loop in [n for n in ast.walk(fn) if isinstance(n, (ast.While, ast.For))]:
            for c in ast.walk(loop):
                if isinstance(c, ast.Call) and X.call_name_of(c) == 'Quotient' and len(c.args) == 2 and par \
                        and f'{par}.denominator' in ast.unparse(c.args[1]):
                    identities.append((name, 'quotient distribution (x + y)/d -> x/d + y/d', c.lineno))
                    break
        # (b) factor absorption: a Quotient factor is split into numerator (queued as factor) and denominator (collected)
        for br in [n for n in ast.walk(fn) if isinstance(n, ast.If) and 'Quotient' in ast.unparse(n.test) and 'isinstance' in ast.unparse(n.test)]:
            txt = ' '.join(ast.unparse(s) for s in br.body)
            if '.numerator' in txt and '.denominator' in txt and any(isinstance(s, (ast.Assign, ast.AugAssign)) for s in br.body) \
                    and any(X.call_name_of(c) == 'Quotient' for c in ast.walk(fn) if isinstance(c, ast.Call)) \
                    and 'queue' in txt:
                identities.append((name, 'factor absorption a*(b/c) -> (a*b)/c', br.lineno))
    seen = set()
    for name, what, line in identities:
        if (name, what) in seen:
            continue
        seen.add((name, what))
        inst = f'{name}:{what.split(" ")[0]}-{what.split(" ")[1]}'
        facts = {'function': name, 'identity': what, 'reachable': sorted(reach), 'type_reads': typed[:5]}
        if typed:
            ctx.judge('R1', inst, facts=facts)
        else:
            ctx.violation('R1', inst, f'{mod.relpath}:{line}',
                          f'{name} performs {what}, reachable from SimplifyMapper, and none of the {len(reach)} reachable functions '
                          f'reads any type information: integer operands (truncating division) are rewritten like reals, '
                          f'e.g. (1+1)/2 -> 1/2 + 1/2', facts=facts)
    if not identities:
        ctx.judge('R1', 'no real-only identity reachable', facts={'reachable': sorted(reach)})


MUTANTS = [
    Mutant('repair-type-aware', FILE, "    queue = [expr.numerator]\n",
           "    if getattr(getattr(expr.numerator, 'type', None), 'dtype', None) is not None:\n        return expr\n    queue = [expr.numerator]\n",
           expect=None, quick=True),
]
