"""
C08  Symbolic simplification preserves expression values.

Only one clause has a structural reading: "This includes integer division, which
truncates toward zero".
 R1  type-blindness x real-only identity.  Let F be the functions reachable in
     the call graph of loki/expression/symbolic.py from SimplifyMapper.map_sum /
     map_product / map_quotient.  If F contains a rewrite that is valid over the
     reals only -- (a) *quotient distribution* ``(x + y)/d -> x/d + y/d`` or
     (b) *factor absorption* ``a*(b/c) -> (a*b)/c`` -- while no function in F ever
     looks at an operand type (``.type`` / ``.dtype`` / ``BasicType``), then the
     output cannot depend on integer vs real operands, yet both identities are
     false under truncating division ((1+1)/2 = 1 but 1/2 + 1/2 = 0).
 R2  logical identities: ``map_logical_and`` / ``map_logical_or`` /
     ``map_logical_not`` only ask whether a (simplified) operand *is* the literal
     ``True`` / ``False``.  Each operand is therefore abstracted to T, F or an
     opaque term; the handler bodies are executed abstractly (checker's own
     evaluator, constructors modelled) for every operand tuple of length 1..3
     over {T, F, p, q} and the result must be logically equivalent to the input
     (same value for every assignment of p, q).
 R3  the comparison folder's operator table maps every relational operator to
     the Python operator of the same meaning, and folding happens only when both
     sides are constants.
 R4  factor lists are multisets: in the simplifier functions an accumulator of
     factors / denominators / terms is never extended under a guard that tests
     membership of the very item in that accumulator (``if d not in acc: acc +=
     [d]`` turns (x/y)*(x/y) into x*x/y).
 R5  the sign of a product is decided by the *parity* of its ``-1`` factors: a
     comparison of a count of ``-1`` components must go through ``% 2``.
 R6  power folding: a fold that yields a literal computed with Python's ``**``
     is guarded by a positivity test of the exponent (negative exponents of
     integer bases truncate in Fortran); and a fold that discards the exponent
     requires the exponent to be a literal, except for base 1 (x**k depends on k
     for every other x: 0**0 = 1).
 R8  a minus-prefixed product is unwrapped as a whole: ``is_minus_prefix(x)`` only
     says that the first factor is -1; under that guard "the rest" is
     ``strip_minus_prefix(x)``, never ``x.children[1]`` (which drops the factors
     after the second one).
 R7  the work-list rewrites treat every term on its own: inside
     ``while queue: item = queue.pop(0)`` an expression constructor takes its
     operands from the current item and loop-invariant data; a variable that the
     loop re-assigns from itself (a "running" denominator) makes the result of one
     term depend on the terms processed before it.
Not decided: every other rewrite (literal folding, coefficient collection) --
value-level, not structural.
"""
import ast

from sa import exprs as X
from sa.model import AnalysisError
from sa.mutate import Mutant

PROP = 'C08'

META = dict(
    technique='call-graph reachability inside the simplifier module + structural recognition of two real-only rewrite shapes + '
              'type-blindness (no read of type information anywhere on the reachable code); abstract execution of the three logical '
              'handlers over the finite operand abstraction {T, F, opaque p, q} with a truth-table equivalence check; operator-table check',
    level='Decides one necessary condition of the integer-division clause: a simplifier that distributes or re-associates '
          'division must consult operand types somewhere; if no reachable function does, integer quotients are rewritten like '
          'real ones; and the logical-operator / constant-comparison folding exactly (finite abstraction). Does NOT decide the '
          'arithmetic rewrites (literal folding, coefficient collection, powers).',
    note='Rewrite shapes are recognised syntactically (loop building one Quotient per queued term; Quotient branch that splits '
         'numerator/denominator into a factor queue).',
    ref='DESIGN.md section 3, C08',
)

FILE = 'loki/expression/symbolic.py'
ROOTS = ['map_sum', 'map_product', 'map_quotient']
TYPE_READS = {'type', 'dtype', 'is_integer', 'kind'}


def _callees(fnode, mod):
    out = set()
    for n in ast.walk(fnode):
        if isinstance(n, ast.Call) and isinstance(n.func, ast.Name) and n.func.id in mod.functions:
            out.add(n.func.id)
    return out


def run(ctx):
    m = ctx.model
    mod = m.module_by_path(FILE)
    ctx.rule('R1', 'reachable(SimplifyMapper.map_sum/product/quotient) contains quotient distribution or factor absorption '
                   '=> some reachable function reads operand type information')
    S = mod.classes.get('SimplifyMapper')
    if S is None:
        raise AnalysisError('SimplifyMapper vanished')
    reach, work = set(), []
    roots = []
    for r in ROOTS:
        f = S.function(r)
        if f is None:
            raise AnalysisError(f'SimplifyMapper.{r} vanished')
        roots.append(f.node)
        work += list(_callees(f.node, mod))
    while work:
        n = work.pop()
        if n in reach:
            continue
        reach.add(n)
        work += list(_callees(mod.functions[n].node, mod))
    ctx.floor('R1', 'functions reachable from the simplifier handlers', len(reach), 6)
    typed = []
    for fn in [mod.functions[n].node for n in reach] + roots:
        for n in ast.walk(fn):
            if isinstance(n, ast.Attribute) and n.attr in TYPE_READS:
                typed.append(f'{fn.name}:{ast.unparse(n)}')
            if isinstance(n, ast.Name) and n.id in ('BasicType', 'SymbolAttributes'):
                typed.append(f'{fn.name}:{n.id}')
    identities = []
    for name in sorted(reach):
        fn = mod.functions[name].node
        par = fn.args.args[0].arg if fn.args.args else None
        # (a) quotient distribution: inside a loop, Quotient(<term>, <param>.denominator ...) is appended per term
        for loop in [n for n in ast.walk(fn) if isinstance(n, (ast.While, ast.For))]:
            for c in ast.walk(loop):
                if isinstance(c, ast.Call) and X.call_name_of(c) == 'Quotient' and len(c.args) == 2 and par \
                        and f'{par}.denominator' in ast.unparse(c.args[1]):
                    identities.append((name, 'quotient distribution (x + y)/d -> x/d + y/d', c.lineno))
                    break
        # (b) factor absorption: a Quotient factor is split into numerator (queued as factor) and denominator (collected)
        for br in [n for n in ast.walk(fn) if isinstance(n, ast.If) and 'Quotient' in ast.unparse(n.test) and 'isinstance' in ast.unparse(n.test)]:
            txt = ' '.join(ast.unparse(s) for s in br.body)
            if '.numerator' in txt and '.denominator' in txt and any(isinstance(s, (ast.Assign, ast.AugAssign)) for s in br.body) \
                    and any(X.call_name_of(c) == 'Quotient' for c in ast.walk(fn) if isinstance(c, ast.Call)) \
                    and 'queue' in txt:
                identities.append((name, 'factor absorption a*(b/c) -> (a*b)/c', br.lineno))
    seen = set()
    for name, what, line in identities:
        if (name, what) in seen:
            continue
        seen.add((name, what))
        inst = f'{name}:{what.split(" ")[0]}-{what.split(" ")[1]}'
        facts = {'function': name, 'identity': what, 'reachable': sorted(reach), 'type_reads': typed[:5]}
        if typed:
            ctx.judge('R1', inst, facts=facts)
        else:
            ctx.violation('R1', inst, f'{mod.relpath}:{line}',
                          f'{name} performs {what}, reachable from SimplifyMapper, and none of the {len(reach)} reachable functions '
                          f'reads any type information: integer operands (truncating division) are rewritten like reals, '
                          f'e.g. (1+1)/2 -> 1/2 + 1/2', facts=facts)
    if not identities:
        ctx.judge('R1', 'no real-only identity reachable', facts={'reachable': sorted(reach)})

    _logic_rules(ctx, S)
    arithmetic_shape_rules(ctx, 'R4', 'R5', 'R6')
    loop_carried_operands(ctx, 'R7')
    minus_prefix_unwrapping(ctx, 'R8')


def minus_prefix_unwrapping(ctx, rid):
    """under `is_minus_prefix(x)` the rest of the product is `strip_minus_prefix(x)` / `x.children[1:]`, never `x.children[1]`"""
    m = ctx.model
    mod = m.module_by_path(FILE)
    ctx.rule(rid, 'a minus-prefixed product (-1)*f1*f2*... is unwrapped as a whole: under the guard is_minus_prefix(x) no `x.children[1]`')
    imp = mod.functions.get('is_minus_prefix')
    smp = mod.functions.get('strip_minus_prefix')
    if imp is None or smp is None:
        raise AnalysisError('is_minus_prefix / strip_minus_prefix vanished')
    # the rule only makes sense while a minus prefix may have more than one further factor: strip_minus_prefix handles `children[1:]`
    if 'children[1:]' not in ast.unparse(smp.node):
        raise AnalysisError('strip_minus_prefix no longer handles several remaining factors: rule stale')
    n = 0
    fns = [f for f in mod.functions.values()] + [mem_ for c in mod.classes.values() for mem_ in (c.function(n_) for n_ in c.members) if mem_ is not None]
    seen = set()
    for f in fns:
        for fn in [x for x in ast.walk(f.node) if isinstance(x, ast.FunctionDef)]:
            if id(fn) in seen:
                continue
            seen.add(id(fn))
            if fn.name in ('is_minus_prefix', 'strip_minus_prefix'):
                continue
            for sub, guards in X.nodes_with_guards(fn, lambda x: isinstance(x, ast.Subscript) and isinstance(x.value, ast.Attribute)
                                                   and x.value.attr == 'children' and isinstance(x.slice, ast.Constant) and x.slice.value == 1, early=False):
                v = ast.unparse(sub.value.value)
                if any(g.replace(' ', '') == f'is_minus_prefix({v})' for g in guards):
                    n += 1
                    ctx.violation(rid, f'{fn.name}:second-child-only', f'{mod.relpath}:{sub.lineno}',
                                  f'`{ast.unparse(sub)}` under `is_minus_prefix({v})` takes the second child for "the rest of the product": a '
                                  f'minus prefix may be followed by several factors ((-1)*b*c), all but the first of which are dropped -- '
                                  f'a + 3*((-1)*b*c) becomes a - 3*b')
            n += sum(1 for c in ast.walk(fn) if isinstance(c, ast.Call) and X.call_name_of(c) == 'is_minus_prefix')
    ctx.floor(rid, 'uses of is_minus_prefix', n, 6)
    if not any(f_.rule == rid for f_ in ctx.findings):
        ctx.judge(rid, 'minus prefixes are unwrapped as a whole')


def loop_carried_operands(ctx, rid):
    """work-list rewrites treat every term independently: no loop-carried scalar flows into a constructed term"""
    m = ctx.model
    mod = m.module_by_path(FILE)
    ctx.rule(rid, 'work-list loops of the rewrites (while <list>: item = <list>.pop(..)): an expression constructor inside the loop takes its '
                  'operands from the current item and loop-invariant data only -- no variable that is re-assigned from itself in the loop')
    n = 0
    for f in mod.functions.values():
        for w in [x for x in ast.walk(f.node) if isinstance(x, ast.While) and isinstance(x.test, ast.Name)]:
            wl = w.test.id
            pops = [a for a in ast.walk(w) if isinstance(a, ast.Assign) and isinstance(a.value, ast.Call) and isinstance(a.value.func, ast.Attribute)
                    and a.value.func.attr == 'pop' and ast.unparse(a.value.func.value) == wl]
            if not pops:
                continue
            n += 1
            item = pops[0].targets[0].id if isinstance(pops[0].targets[0], ast.Name) else None
            # loop-carried scalars: re-assigned inside the loop from an expression that reads the same name, and not a list that only collects
            carried = {}
            for a in ast.walk(w):
                if isinstance(a, ast.Assign) and len(a.targets) == 1 and isinstance(a.targets[0], ast.Name):
                    t = a.targets[0].id
                    if t in (wl, item):
                        continue
                    if any(isinstance(x, ast.Name) and x.id == t for x in ast.walk(a.value)) and not isinstance(a.value, (ast.List, ast.ListComp)) \
                            and not (isinstance(a.value, ast.BinOp) and isinstance(a.value.op, ast.Add) and any(isinstance(s_, ast.List) for s_ in (a.value.left, a.value.right))):
                        carried[t] = a
            bad = []
            for c in ast.walk(w):
                if isinstance(c, ast.Call) and (X.dotted_attr(c.func) or getattr(c.func, 'id', '') or '').split('.')[-1] in ('Quotient', 'Product', 'Sum', 'Power'):
                    used = {x.id for x in ast.walk(c) if isinstance(x, ast.Name)} & set(carried)
                    if used:
                        bad.append((c, sorted(used)))
            inst = f'{f.name}:work-list over {wl}'
            if bad:
                c, used = bad[0]
                ctx.violation(rid, f'{f.name}:loop-carried-operand', f'{mod.relpath}:{c.lineno}',
                              f'`{ast.unparse(c)[:80]}` inside the work-list loop uses `{used[0]}`, which the loop re-assigns from itself '
                              f'(`{ast.unparse(carried[used[0]])[:70]}`): what one term contributed leaks into the terms processed after it, e.g. '
                              f'(a/b + c)/d becomes a/(b*d) + c/(b*d) instead of a/(b*d) + c/d', instance=inst)
            else:
                ctx.judge(rid, inst, facts={'carried': sorted(carried)})
    ctx.floor(rid, 'work-list loops', n, 1)


def arithmetic_shape_rules(ctx, r_multiset, r_parity, r_power):
    """shape rules of the arithmetic rewrites (shared with C09, whose symbolic comparisons are decided on simplified differences)"""
    m = ctx.model
    mod = m.module_by_path(FILE)
    ctx.rule(r_multiset, 'no accumulator of factors / terms is extended under a membership test of the item in that accumulator')
    ctx.rule(r_parity, 'counts of -1 factors are compared modulo 2')
    ctx.rule(r_power, 'map_power: literal results of `**` only under exponent > 0; exponent-discarding folds only for literal exponents or base 1')
    fns = [f for f in mod.functions.values()] + [mem_ for c in mod.classes.values() for mem_ in
                                                 (c.function(n_) for n_ in c.members) if mem_ is not None]
    nacc = npar = 0
    for f in fns:
        for site, guards in X.nodes_with_guards(f.node, lambda x: isinstance(x, (ast.AugAssign, ast.Call))):
            acc = item = None
            if isinstance(site, ast.AugAssign) and isinstance(site.op, ast.Add) and isinstance(site.target, ast.Name) \
                    and isinstance(site.value, (ast.List, ast.Tuple)) and len(site.value.elts) == 1:
                acc, item = site.target.id, ast.unparse(site.value.elts[0])
            elif isinstance(site, ast.Call) and isinstance(site.func, ast.Attribute) and site.func.attr == 'append' \
                    and isinstance(site.func.value, ast.Name) and len(site.args) == 1:
                acc, item = site.func.value.id, ast.unparse(site.args[0])
            if acc is None:
                continue
            nacc += 1
            dedup = [g for g in guards if g.replace(' ', '') in (f'{item}notin{acc}'.replace(' ', ''), f'not({item}in{acc})'.replace(' ', ''),
                                                                f'not{item}in{acc}'.replace(' ', ''))]
            inst = f'{f.qualname}:{acc}+={item}'
            if dedup:
                ctx.violation(r_multiset, f'{f.qualname}:{acc}:deduplicated', f'{mod.relpath}:{site.lineno}',
                              f'`{acc}` collects the factors / denominators of one product or the terms of one sum, but `{item}` is only '
                              f'added `if {dedup[0]}`: equal factors are dropped ((x/y)*(x/y) becomes x*x/y)', instance=inst)
            else:
                ctx.judge(r_multiset, inst, nontrivial=False)
        for c in ast.walk(f.node):
            if isinstance(c, ast.Compare) and len(c.ops) == 1:
                txt = ast.unparse(c.left)
                counts = ('== -1' in txt and 'sum(' in txt) or '.count(-1)' in txt
                if not counts:
                    continue
                npar += 1
                inst = f'{f.qualname}:{ast.unparse(c)[:50]}'
                if isinstance(c.left, ast.BinOp) and isinstance(c.left.op, ast.Mod) and ast.unparse(c.left.right) == '2':
                    ctx.judge(r_parity, inst)
                else:
                    ctx.violation(r_parity, f'{f.qualname}:sign-by-count', f'{mod.relpath}:{c.lineno}',
                                  f'`{ast.unparse(c)}` decides the sign of a product from the number of its -1 factors without `% 2`: '
                                  f'three negated factors lose their minus sign')
    ctx.floor(r_multiset, 'accumulator extensions in the simplifier', nacc, 10)
    ctx.floor(r_parity, 'sign decisions from -1 counts', npar, 1)
    # power folding
    S = mod.classes.get('SimplifyMapper')
    mp = S.function('map_power')
    par = [a.arg for a in mp.node.args.args][1]
    bn = (X.names_assigned_from(mp.node, f'self.rec({par}.base') or ['base'])[0]
    en = (X.names_assigned_from(mp.node, f'self.rec({par}.exponent') or ['exponent'])[0]
    bv = (X.names_assigned_from(mp.node, f'{bn}.value') or ['base_value'])[0]
    ev_ = (X.names_assigned_from(mp.node, f'{en}.value') or ['exponent_value'])[0]
    nret = 0
    for ret, guards in X.nodes_with_guards(mp.node, lambda x: isinstance(x, ast.Return) and x.value is not None, early=False):
        rtxt = ast.unparse(ret.value)
        if rtxt == f'sym.Power({bn}, {en})':
            continue
        nret += 1
        gt = ' and '.join(guards)
        inst = f'map_power:return {rtxt[:40]}'
        if '**' in rtxt:
            ok = f'{ev_} > 0' in gt or f'{ev_} >= 0' in gt
            (ctx.judge(r_power, inst, facts={'guards': guards}) if ok else
             ctx.violation(r_power, 'map_power:negative-exponent-fold', f'{mod.relpath}:{ret.lineno}',
                           f'`{rtxt}` is computed with Python\'s ** under `{gt}`, which admits negative exponents: 2**(-2) is folded to the '
                           f'real 0.25 where Fortran integer arithmetic gives 0', facts={'guards': guards}))
            continue
        mentions_exp = any(isinstance(x, ast.Name) and x.id in (en, ev_) for x in ast.walk(ret.value))
        if not mentions_exp:
            import re as _re
            lit_locals = set(X.names_assigned_from(mp.node, 'Literal'))
            literal_exp = any((m_ := _re.search(r'isinstance\(%s, ([^)]*\)?)\)' % _re.escape(en), g_)) and
                              ('Literal' in m_.group(1) or m_.group(1).strip() in lit_locals) for g_ in guards)
            base_one = f'{bv} == 1' in gt
            if literal_exp or base_one:
                ctx.judge(r_power, inst, facts={'guards': guards})
            else:
                ctx.violation(r_power, 'map_power:exponent-discarded', f'{mod.relpath}:{ret.lineno}',
                              f'`return {rtxt}` under `{gt}` discards an exponent that is not known to be a literal: x**k depends on k for '
                              f'every base but 1 (0**k is 1 for k = 0)', facts={'guards': guards})
    ctx.floor(r_power, 'folding returns of map_power', nret, 4)


class _Lit:
    """abstract LogicLiteral: compares equal to the strings 'True' / 'False' like loki's literal does"""
    def __init__(self, v):
        self.v = bool(v) if not isinstance(v, str) else v.lower() == 'true'

    def __eq__(self, other):
        if isinstance(other, str):
            return other.lower() == ('true' if self.v else 'false')
        return isinstance(other, _Lit) and other.v == self.v

    def __hash__(self):
        return hash(self.v)

    def __repr__(self):
        return 'T' if self.v else 'F'


class _Atom:
    def __init__(self, n):
        self.n = n

    def __eq__(self, other):
        return isinstance(other, _Atom) and other.n == self.n

    def __hash__(self):
        return hash(self.n)

    def __repr__(self):
        return self.n


class _Op:
    def __init__(self, kind, children):
        self.kind, self.children = kind, tuple(children)

    def __eq__(self, other):
        return isinstance(other, _Op) and (self.kind, self.children) == (other.kind, other.children)

    def __hash__(self):
        return hash((self.kind, self.children))

    def __repr__(self):
        return f'{self.kind}{self.children}'


def _value(e, val):
    if isinstance(e, _Lit):
        return e.v
    if isinstance(e, _Atom):
        return val[e.n]
    if e.kind == 'and':
        return all(_value(c, val) for c in e.children)
    if e.kind == 'or':
        return any(_value(c, val) for c in e.children)
    return not _value(e.children[0], val)


def _logic_rules(ctx, S):
    import itertools
    import types
    from sa.miniev import run_function, Unknown
    ctx.rule('R2', 'map_logical_and / map_logical_or / map_logical_not: abstract execution over operand tuples of length 1..3 from '
                   '{T, F, p, q}; the result is logically equivalent to the input for every assignment of p, q')
    ctx.rule('R3', 'map_comparison: op_map pairs each relational operator with the Python operator of the same meaning; folding is '
                   'guarded by is_constant(left) and is_constant(right)')
    sym = types.SimpleNamespace(
        LogicLiteral=_Lit, LogicalAnd=lambda ch: _Op('and', ch), LogicalOr=lambda ch: _Op('or', ch), LogicalNot=lambda c: _Op('not', (c,)))
    simp = types.SimpleNamespace(LogicEvaluation=1)
    me = types.SimpleNamespace(rec=lambda x, *a, **k: x, enabled_simplifications=1)
    dom = [_Lit(True), _Lit(False), _Atom('p'), _Atom('q')]
    n2 = 0
    for hn, kind in (('map_logical_and', 'and'), ('map_logical_or', 'or'), ('map_logical_not', 'not')):
        f = S.function(hn)
        if f is None:
            raise AnalysisError(f'SimplifyMapper.{hn} vanished')
        par = [a.arg for a in f.node.args.args][1]
        bad = None
        lens = (1,) if kind == 'not' else (1, 2, 3)
        for ln in lens:
            for tup in itertools.product(dom, repeat=ln):
                inp = _Op(kind, tup)
                node = types.SimpleNamespace(children=tup, child=tup[0])
                env = {'self': me, par: node, 'sym': sym, 'Simplification': simp, 'args': (), 'kwargs': {}}
                try:
                    out = run_function(f.node, env)
                except Unknown as u:
                    raise AnalysisError(f'SimplifyMapper.{hn} uses `{u}`, outside the evaluated fragment')
                n2 += 1
                if not isinstance(out, (_Lit, _Atom, _Op)):
                    bad = bad or (tup, out, 'not an expression')
                    continue
                for p_, q_ in itertools.product((True, False), repeat=2):
                    val = {'p': p_, 'q': q_}
                    if _value(inp, val) != _value(out, val):
                        bad = bad or (tup, out, f'p={p_}, q={q_}')
        inst = f'SimplifyMapper.{hn}:equivalence'
        if bad:
            ctx.violation('R2', inst, f.where,
                          f'{hn} rewrites {kind}{bad[0]} to {bad[1]!r}, which has a different truth value for {bad[2]}',
                          facts={'input': repr(bad[0]), 'output': repr(bad[1])})
        else:
            ctx.judge('R2', inst, facts={'operand_tuples_evaluated': 84 if kind != 'not' else 4})
    ctx.floor('R2', 'abstract executions of the logical handlers', n2, 150)
    # ---- R3
    mc = S.function('map_comparison')
    table = None
    for n in ast.walk(mc.node):
        if isinstance(n, ast.Assign) and isinstance(n.value, ast.Dict) and n.value.keys and all(
                isinstance(k, ast.Constant) and k.value in ('==', '!=', '<', '<=', '>', '>=') for k in n.value.keys):
            table = {ast.literal_eval(k): ast.unparse(v).split('.')[-1] for k, v in zip(n.value.keys, n.value.values)}
    want = {'==': 'eq', '!=': 'ne', '<': 'lt', '<=': 'le', '>': 'gt', '>=': 'ge'}
    if table is None:
        raise AnalysisError('SimplifyMapper.map_comparison: op_map not found')
    for k, v in want.items():
        inst = f'map_comparison:op_map[{k}]'
        if table.get(k) == v:
            ctx.judge('R3', inst)
        else:
            ctx.violation('R3', inst, mc.where, f'op_map maps `{k}` to operator.{table.get(k)} (expected operator.{v}): constant '
                          f'comparisons are folded to the wrong truth value', facts={'table': table})
    guards = [g for _, gs in X.nodes_with_guards(mc.node, lambda x: isinstance(x, ast.Call) and X.call_name_of(x) == 'LogicLiteral') for g in gs]
    par = [a.arg for a in mc.node.args.args][1]
    ln = (X.names_assigned_from(mc.node, f'self.rec({par}.left') or ['left'])[0]
    rn = (X.names_assigned_from(mc.node, f'self.rec({par}.right') or ['right'])[0]
    ok = any(f'is_constant({ln}) and is_constant({rn})' in g for g in guards)
    (ctx.judge('R3', 'map_comparison:folds-constants-only', facts={'guards': sorted(set(guards))}) if ok else
     ctx.violation('R3', 'map_comparison:folds-constants-only', mc.where, 'comparison folding is not guarded by both sides being constant'))


MUTANTS = [
    Mutant('minus-prefix-second-child', FILE, "            value, has_float, component = _process(strip_minus_prefix(child))", "            value, has_float, component = _process(child.children[1])",
           expect=('R8', 'second-child-only')),
    Mutant('merged-denominator-leaks', FILE, "    queue = [expr.numerator]\n    done = []\n",
           "    queue = [expr.numerator]\n    denominator = expr.denominator\n    done = []\n",
           also=[(FILE, "            done += [distribute_quotient(sym.Quotient(item.numerator, item.denominator * expr.denominator))]",
                  "            denominator = item.denominator * denominator\n            done += [distribute_quotient(sym.Quotient(item.numerator, denominator))]"),
                 (FILE, "            done += [sym.Quotient(item, expr.denominator)]", "            done += [sym.Quotient(item, denominator)]")],
           expect=('R7', 'loop-carried-operand')),
    Mutant('power-fold-any-exponent', FILE, "                if isinstance(base, literal_types) and exponent_value > 0 and float(exponent_value).is_integer():",
           "                if isinstance(base, literal_types) and float(exponent_value).is_integer():", expect=('R6', 'negative-exponent-fold')),
    Mutant('denominators-deduplicated', FILE, "            denominator += [item.denominator]\n", "            if item.denominator not in denominator:\n                denominator += [item.denominator]\n",
           expect=('R4', 'deduplicated')),
    Mutant('sign-by-count-one', FILE, "is_neg = sum(1 for v in components if v == -1) % 2 == 1", "is_neg = sum(1 for v in components if v == -1) == 1", expect=('R5', 'sign-by-count')),
    Mutant('zero-base-folds', FILE, "            if isinstance(base, literal_types) and base_value == 1:\n                return base\n",
           "            if isinstance(base, literal_types) and base_value == 1:\n                return base\n            if isinstance(base, literal_types) and base_value == 0:\n                return base\n",
           expect=('R6', 'exponent-discarded')),
    Mutant('and-any-true-short-circuits', FILE, "            if any(c == 'False' for c in children):\n                return sym.LogicLiteral('False')\n            if any(c == 'True' for c in children):\n                # Trim all literals and return .true. if all were .true.",
           "            if any(c == 'False' for c in children):\n                return sym.LogicLiteral('False')\n            if all(c == 'True' for c in children):\n                return sym.LogicLiteral('True')\n            if any(c == 'True' for c in children):\n                return children[0]\n            if any(c == 'True' for c in children):\n                # Trim all literals and return .true. if all were .true.",
           expect=('R2', 'map_logical_and')),
    Mutant('or-empty-becomes-true', FILE, "return sym.LogicalOr(children) if len(children) > 0 else sym.LogicLiteral('False')", "return sym.LogicalOr(children) if len(children) > 0 else sym.LogicLiteral('True')",
           expect=('R2', 'map_logical_or')),
    Mutant('not-of-true-is-true', FILE, "            if child == 'True':\n                return sym.LogicLiteral(False)", "            if child == 'True':\n                return sym.LogicLiteral(True)",
           expect=('R2', 'map_logical_not')),
    Mutant('neutral-and-early-all-true', FILE, "            if any(c == 'False' for c in children):\n                return sym.LogicLiteral('False')\n            if any(c == 'True' for c in children):\n                # Trim all literals and return .true. if all were .true.",
           "            if any(c == 'False' for c in children):\n                return sym.LogicLiteral('False')\n            if all(c == 'True' for c in children):\n                return sym.LogicLiteral('True')\n            if any(c == 'True' for c in children):\n                # Trim all literals and return .true. if all were .true.",
           expect=None),
    Mutant('op-map-swapped', FILE, "'<': _op.lt, '<=': _op.le}", "'<': _op.le, '<=': _op.lt}", expect=('R3', 'op_map')),
    Mutant('repair-type-aware', FILE, "    queue = [expr.numerator]\n",
           "    if getattr(getattr(expr.numerator, 'type', None), 'dtype', None) is not None:\n        return expr\n    queue = [expr.numerator]\n",
           expect=None, quick=True),
]
