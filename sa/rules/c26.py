"""
C26  Dataflow def/use/live sets over-approximate actual reads and writes.

Decided (structural necessary conditions of the over-approximation):
 R1  attacher totality: for every IR node class the handler dispatched in the
     dataflow attacher is one defined by the attacher and funnels into
     ``visit_Node`` (which stores the three sets).  A node class handled by an
     inherited ``Transformer`` handler gets no sets at all.
 R2  field flow: every expression/body field of a node class flows (may-flow
     over assignments inside the handler) into the ``uses_symbols`` /
     ``defines_symbols`` handed to ``visit_Node``.
 R3  the intent filters of ``visit_CallStatement`` partition the intent domain
     {none, in, out, inout}: everything but ``in`` is a potential write,
     everything but ``out`` a potential read.
 R4  sequencing/merge shape: ``_visit_body`` accumulates ``uses`` *before*
     ``defines`` (used-before-defined), and branch nodes union the defines of
     all their bodies.
 R5  alternatives are not chained: in handlers of nodes with mutually exclusive
     bodies (IF/ELSE, SELECT CASE, WHERE/ELSEWHERE) the reads of one alternative
     are not reduced by the writes of a sibling alternative (no ``defines=``
     hand-over between alternatives, no subtraction of sibling defines).
 R6  kill-set provenance in ``visit_CallStatement``: the symbols removed from
     the call's defines (array subscripts) derive from the out/inout actuals only.
 R7  what a memory query excludes is one occurrence, not a name: the argument of
     ``size`` / ``lbound`` / ``ubound`` / ``present`` is not a read, but the handlers
     must not remove it from the used symbols by *equality* (``v not in
     query_args``) -- that also removes every genuine read of the same variable in
     the expression (``m = sum(a)/size(a)``) -- nor filter a set whose subscripts
     have already been stripped.  The exclusion is by identity of the queried
     occurrence (first parameter of the query call) only.
 R8  a DO WHILE condition is read before anything in the body runs: its symbols
     enter ``uses`` before the body is visited (not ``condition - defines``
     afterwards: the condition is evaluated on entry, also for zero iterations).
 R9  every subscript on the left-hand side is a read: ``_symbols_from_lhs_expr``
     takes the uses from the subscripts of the assigned variable *and of its
     parents* (``t(i)%v(j) = ..`` reads ``i`` and ``j``).
Not decided: aliasing, array sections, interprocedural effects.
"""
import ast

from sa import dispatch as D, exprs as X
from sa.model import AnalysisError, NOFOLD
from sa.mutate import Mutant

PROP = 'C26'

META = dict(
    technique='static visitor dispatch totality + intra-procedural may-flow (taint) from node fields to the def/use sinks; finite-domain evaluation of the intent filters',
    level='Decides structural necessary conditions of the over-approximation: every IR node class (47) is handled by a dataflow handler that funnels into visit_Node; every expression/body field flows into uses/defines; the intent filters cover {none,in,out,inout}; sequencing (uses before defines) and union merges. Does NOT decide aliasing, array sections or interprocedural effects.',
    note='May-flow is flow-insensitive inside one handler; exemption table (fields naming entities) in sa/rules/c26.py.',
    ref='DESIGN.md section 3, C26',
)
FILE = 'loki/analyse/dataflow_analysis.py'

EXEMPT = {
    ('*', 'pragma'): 'attached pragma metadata', ('*', 'pragma_post'): 'attached pragma metadata',
    ('*', 'comment'): 'inline comment metadata', ('CommentBlock', 'comments'): 'comments',
    ('CallStatement', 'name'): 'names the procedure, no data access',
    ('Interface', 'spec'): 'names a generic interface',
    ('ProcedureDeclaration', 'symbols'): 'declares procedure entities', ('ProcedureDeclaration', 'interface'): 'names an interface',
    ('ImplicitStmt', 'text'): 'names entities', ('SaveStmt', 'text'): 'names entities',
    ('PublicStmt', 'text'): 'names entities', ('PrivateStmt', 'text'): 'names entities',
    ('CommonStmt', 'text'): 'names entities',
    ('StopStmt', 'text'): 'validator coerces to a literal', ('ExitStmt', 'text'): 'validator coerces to a literal',
    ('StatementFunction', 'variable'): 'definition of a statement function: documented as no effect on data flow',
    ('StatementFunction', 'arguments'): 'see StatementFunction.variable', ('StatementFunction', 'rhs'): 'see StatementFunction.variable',
    ('Enumeration', 'symbols'): 'declares named constants',
    ('FormatStmt', 'values'): 'format items, no data access',
    ('VariableDeclaration', 'dimensions'): 'the DIMENSION attribute is copied onto every declared symbol and read via o.symbols',
    ('Import', 'rename_list'): 'names entities',
    ('TypeDef', 'body'): 'covered by R1 (TypeDef has no attacher handler)',
    ('DataDeclaration', 'values'): 'DATA values are constant expressions',
}
BODY_FIELDS = {'body', 'else_body', 'bodies', 'default'}
# bodies that hold declarations (procedure interfaces), not executable statements: one sink suffices
DECL_BODIES = {('Interface', 'body')}


def _fields(m, c):
    trav = D.traversable(m, c)
    out = list(trav)
    for n, (a, d, o) in m.dataclass_fields(c).items():
        if n not in out and D.annotation_mentions(a, {'Expression', 'Node'}):
            out.append(n)
    return out


def _sink_flows(f):
    """attrs of the node parameter flowing into defines_symbols / uses_symbols of visit_Node calls"""
    par = X.param_name(f)
    taint, flows = X.attr_flows(f.node, par)
    res = {'defines_symbols': set(), 'uses_symbols': set()}
    ncalls = 0
    for n in ast.walk(f.node):
        if isinstance(n, ast.Call) and isinstance(n.func, ast.Attribute) and n.func.attr == 'visit_Node':
            ncalls += 1
            for kw in n.keywords:
                if kw.arg in res:
                    res[kw.arg] |= flows(kw.value)
    return res, ncalls


def check_alternatives(ctx, A, rule='R5'):
    """alternatives of one construct are analysed independently (shared with C27, whose loop query is uses & defines)"""
    ctx.rule(rule, 'handlers of nodes with alternative bodies never pass the defines of one alternative as kill set to '
                   'another (_visit_body(..., defines=...)) and never subtract body defines from uses')
    for hn in ('visit_Conditional', 'visit_MultiConditional', 'visit_MaskedStatement'):
        f = A.function(hn)
        # names bound to the `defines` result (2nd element) of _visit_body calls, and accumulators thereof
        dnames = set()
        for n in ast.walk(f.node):
            if isinstance(n, ast.Assign) and isinstance(n.targets[0], ast.Tuple) and isinstance(n.value, ast.Call) \
                    and X.dotted_attr(n.value.func) == 'self._visit_body' and len(n.targets[0].elts) == 3:
                t = n.targets[0].elts[1]
                if isinstance(t, ast.Name):
                    dnames.add(t.id)
        changed = True
        while changed:
            changed = False
            for n in ast.walk(f.node):
                if isinstance(n, (ast.Assign, ast.AugAssign)):
                    tgt = n.targets[0] if isinstance(n, ast.Assign) else n.target
                    if isinstance(tgt, ast.Name) and tgt.id not in dnames and X._names_in(n.value) & dnames:
                        if not (isinstance(n.value, ast.Call) and X.dotted_attr(n.value.func) == 'self._visit_body'):
                            dnames.add(tgt.id)
                            changed = True
        calls = [c for c in ast.walk(f.node) if isinstance(c, ast.Call) and X.dotted_attr(c.func) == 'self._visit_body']
        if not calls:
            raise AnalysisError(f'{hn}: no _visit_body call')
        bad = [c for c in calls if any(k.arg == 'defines' for k in c.keywords)]
        subs = [n for n in ast.walk(f.node) if ((isinstance(n, ast.BinOp) and isinstance(n.op, ast.Sub) and X._names_in(n.right) & dnames)
                                                 or (isinstance(n, ast.AugAssign) and isinstance(n.op, ast.Sub) and X._names_in(n.value) & dnames))]
        if bad:
            ctx.violation(rule, f'{hn}:defines-handover', f'{f.module.relpath}:{bad[0].lineno}',
                          f'`{ast.unparse(bad[0])}` hands the symbols defined by earlier alternatives to the next alternative as '
                          f'kill set: a variable written in one branch and read in another (mutually exclusive) branch disappears '
                          f'from uses_symbols', facts={'defines_names': sorted(dnames)})
        elif subs:
            ctx.violation(rule, f'{hn}:defines-subtracted', f'{f.module.relpath}:{subs[0].lineno}',
                          f'`{ast.unparse(subs[0])}` removes symbols defined in a sibling alternative from the uses of this one')
        else:
            ctx.judge(rule, hn, facts={'visit_body_calls': len(calls), 'defines_names': sorted(dnames)})



def run(ctx):
    m = ctx.model
    ctx.rule('R1', 'for every IR node class, static dispatch in DataflowAnalysisAttacher and DataflowAnalysis._Attacher '
                   'selects a handler defined by the attacher; every return of that handler is self.visit_Node(...) '
                   'or a super() delegation')
    ctx.rule('R2', 'every expression/body field of each node class may-flows into uses_symbols/defines_symbols of '
                   'the visit_Node call of its handler (body fields into both)')
    ctx.rule('R3', 'intent filters in visit_CallStatement: defines filter accepts {none,out,inout}, uses filter accepts '
                   '{none,in,inout}; unenriched branch puts all arguments in both sets')
    ctx.rule('R4', '_visit_body updates uses (minus defines so far) before adding the statement defines; branch nodes '
                   'pass the union of all body defines')
    A = m.get_class(FILE, 'DataflowAnalysisAttacher')
    A2 = m.get_class(FILE, 'DataflowAnalysis._Attacher')
    nodes = D.ir_node_classes(m)
    ctx.floor('R1', 'IR node classes', len(nodes), 45)
    own = {A, A2}
    for V in (A, A2):
        handlers = D.visitor_handlers(m, V)
        for c in nodes:
            f, key = D.visitor_dispatch(m, V, c, handlers)
            inst = f'{V.name}x{c.name}'
            if f is None or f.cls not in own:
                ctx.violation('R1', f'{c.name}', (f.where if f else V.where),
                              f'{c.name} is dispatched to {f.qualname if f else None}, not to a dataflow handler: '
                              f'no live/defines/uses sets are stored for it (and attaching raises/skips)',
                              facts={'visitor': V.name, 'key': key}, instance=inst)
                continue
            # every return funnels into visit_Node
            bad = []
            if f.name != 'visit_Node':
                rets = [n for n in ast.walk(f.node) if isinstance(n, ast.Return)]
                for r in rets:
                    v = r.value
                    okc = isinstance(v, ast.Call) and isinstance(v.func, ast.Attribute) and \
                        (v.func.attr == 'visit_Node' or X.dotted_attr(v.func).startswith('super().visit_'))
                    if not okc:
                        bad.append(ast.unparse(r))
                if not rets:
                    bad.append('<no return>')
            if bad:
                ctx.violation('R1', f'{f.qualname}:return', f.where,
                              f'{f.qualname} has an exit that does not go through visit_Node: {bad[0]}', instance=inst)
            else:
                ctx.judge('R1', inst, facts={'handler': f.qualname, 'key': key})
    # visit_Node itself stores the three sets
    vn = A.function('visit_Node')
    stored = set()
    for n in ast.walk(vn.node):
        if isinstance(n, ast.Call) and X.dotted_attr(n.func) == 'o._update':
            stored |= {k.arg for k in n.keywords}
    need = {'_live_symbols', '_defines_symbols', '_uses_symbols'}
    if need <= stored:
        ctx.judge('R1', 'DataflowAnalysisAttacher.visit_Node:stores', facts={'stored': sorted(stored)})
    else:
        ctx.violation('R1', 'DataflowAnalysisAttacher.visit_Node:stores', vn.where,
                      f'visit_Node no longer stores {sorted(need - stored)}')
    # the kwargs consulted by visit_Node are the ones handlers pass
    got = {n.args[0].value for n in ast.walk(vn.node) if isinstance(n, ast.Call) and X.dotted_attr(n.func) == 'kwargs.get'
           and n.args and isinstance(n.args[0], ast.Constant)}
    if {'live_symbols', 'defines_symbols', 'uses_symbols'} <= got:
        ctx.judge('R1', 'DataflowAnalysisAttacher.visit_Node:kwargs')
    else:
        ctx.violation('R1', 'DataflowAnalysisAttacher.visit_Node:kwargs', vn.where,
                      f'visit_Node reads {sorted(got)}; handlers pass live_symbols/defines_symbols/uses_symbols')

    # ---- R2
    handlers = D.visitor_handlers(m, A)
    nobl = 0
    for c in nodes:
        f, key = D.visitor_dispatch(m, A, c, handlers)
        if f is None or f.cls not in own:
            continue
        fields = _fields(m, c)
        flows, ncalls = _sink_flows(f)
        for fld in fields:
            inst = f'{c.name}.{fld}'
            ex = EXEMPT.get((c.name, fld)) or EXEMPT.get(('*', fld))
            if ex:
                ctx.judge('R2', inst, nontrivial=False, facts={'exempt': ex})
                continue
            nobl += 1
            d = fld in flows['defines_symbols'] or '*' in flows['defines_symbols']
            u = fld in flows['uses_symbols'] or '*' in flows['uses_symbols']
            facts = {'handler': f.qualname, 'flows_to_defines': d, 'flows_to_uses': u}
            if fld in BODY_FIELDS and (c.name, fld) not in DECL_BODIES:
                ok = d and u
                why = 'nested statements of this body are not summarised into both defines and uses'
            else:
                ok = d or u
                why = 'variables read/written through this field are in neither uses_symbols nor defines_symbols'
            if ok:
                ctx.judge('R2', inst, facts=facts)
            else:
                ctx.violation('R2', inst, f.where, f'{f.qualname} (handler for {c.name}): field {fld} never flows '
                              f'into the sets passed to visit_Node: {why}', facts=facts)
    ctx.floor('R2', 'field-flow obligations', nobl, 40)

    # ---- R3
    cs = A.function('visit_CallStatement')
    if cs is None:
        raise AnalysisError('DataflowAnalysisAttacher.visit_CallStatement vanished')
    filt = {}
    role = {}       # local name -> 'outvals' (feeds the defines of the call) / 'invals' (feeds the uses)
    cands = [n.targets[0].id for n in ast.walk(cs.node) if isinstance(n, ast.Assign) and isinstance(n.value, ast.ListComp)
             and len(n.targets) == 1 and isinstance(n.targets[0], ast.Name) and 'arg_iter' in ast.unparse(n.value.generators[0].iter)]
    vn_ = [c_ for c_ in ast.walk(cs.node) if isinstance(c_, ast.Call) and X.dotted_attr(c_.func) == 'self.visit_Node']
    dname = next((ast.unparse(k.value) for c_ in vn_ for k in c_.keywords if k.arg == 'defines_symbols'), 'defines')
    uname = next((ast.unparse(k.value) for c_ in vn_ for k in c_.keywords if k.arg == 'uses_symbols'), 'uses')
    for nm in cands:
        for lp_ in ast.walk(cs.node):
            if isinstance(lp_, ast.For) and ast.unparse(lp_.iter) == nm and any(
                    isinstance(a_, ast.AugAssign) and ast.unparse(a_.target) == dname for a_ in ast.walk(lp_)):
                role[nm] = 'outvals'
        if nm not in role and any(isinstance(a_, ast.AugAssign) and ast.unparse(a_.target) == uname
                                  and any(isinstance(x_, ast.Name) and x_.id == nm for x_ in ast.walk(a_.value)) for a_ in ast.walk(cs.node)):
            role[nm] = 'invals'
    for n in ast.walk(cs.node):
        if isinstance(n, ast.Assign) and isinstance(n.value, ast.ListComp) and len(n.targets) == 1 \
                and isinstance(n.targets[0], ast.Name) and n.targets[0].id in role:
            comp = n.value.generators[0]
            if 'arg_iter' not in ast.unparse(comp.iter) or len(comp.ifs) != 1:
                raise AnalysisError('visit_CallStatement: unrecognised intent filter form')
            test = comp.ifs[0]
            if not (isinstance(test, ast.Compare) and len(test.ops) == 1 and isinstance(test.ops[0], ast.In)
                    and 'intent' in ast.unparse(test.left) and '.lower()' in ast.unparse(test.left)):
                raise AnalysisError(f'visit_CallStatement: unrecognised intent test {ast.unparse(test)}')
            vals = m.const(cs.module, test.comparators[0])
            if vals is NOFOLD:
                raise AnalysisError('visit_CallStatement: cannot fold intent tuple')
            filt[role[n.targets[0].id]] = {str(v).lower() for v in vals}
    if set(filt) != {'outvals', 'invals'}:
        raise AnalysisError('visit_CallStatement: outvals/invals filters not found')
    domain = {'none', 'in', 'out', 'inout'}      # str(None).lower() == 'none' for a dummy without INTENT
    need_out, need_in = domain - {'in'}, domain - {'out'}
    for name, need in (('outvals', need_out), ('invals', need_in)):
        missing = sorted(need - filt[name])
        extra = sorted(filt[name] - domain)
        for v in missing:
            what = 'potentially written' if name == 'outvals' else 'potentially read'
            ctx.violation('R3', f'visit_CallStatement.{name}:{v}', cs.where,
                          f'arguments whose dummy has intent {v!r} are {what} by the call but the {name} filter '
                          f'{sorted(filt[name])} drops them', facts={'filter': sorted(filt[name])})
        if not missing:
            ctx.judge('R3', f'visit_CallStatement.{name}', facts={'filter': sorted(filt[name])})
        if extra:
            ctx.note(f'{name} filter has values outside the intent domain: {extra}')
    # unenriched branch: uses must include defines (all args potentially read and written)
    orelse_ok = False
    for n in ast.walk(cs.node):
        if isinstance(n, ast.If) and ast.unparse(n.test) == 'o.routine' and n.orelse:
            src = '\n'.join(ast.unparse(s) for s in n.orelse)
            taint, flows = X.attr_flows(ast.Module(body=n.orelse, type_ignores=[]), 'o')
            d = taint.get(dname, set())
            u = taint.get(uname, set())
            orelse_ok = {'arguments', 'kwarguments'} <= d and {'arguments', 'kwarguments'} <= u
    if orelse_ok:
        ctx.judge('R3', 'visit_CallStatement:unenriched-branch')
    else:
        ctx.violation('R3', 'visit_CallStatement:unenriched-branch', cs.where,
                      'without call context not all arguments and keyword arguments reach both defines and uses')

    # ---- R4
    vb = A.function('_visit_body')
    loop = next((n for n in ast.walk(vb.node) if isinstance(n, ast.For)), None)
    if loop is None:
        raise AnalysisError('_visit_body: loop not found')
    idx_uses = idx_defs = None
    uses_stmt = None
    for i, st in enumerate(loop.body):
        if isinstance(st, ast.AugAssign) and isinstance(st.target, ast.Name):
            if st.target.id == 'uses' and idx_uses is None:
                idx_uses, uses_stmt = i, st
            if st.target.id == 'defines' and idx_defs is None:
                idx_defs = i
    if idx_uses is None or idx_defs is None:
        raise AnalysisError('_visit_body: uses/defines accumulation not recognised')
    ok = idx_uses < idx_defs and isinstance(uses_stmt.op, ast.BitOr) and 'uses_symbols' in ast.unparse(uses_stmt.value)
    if ok:
        ctx.judge('R4', '_visit_body:order', facts={'uses_stmt': ast.unparse(uses_stmt)})
    else:
        ctx.violation('R4', '_visit_body:order', vb.where,
                      'uses must be accumulated (|=) before the statement\'s own defines are added, otherwise '
                      'a statement reading and writing x hides the read')
    # what is subtracted from a statement's uses must be the defines so far only
    if isinstance(uses_stmt.value, ast.BinOp) and isinstance(uses_stmt.value.op, ast.Sub):
        sub = ast.unparse(uses_stmt.value.right)
        if sub == 'defines':
            ctx.judge('R4', '_visit_body:kill-set', facts={'subtracted': sub})
        else:
            ctx.violation('R4', '_visit_body:kill-set', vb.where, f'uses are reduced by {sub!r}, expected the defines so far')
    # live set handed to each child = live | defines
    lv = [k.value for n in ast.walk(loop) if isinstance(n, ast.Call) and X.dotted_attr(n.func) == 'self.visit'
          for k in n.keywords if k.arg == 'live_symbols']
    if lv and set(X._names_in(lv[0])) >= {'live', 'defines'} and isinstance(lv[0], ast.BinOp) and isinstance(lv[0].op, ast.BitOr):
        ctx.judge('R4', '_visit_body:live', facts={'live_symbols': ast.unparse(lv[0])})
    else:
        ctx.violation('R4', '_visit_body:live', vb.where, 'children must be visited with live_symbols = live | defines')
    # branch nodes: defines of every body flow to defines_symbols (already R2); additionally no intersection
    for hn in ('visit_Conditional', 'visit_MultiConditional', 'visit_MaskedStatement'):
        f = A.function(hn)
        if f is None:
            raise AnalysisError(f'{hn} vanished')
        inter = [n for n in ast.walk(f.node) if isinstance(n, (ast.BinOp, ast.AugAssign)) and isinstance(n.op, ast.BitAnd)]
        if inter:
            ctx.violation('R4', f'{hn}:merge', f.where, f'branch merge uses intersection: {ast.unparse(inter[0])}')
        else:
            ctx.judge('R4', f'{hn}:merge')

    check_alternatives(ctx, A, 'R5')

    # ---- R6
    ctx.rule('R6', 'in the enriched branch of visit_CallStatement the set filtered out of defines (`dims`) derives only from outvals')
    ifn = [n for n in ast.walk(cs.node) if isinstance(n, ast.If) and ast.unparse(n.test) == 'o.routine']
    if not ifn:
        raise AnalysisError('visit_CallStatement: `if o.routine` not found')
    enr = ast.Module(body=ifn[0].body, type_ignores=[])
    # provenance over local names: which of {outvals, invals} a name derives from
    inv_role = {v_: k_ for k_, v_ in role.items()}
    on_, in_n = inv_role.get('outvals', 'outvals'), inv_role.get('invals', 'invals')
    prov = {on_: {'outvals'}, in_n: {'invals'}}
    changed = True
    while changed:
        changed = False
        for n in ast.walk(enr):
            pairs = []
            if isinstance(n, ast.Assign) and isinstance(n.targets[0], ast.Name) and n.targets[0].id not in (on_, in_n):
                pairs.append((n.targets[0].id, n.value))
            elif isinstance(n, ast.comprehension):
                for t in ast.walk(n.target):
                    if isinstance(t, ast.Name):
                        pairs.append((t.id, n.iter))
            for nm, val in pairs:
                src = set()
                for x in X._names_in(val):
                    src |= prov.get(x, set())
                if src - prov.get(nm, set()):
                    prov[nm] = prov.get(nm, set()) | src
                    changed = True
    filt = [n for n in ast.walk(enr) if isinstance(n, ast.Compare) and isinstance(n.ops[0], (ast.In, ast.NotIn))
            and isinstance(n.comparators[0], ast.Name)]
    kill = {n.comparators[0].id for n in filt}
    if not kill:
        raise AnalysisError('visit_CallStatement: defines filter `not e in <set>` not found')
    for kname in sorted(kill):
        src = prov.get(kname, set())
        if src <= {'outvals'} and src:
            ctx.judge('R6', f'kill set {kname}', facts={'derives_from': sorted(src)})
        else:
            ctx.violation('R6', 'visit_CallStatement:kill-set:dims', cs.where,
                          f'symbols removed from the defines of an enriched call (`{kname}`) derive from {sorted(src)}: a subscript of an '
                          f'intent(in) actual that is also passed to an out/inout dummy is dropped from defines_symbols')
    run_r78(ctx, A)


def run_r78(ctx, A):
    m = ctx.model
    ctx.rule('R7', 'memory-query arguments are excluded by identity of the queried occurrence (first parameter), never by equality / on stripped symbols')
    ctx.rule('R8', 'visit_WhileLoop: the condition symbols are in `uses` before the body is visited')
    n7 = 0
    helper = None
    for name, mem in A.members.items():
        if mem.kind != 'func':
            continue
        txt = ast.unparse(mem.node)
        if '_mem_property_queries' not in txt:
            continue
        n7 += 1
        if name.startswith('visit_'):
            ctx.violation('R7', f'DataflowAnalysisAttacher.{name}:query-exclusion-in-handler', f'{A.module.relpath}:{mem.node.lineno}',
                          f'{name} filters the used symbols against the arguments of memory queries itself; the filters written this way '
                          f'compared by equality (`v not in query_args`), which drops every other read of the queried variable')
            continue
        helper = mem
        # the helper: queried = [c.parameters[0] ...]; result filters by identity
        firsts = [s_ for s_ in ast.walk(mem.node) if isinstance(s_, ast.Subscript) and isinstance(s_.value, ast.Attribute) and s_.value.attr == 'parameters']
        only_first = bool(firsts) and all(isinstance(s_.slice, ast.Constant) and s_.slice.value == 0 for s_ in firsts) and not any(
            isinstance(a_, ast.Attribute) and a_.attr == 'parameters' and not any(a_ is s_.value for s_ in firsts)
            and not isinstance(getattr(a_, 'ctx', None), ast.Store) and not any(isinstance(p_, ast.comprehension) and a_ in list(ast.walk(p_.ifs[0] if p_.ifs else ast.Pass()))
                                                                                for p_ in ast.walk(mem.node)) for a_ in ast.walk(mem.node))
        by_identity = any(isinstance(c_, ast.Compare) and isinstance(c_.ops[0], (ast.Is, ast.IsNot)) for c_ in ast.walk(mem.node))
        qnames = set(X.names_assigned_from(mem.node, '.parameters'))
        by_equality = any(isinstance(c_, ast.Compare) and isinstance(c_.ops[0], (ast.In, ast.NotIn, ast.Eq, ast.NotEq))
                          and any(isinstance(n_, ast.Name) and n_.id in qnames for n_ in ast.walk(c_.comparators[0]))
                          for c_ in ast.walk(mem.node))
        stripped = '_symbols_from_expr' in txt
        if by_identity and not by_equality and not stripped and firsts:
            ctx.judge('R7', f'{name}: exclusion by identity of the queried occurrence', facts={'first_parameter_only': only_first})
        else:
            ctx.violation('R7', f'DataflowAnalysisAttacher.{name}:query-exclusion', f'{A.module.relpath}:{mem.node.lineno}',
                          f'{name} excludes memory-query arguments ' + ('by equality' if by_equality else 'not by identity') +
                          (' on symbols whose subscripts were already stripped' if stripped else '') +
                          ': every genuine read of the queried variable in the same expression disappears from uses_symbols')
    if helper is None and n7 == 0:
        raise AnalysisError('no memory-query handling found in DataflowAnalysisAttacher: rule R7 is stale')
    users = [name for name, mem in A.members.items() if mem.kind == 'func' and name.startswith('visit_') and helper is not None
             and f'self.{helper.name}(' in ast.unparse(mem.node)]
    inhandler = sum(1 for f_ in ctx.findings if f_.rule == 'R7' and 'in-handler' in f_.construct)
    ctx.floor('R7', 'handlers excluding memory-query arguments', len(users) + inhandler, 4)
    for name in users:
        mem = A.members[name]
        # the helper's result must not be filtered again against query arguments, nor be applied to a stripped set
        args = [c_.args[0] for c_ in ast.walk(mem.node) if isinstance(c_, ast.Call) and X.dotted_attr(c_.func) == f'self.{helper.name}' and c_.args]
        bad = [a_ for a_ in args if '_symbols_from_expr' in ast.unparse(a_)]
        (ctx.judge('R7', f'{name} applies the helper to the raw expression') if not bad else
         ctx.violation('R7', f'DataflowAnalysisAttacher.{name}:query-exclusion-on-stripped-symbols', f'{A.module.relpath}:{mem.node.lineno}',
                       f'{name} applies the query exclusion to `{ast.unparse(bad[0])}`, i.e. after the subscripts were stripped'))
    # ---- R9
    ctx.rule('R9', '_symbols_from_lhs_expr: uses come from the dimensions of the variable and of its parents')
    lh = A.function('_symbols_from_lhs_expr')
    if lh is None:
        raise AnalysisError('DataflowAnalysisAttacher._symbols_from_lhs_expr vanished')
    txt = ast.unparse(lh.node)
    reads_dims = 'dimensions' in txt
    reads_parents = any(isinstance(a_, ast.Attribute) and a_.attr in ('parents', 'parent') for a_ in ast.walk(lh.node)) or \
        any(isinstance(c_, ast.Call) and isinstance(c_.func, ast.Name) and c_.func.id == 'getattr' and len(c_.args) >= 2
            and isinstance(c_.args[1], ast.Constant) and c_.args[1].value in ('parents', 'parent') for c_ in ast.walk(lh.node)) or \
        'FindVariables' in txt
    if reads_dims and reads_parents:
        ctx.judge('R9', 'lhs subscripts of the whole parent chain are uses')
    else:
        ctx.violation('R9', 'DataflowAnalysisAttacher._symbols_from_lhs_expr:parent-subscripts', lh.where,
                      'the uses of a left-hand side are taken from the subscripts of the last component only: in t(i)%v(j) = 1. the index i '
                      'of the parent is read but missing from uses_symbols')
    # ---- R8
    wl = A.function('visit_WhileLoop')
    if wl is None:
        raise AnalysisError('DataflowAnalysisAttacher.visit_WhileLoop vanished')
    par = [a.arg for a in wl.node.args.args][1]
    body_calls = [c_ for c_ in ast.walk(wl.node) if isinstance(c_, ast.Call) and X.dotted_attr(c_.func) == 'self._visit_body']
    if not body_calls:
        raise AnalysisError('visit_WhileLoop: body visit not found')
    bc = body_calls[0]
    cond_names = set(X.names_assigned_from(wl.node, f'{par}.condition'))
    uses_kw = next((k.value for k in bc.keywords if k.arg == 'uses'), None)
    ok = uses_kw is not None and (f'{par}.condition' in ast.unparse(uses_kw) or any(isinstance(n_, ast.Name) and n_.id in cond_names for n_ in ast.walk(uses_kw)))
    if ok:
        ctx.judge('R8', 'visit_WhileLoop: condition symbols seed the uses of the body visit')
    else:
        ctx.violation('R8', 'DataflowAnalysisAttacher.visit_WhileLoop:condition-after-body', f'{A.module.relpath}:{bc.lineno}',
                      'the body of a DO WHILE is visited without the condition symbols in `uses`: a condition variable that the body overwrites '
                      '(a convergence flag) is then treated as defined before use and disappears from uses_symbols, although the condition '
                      'is evaluated before the first (and for zero) iterations')


MUTANTS = [
    Mutant('lhs-last-component-only', FILE, "        dimensions = tuple(\n            d for e in (*getattr(expr, 'parents', ()), expr) for d in getattr(e, 'dimensions', None) or ()\n        )\n        uses = cls._symbols_from_expr(dimensions)",
           "        uses = cls._symbols_from_expr(getattr(expr, 'dimensions', ()))", expect=('R9', 'parent-subscripts')),
    Mutant('while-condition-after-body', FILE,
           "        uses = self._symbols_from_expr(o.condition)\n        body, defines, uses = self._visit_body(o.body, live=live, uses=uses, **kwargs)\n        o._update(body=body)\n        return self.visit_Node(o, live_symbols=live, defines_symbols=defines, uses_symbols=uses, **kwargs)\n\n    def visit_Conditional",
           "        body, defines, uses = self._visit_body(o.body, live=live, **kwargs)\n        uses |= self._symbols_from_expr(o.condition) - defines\n        o._update(body=body)\n        return self.visit_Node(o, live_symbols=live, defines_symbols=defines, uses_symbols=uses, **kwargs)\n\n    def visit_Conditional",
           expect=('R8', 'condition-after-body')),
    Mutant('query-exclusion-by-equality', FILE, "        return OrderedSet(v for v in FindVariables(unique=False).visit(expr) if not any(v is q for q in queried))",
           "        return OrderedSet(v for v in FindVariables(unique=False).visit(expr) if v not in queried)", expect=('R7', 'query-exclusion')),
    Mutant('query-exclusion-on-stripped', FILE, "        rset = self._query_free_variables(o.rhs)", "        rset = self._query_free_variables(self._symbols_from_expr(o.rhs))",
           expect=('R7', 'on-stripped-symbols')),
    Mutant('drop-handler', FILE, "    visit_Nullify = visit_Deallocation\n", "", expect=('R2', 'Nullify.variables'), quick=True),
    Mutant('assignment-skips-rhs', FILE,
           "        uses |= self._symbols_from_expr(as_tuple(rset))\n        return self.visit_Node(o, defines_symbols=defines, uses_symbols=uses, **kwargs)",
           "        return self.visit_Node(o, defines_symbols=defines, uses_symbols=uses, **kwargs)",
           expect=('R2', 'Assignment.rhs')),
    Mutant('conditional-forgets-else-defines', FILE,
           "defines_symbols=defines|else_defines, uses_symbols=uses, **kwargs)",
           "defines_symbols=defines, uses_symbols=uses, **kwargs)", expect=('R2', 'Conditional.else_body')),
    Mutant('intent-inout-not-written', FILE, "in ('inout', 'out', 'none')]", "in ('out', 'none')]", expect=('R3', 'outvals:inout')),
    Mutant('intent-none-not-read', FILE, "in ('inout', 'in', 'none')]", "in ('inout', 'in')]", expect=('R3', 'invals:none')),
    Mutant('where-alternatives-chained', FILE, "            _b, _d, uses = self._visit_body(b, live=live, uses=uses, **kwargs)\n            body += (_b,)\n            defines |= _d\n",
           "            _b, defines, uses = self._visit_body(b, live=live, uses=uses, defines=defines, **kwargs)\n            body += (_b,)\n", expect=('R5', 'visit_MaskedStatement')),
    Mutant('allocate-stat-dropped', FILE, "        if o.status_var is not None:\n            defines |= self._symbols_from_expr(o.status_var)\n", "", expect=('R2', 'Allocation.status_var')),
    Mutant('visit-body-order', FILE,
           "            uses |= visited[-1].uses_symbols.copy() - defines\n            defines |= visited[-1].defines_symbols.copy()",
           "            defines |= visited[-1].defines_symbols.copy()\n            uses |= visited[-1].uses_symbols.copy() - defines",
           expect=('R4', '_visit_body:order')),
    Mutant('early-return-skips-sets', FILE,
           "    def visit_Deallocation(self, o, **kwargs):\n",
           "    def visit_Deallocation(self, o, **kwargs):\n        if not o.variables:\n            return o\n",
           expect=('R1', 'visit_Deallocation:return')),
    Mutant('while-loop-condition-dropped', FILE,
           "        uses = self._symbols_from_expr(o.condition)\n        body, defines, uses = self._visit_body(o.body, live=live, uses=uses, **kwargs)",
           "        body, defines, uses = self._visit_body(o.body, live=live, **kwargs)",
           expect=('R2', 'WhileLoop.condition')),
    Mutant('case-branches-sequential', FILE,
           "            _b, _d, uses = self._visit_body(b, live=live, uses=uses, **kwargs)\n            body += (as_tuple(_b),)\n",
           "            _b, _d, _u = self._visit_body(b, live=live, **kwargs)\n            uses |= _u - defines\n            body += (as_tuple(_b),)\n",
           expect=('R5', 'visit_MultiConditional')),
    Mutant('dims-from-invals', FILE, "arrays = [v for v in FindVariables().visit(outvals) if isinstance(v, Array)]",
           "arrays = [v for v in FindVariables().visit(outvals + invals) if isinstance(v, Array)]", expect=('R6', 'kill-set')),
    Mutant('neutral-rename', FILE, "        rset = OrderedSet(v for v in FindVariables().visit(o.rhs) if not v in query_args)",
           "        rset = OrderedSet(vv for vv in FindVariables().visit(o.rhs) if not vv in query_args)", expect=None),
    Mutant('neutral-new-handler', FILE, "    visit_Nullify = visit_Deallocation\n",
           "    visit_Nullify = visit_Deallocation\n\n    def visit_PrintStmt(self, o, **kwargs):\n        uses = self._symbols_from_expr(o.values)\n        return self.visit_Node(o, uses_symbols=uses, **kwargs)\n",
           expect=None),
]
