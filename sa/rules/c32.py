"""
C32  Constant propagation and code removal preserve behaviour.

 R1  "unused" means unused: ``get_used_or_defined_symbols`` takes the routine
     body's dataflow ``uses_symbols | defines_symbols``; every node field through
     which a variable can be referenced but which does not flow into those sets
     (re-evaluation of the C26 field-flow / totality rules on the current tree)
     is a way for a *used* variable to be classified unused and have its
     declaration / dummy argument removed.
 R2  dead-branch removal keeps the live branch: exact truth table of
     ``RemoveDeadCodeTransformer.visit_Conditional`` over (condition == 'True',
     condition == 'False').
 R3  dummy-argument removal and call-argument removal agree on positions: both use
     the index in ``routine.arguments``; keyword arguments are matched by
     lower-cased name.
 R4  constant propagation kills what is redefined (gen/kill discipline of the
     constants map): in ``ConstantPropagationTransformer.visit_Loop`` the loop
     variable is removed from the map the body is visited with *before* the body
     is visited, and from the outer map after the loop; in ``visit_Assignment``
     every exit that keeps the statement is preceded by an update or an
     invalidation of the entry of the assigned variable.  Otherwise a value the
     variable had before (``i = 5; do i = 1, n; a(i) = i``) is substituted for a
     variable that has since been redefined.
 R5  alternative paths start from the entry state: every body visited under
     ``dict_override(kwargs, {'constants_map': V})`` gets ``V = deepcopy(<map at the
     entry of the construct>)`` -- a fresh copy that is neither shared with nor
     copied from a map an earlier body has updated (then-branch constants must
     not be known in the else-branch).
Not decided: constant propagation arithmetic.
"""
import ast

from sa import exprs as X, boolfun as BF
from sa.model import AnalysisError
from sa.report import Ctx
from sa.mutate import Mutant
from sa.rules import c26

PROP = 'C32'

META = dict(
    technique='derivation from the dataflow field-flow analysis (every reference position of a variable must reach the use/def '
              'sets that define "unused"), truth-table evaluation of the dead-branch selection, positional-agreement check '
              'between dummy removal and call-site removal',
    level='Decides necessary conditions of behaviour preservation for code removal: no reference position is invisible to '
          'the "unused" classification; the branch kept for a constant condition is the right one; argument positions agree. '
          'Does NOT decide constant-propagation arithmetic.',
    note='R1 re-runs the C26 rules in-process on the same model; C26 exemptions (fields that only name entities) apply.',
    ref='DESIGN.md section 3, C32',
)

RC = 'loki/transformations/remove_code.py'


def run(ctx):
    m = ctx.model
    ctx.rule('R1', 'used-or-defined set = body.uses_symbols | body.defines_symbols, and no variable-carrying node field is missing '
                   'from those sets (C26 R1/R2 gaps re-evaluated)')
    ctx.rule('R2', "visit_Conditional returns body iff condition == 'True', else_body iff condition == 'False', else rebuilds")
    ctx.rule('R3', 'unused dummy positions come from enumerate(routine.arguments) and are the indices removed at call sites')
    g = m.get_function(RC, 'get_used_or_defined_symbols')
    src = ast.unparse(g.node)
    ctx.wired('R1', 'get_used_or_defined_symbols:source', g.where, src,
              ['routine.body.uses_symbols | routine.body.defines_symbols', 'dataflow_analysis_attached(routine)'],
              'the used/defined set is no longer the body\'s uses | defines',
              reshaped_if=lambda tree: {'uses_symbols', 'defines_symbols'} <= {n.attr for n in ast.walk(tree) if isinstance(n, ast.Attribute)})
    sub = Ctx('C26', m, quiet=True)
    c26.run(sub)
    gaps = [f for f in sub.findings if f.rule in ('R1', 'R2')]
    seen = set()
    for f in gaps:
        if f.construct in seen:
            continue
        seen.add(f.construct)
        # only reads matter for "unused" (a variable that is only written can be dropped together with the write? no: the write stays)
        ctx.violation('R1', f'unused-via:{f.construct}', f.where,
                      f'a variable referenced only through {f.construct} is in neither uses_symbols nor defines_symbols of the routine '
                      f'body, is therefore reported as unused by find_unused_dummy_args_and_vars and its declaration (or dummy '
                      f'argument) is removed although the statement still refers to it', facts={'c26_finding': f.message[:160]})
    ctx.floor('R1', 'C26 field-flow instances re-evaluated', len(sub.instances), 100)
    if not gaps:
        ctx.judge('R1', 'no reference position escapes the use/def sets', facts={'instances': len(sub.instances)})
    fu = m.get_function(RC, 'find_unused_dummy_args_and_vars')
    s2 = ast.unparse(fu.node)
    ok = False
    for dc in ast.walk(fu.node):
        if isinstance(dc, ast.DictComp) and len(dc.generators) == 1:
            g_ = dc.generators[0]
            if ast.unparse(g_.iter) == 'enumerate(routine.arguments)' and isinstance(g_.target, ast.Tuple) and len(g_.target.elts) == 2:
                pos_, arg_ = (ast.unparse(e) for e in g_.target.elts)
                # value = the position, key derives from the argument, filter = name not among the used/defined symbols
                ok = ast.unparse(dc.value) == pos_ and arg_ in ast.unparse(dc.key) and any(
                    ast.unparse(i_).startswith(f'not {arg_}.name.lower() in ') or ast.unparse(i_).startswith(f'{arg_}.name.lower() not in ')
                    for i_ in g_.ifs)
    (ctx.judge('R3', 'unused positions from enumerate(routine.arguments)') if ok else
     ctx.violation('R3', 'find_unused_dummy_args_and_vars:positions', fu.where, 'unused dummy positions are not the indices in routine.arguments'))
    rc = m.get_function(RC, 'do_remove_unused_call_args')
    s3 = ast.unparse(rc.node)
    upn = (X.names_assigned_from(rc.node, 'unused_args_map[', '.values()') or ['unused_positions'])[0]
    cvar = next((n_.target.id for n_ in ast.walk(rc.node) if isinstance(n_, ast.For) and isinstance(n_.target, ast.Name)
                 and 'CallStatement' in ast.unparse(n_.iter)), 'call')
    ok_pos = any(isinstance(c_, ast.ListComp) and ast.unparse(c_.generators[0].iter) == f'enumerate({cvar}.arguments)'
                 and isinstance(c_.generators[0].target, ast.Tuple)
                 and any(ast.unparse(i_) == f'{ast.unparse(c_.generators[0].target.elts[0])} not in {upn}' for i_ in c_.generators[0].ifs)
                 and ast.unparse(c_.elt) == ast.unparse(c_.generators[0].target.elts[1]) for c_ in ast.walk(rc.node))
    ok_kw = any(isinstance(c_, ast.ListComp) and ast.unparse(c_.generators[0].iter) == f'{cvar}.kwarguments'
                and isinstance(c_.generators[0].target, ast.Tuple)
                and any(ast.unparse(i_) == f'{ast.unparse(c_.generators[0].target.elts[0])}.lower() in unused_args_map[{cvar}.routine]'
                        for i_ in c_.generators[0].ifs) for c_ in ast.walk(rc.node))
    ok = ok_pos and ok_kw and f'unused_args_map[{cvar}.routine].values()' in s3
    (ctx.judge('R3', 'call arguments removed by the same positions / lower-cased keyword names') if ok else
     ctx.violation('R3', 'do_remove_unused_call_args:positions', rc.where, 'call-site removal does not use the dummy positions / keyword names'))
    rd = m.get_function(RC, 'do_remove_unused_dummy_args')
    s4 = ast.unparse(rd.node)
    upar = [a.arg for a in rd.node.args.args][1]
    ok = any(isinstance(c_, (ast.ListComp, ast.GeneratorExp)) and isinstance(c_.generators[0].target, ast.Name)
             and any(ast.unparse(i_) in (f'not {c_.generators[0].target.id}.name.lower() in {upar}',
                                         f'{c_.generators[0].target.id}.name.lower() not in {upar}') for i_ in c_.generators[0].ifs)
             for c_ in ast.walk(rd.node))
    (ctx.judge('R3', 'dummy removal uses the same unused_args') if ok else
     ctx.violation('R3', 'do_remove_unused_dummy_args', rd.where, 'dummy removal does not use unused_args'))
    # ---- R2
    T = m.get_class(RC, 'RemoveDeadCodeTransformer')
    vc = T.function('visit_Conditional')
    body = X.body_nodoc(vc.node)
    rows = bad = 0
    cn = (X.names_assigned_from(vc.node, 'self.visit(o.condition') or ['condition'])[0]
    bn = (X.names_assigned_from(vc.node, 'self.visit(o.body') or ['body'])[0]
    en = (X.names_assigned_from(vc.node, 'self.visit(o.else_body') or ['else_body'])[0]
    for env, label, marks in BF.truth_table(body, is_mark=lambda st: isinstance(st, ast.Return),
                                            extra_atoms=[f"{cn} == 'True'", f"{cn} == 'False'"]):
        t, f_ = env[f"{cn} == 'True'"], env[f"{cn} == 'False'"]
        if t and f_:
            continue
        rows += 1
        ret = ast.unparse(marks[-1].value) if marks else None
        want = 'body' if t else ('else_body' if f_ else 'rebuild')
        got = {bn: 'body', en: 'else_body'}.get(ret, 'rebuild')
        if want != got:
            bad += 1
    (ctx.judge('R2', 'visit_Conditional branch selection', facts={'rows': rows}) if not bad and rows else
     ctx.violation('R2', 'RemoveDeadCodeTransformer.visit_Conditional:selection', vc.where,
                   'the branch kept for a constant condition is not the live one (body for True, else_body for False)'))
    ok = f'{cn} = simplify({cn})' in ast.unparse(vc.node)
    (ctx.judge('R2', 'condition simplified before the test') if ok else ctx.note('condition is not simplified'))
    run_r4(ctx)
    run_r5(ctx)


CP = 'loki/transformations/constant_propagation.py'
KILLGEN = ('invalidate_constants_map', 'update_constants_map', '_pop_array_accesses')


def _is_kill(st, what):
    """statement ``st`` removes / overwrites the map entry of the variable expression ``what`` -> the map expression text"""
    if not isinstance(st, ast.Expr) or not isinstance(st.value, ast.Call):
        return None
    c = st.value
    nm = X.call_name_of(c)
    if nm in KILLGEN and c.args and ast.unparse(c.args[0]) == what:
        for a in list(c.args[1:]) + [k.value for k in c.keywords]:
            return ast.unparse(a)
    if isinstance(c.func, ast.Attribute) and c.func.attr == 'pop' and c.args and what in ast.unparse(c.args[0]):
        return ast.unparse(c.func.value)
    return None


def run_r4(ctx):
    m = ctx.model
    ctx.rule('R4', 'constants-map gen/kill: loop variable killed in the body map before the body visit and in the outer map after it; '
                   'every statement-keeping exit of visit_Assignment is preceded by update / invalidate of the assigned variable')
    T = m.get_class(CP, 'ConstantPropagationTransformer')
    vl = T.function('visit_Loop')
    if vl is None:
        raise AnalysisError('ConstantPropagationTransformer.visit_Loop vanished')
    par = X.param_name(vl)
    outer = (X.names_assigned_from(vl.node, "kwargs.get('constants_map'") or [None])[0]
    if outer is None:
        raise AnalysisError('visit_Loop: the incoming constants map is not bound to a local')
    # the block in which the body is visited
    found = None

    def blocks(stmts):
        yield stmts
        for st in stmts:
            for fld in ('body', 'orelse', 'finalbody'):
                b = getattr(st, fld, None)
                if isinstance(b, list) and b and isinstance(b[0], ast.stmt):
                    yield from blocks(b)
    for blk in blocks(vl.node.body):
        for i, st in enumerate(blk):
            if isinstance(st, (ast.Assign, ast.Expr)) and any(isinstance(c, ast.Call) and X.dotted_attr(c.func) == 'self.visit' and c.args
                                                              and ast.unparse(c.args[0]) == f'{par}.body' for c in ast.walk(st)):
                found = (blk, i, st)
    if found is None:
        raise AnalysisError('visit_Loop: recursion into the loop body not found')
    blk, i, st = found
    inner_is_copy = blk is not vl.node.body      # visited under dict_override with a copy of the map
    kills_before = [_is_kill(s_, f'{par}.variable') for s_ in blk[:i]]
    kills_before = [k for k in kills_before if k]
    where = f'{vl.module.relpath}:{st.lineno}'
    if inner_is_copy and not kills_before:
        ctx.violation('R4', 'ConstantPropagationTransformer.visit_Loop:loop-variable-live-in-body', where,
                      f'the loop body is visited with a copy of the constants map from which the entry of `{par}.variable` has not been '
                      f'removed: a constant assigned to the loop variable before the loop (`i = 5; do i = 1, n; a(i) = i`) is substituted '
                      f'for the loop variable inside the body')
    else:
        ctx.judge('R4', 'visit_Loop: loop variable killed before the body visit', facts={'kills': kills_before})
    top = vl.node.body
    pos = next((k for k, s_ in enumerate(top) if st in list(ast.walk(s_))), None)
    after = [_is_kill(s_, f'{par}.variable') for s_ in top[pos + 1:]]
    if outer in [a for a in after if a]:
        ctx.judge('R4', 'visit_Loop: loop variable killed in the outer map after the loop')
    else:
        ctx.violation('R4', 'ConstantPropagationTransformer.visit_Loop:loop-variable-live-after', vl.where,
                      f'after the loop the entry of `{par}.variable` stays in the constants map `{outer}`: the value the variable had before '
                      f'the loop is substituted for it after the loop has redefined it')
    va = T.function('visit_Assignment')
    if va is None:
        raise AnalysisError('ConstantPropagationTransformer.visit_Assignment vanished')
    pa = X.param_name(va)
    lhsn = set(X.names_assigned_from(va.node, f'{pa}.lhs')) | {f'{pa}.lhs'}
    n_exit = 0

    def covered(stmts):
        """does every path through ``stmts`` execute a gen/kill for the assigned variable?"""
        for s_ in stmts:
            if any(_is_kill(s_, w) for w in lhsn):
                return True
            if isinstance(s_, ast.If) and s_.orelse and covered(s_.body) and covered(s_.orelse):
                return True
        return False

    def walk(stmts, prefix_cov):
        nonlocal n_exit
        for k, s_ in enumerate(stmts):
            cov = prefix_cov or covered(stmts[:k])
            if isinstance(s_, ast.Return) and s_.value is not None and '_rebuild' in ast.unparse(s_.value):
                n_exit += 1
                inst = f'visit_Assignment:exit@{ast.unparse(s_.value)[:40]}'
                if cov:
                    ctx.judge('R4', inst)
                else:
                    ctx.violation('R4', f'ConstantPropagationTransformer.visit_Assignment:exit-without-kill', f'{va.module.relpath}:{s_.lineno}',
                                  f'`{ast.unparse(s_)}` is reached on a path that neither updates nor invalidates the constants-map entry of '
                                  f'the assigned variable: a later read is replaced by the value the variable had before this assignment')
            elif isinstance(s_, ast.If):
                walk(s_.body, cov)
                walk(s_.orelse, cov)
    walk(va.node.body, False)
    ctx.floor('R4', 'statement-keeping exits of visit_Assignment', n_exit, 2)


def run_r5(ctx):
    """every alternative path of a construct is analysed from the state at the entry of the construct"""
    m = ctx.model
    ctx.rule('R5', 'ConstantPropagationTransformer: each body visited under `dict_override(kwargs, {constants_map: V})` gets V = deepcopy(<map at '
                   'the entry of the construct>), a fresh copy not shared with (or copied from) the map handed to another body')
    T = m.get_class(CP, 'ConstantPropagationTransformer')
    n = 0
    for mname in sorted(T.members):
        f = T.function(mname)
        if f is None or not mname.startswith('visit_'):
            continue
        entry = set(X.names_assigned_from(f.node, "kwargs.get('constants_map'")) | set(X.names_assigned_from(f.node, "kwargs['constants_map']"))
        withs = []
        for w in ast.walk(f.node):
            if isinstance(w, ast.With):
                for it in w.items:
                    c = it.context_expr
                    if isinstance(c, ast.Call) and X.call_name_of(c) == 'dict_override' and len(c.args) == 2 and isinstance(c.args[1], ast.Dict):
                        for k_, v_ in zip(c.args[1].keys, c.args[1].values):
                            if isinstance(k_, ast.Constant) and k_.value == 'constants_map':
                                withs.append((w, v_))
        if not withs:
            continue
        if not entry:
            raise AnalysisError(f'{mname}: the constants map at the entry of the construct is not bound to a local')
        handed = []          # names of maps already handed to a visit (and mutated by it)
        for w, v in sorted(withs, key=lambda p_: p_[0].lineno):
            n += 1
            inst = f'{mname}:{ast.unparse(v)[:50]}@{sum(1 for w2, _ in withs if w2.lineno <= w.lineno)}'
            where = f'{CP}:{w.lineno}'
            src = v
            via = None
            if isinstance(v, ast.Name):
                via = v.id
                defs = [a.value for a in ast.walk(f.node) if isinstance(a, ast.Assign) and a.lineno < w.lineno
                        and any(isinstance(t, ast.Name) and t.id == v.id for t in a.targets)]
                src = defs[-1] if defs else v
            ok = isinstance(src, ast.Call) and X.call_name_of(src) == 'deepcopy' and len(src.args) == 1 and isinstance(src.args[0], ast.Name) \
                and src.args[0].id in entry
            why = ''
            if not ok:
                arg = ast.unparse(src.args[0]) if isinstance(src, ast.Call) and src.args else ast.unparse(src)
                why = (f'the map is `{ast.unparse(src)}`: `{arg}` is not the map at the entry of the construct' if arg not in handed else
                       f'the map is copied from `{arg}`, which an earlier body has already updated')
            elif via is not None and via in handed:
                ok, why = False, f'`{via}` has already been handed to (and updated by) an earlier body'
            if ok:
                ctx.judge('R5', inst)
            else:
                ctx.violation('R5', f'{mname}:branch-state-not-from-entry', where,
                              f'`{ast.unparse(w.items[0].context_expr)[:90]}`: {why} -- constants assigned on one path are taken as known on '
                              f'the alternative path: `if (c) then; a = 4; else; y = a; endif` becomes `y = 4`', instance=inst)
            if via is not None:
                handed.append(via)
    ctx.floor('R5', 'bodies visited with their own constants map', n, 3)


MUTANTS = [
    Mutant('else-branch-from-then-state', CP,
           "        with dict_override(kwargs, {'constants_map': deepcopy(constants_map)}):\n            new_body = self.visit(o.body, **kwargs)\n            body_constants_map = kwargs['constants_map']\n        with dict_override(kwargs, {'constants_map': deepcopy(constants_map)}):",
           "        branch_map = deepcopy(constants_map)\n        with dict_override(kwargs, {'constants_map': branch_map}):\n            new_body = self.visit(o.body, **kwargs)\n            body_constants_map = kwargs['constants_map']\n        with dict_override(kwargs, {'constants_map': deepcopy(branch_map)}):",
           expect=('R5', 'branch-state-not-from-entry')),
    Mutant('neutral-branch-copies-hoisted', CP,
           "        with dict_override(kwargs, {'constants_map': deepcopy(constants_map)}):\n            new_body = self.visit(o.body, **kwargs)\n            body_constants_map = kwargs['constants_map']\n        with dict_override(kwargs, {'constants_map': deepcopy(constants_map)}):",
           "        then_map = deepcopy(constants_map)\n        else_map = deepcopy(constants_map)\n        with dict_override(kwargs, {'constants_map': then_map}):\n            new_body = self.visit(o.body, **kwargs)\n            body_constants_map = kwargs['constants_map']\n        with dict_override(kwargs, {'constants_map': else_map}):",
           expect=None),
    Mutant('loop-variable-not-killed', CP, "            kwargs['constants_map'].pop((o.variable.basename, ()), None)\n", "", expect=('R4', 'loop-variable-live-in-body')),
    Mutant('loop-variable-killed-after-body', CP,
           "            kwargs['constants_map'].pop((o.variable.basename, ()), None)\n            new_body = self.visit(o.body, **kwargs)\n",
           "            new_body = self.visit(o.body, **kwargs)\n            kwargs['constants_map'].pop((o.variable.basename, ()), None)\n",
           expect=('R4', 'loop-variable-live-in-body')),
    Mutant('loop-variable-live-after', CP, "        invalidate_constants_map(o.variable, constants_map)\n\n        return o._rebuild(bounds=new_bounds", "        return o._rebuild(bounds=new_bounds",
           expect=('R4', 'loop-variable-live-after')),
    Mutant('assignment-no-invalidate', CP, "        else:\n            invalidate_constants_map(new_lhs, constants_map)\n\n        return o._rebuild(lhs=new_lhs, rhs=new_rhs)",
           "\n        return o._rebuild(lhs=new_lhs, rhs=new_rhs)", expect=('R4', 'exit-without-kill')),
    Mutant('neutral-kill-via-helper', CP, "            kwargs['constants_map'].pop((o.variable.basename, ()), None)\n",
           "            invalidate_constants_map(o.variable, kwargs['constants_map'])\n", expect=None),
    Mutant('dead-branch-swapped', RC, "        if condition == 'True':\n            return body\n\n        if condition == 'False':\n            return else_body",
           "        if condition == 'True':\n            return else_body\n\n        if condition == 'False':\n            return body",
           expect=('R2', 'selection'), quick=True),
    Mutant('call-args-by-name-only', RC, "        new_args = [arg for i, arg in enumerate(call.arguments) if i not in unused_positions]",
           "        new_args = [arg for i, arg in enumerate(call.arguments) if i + 1 not in unused_positions]", expect=('R3', 'do_remove_unused_call_args')),
    Mutant('used-set-uses-only', RC, "        used_or_defined_symbols = routine.body.uses_symbols | routine.body.defines_symbols",
           "        used_or_defined_symbols = routine.body.uses_symbols.copy()", expect=('R1', 'source')),
]
