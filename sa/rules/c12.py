"""
C12  Symbol tables behave as scoped, case-insensitive mappings.

 R1  override completeness: for SymbolTable(dict), CaseInsensitiveDict
     (OrderedDict) and CaseInsensitiveDefaultDict(defaultdict) every
     key-taking mapping operation either is overridden and folds the key
     before touching the underlying storage, or is implemented by the CPython
     base class *through* overridden, folding methods (delegation table of
     CPython 3.12, checked against sys.version_info).
 R2  copy-in / copy-out: SymbolTable stores and returns clones only.
 R3  scope walk: the parent table is consulted only when the local look-up
     misses (innermost declaration wins).
 R4  optional-table tests are identity tests: a ``SymbolTable`` is a ``dict`` and
     therefore *falsy when empty*; testing ``self.parent`` (or a local bound to
     it) for truth instead of ``is not None`` treats an enclosing scope that
     declares nothing (yet) as absent and cuts the scope chain there.
Not decided: weak-reference lifetime of parents, re-parenting histories.
"""
import ast
import sys

from sa import exprs as X
from sa.model import AnalysisError, External, ClassInfo
from sa.mutate import Mutant

PROP = 'C12'

META = dict(
    technique='class-table analysis: mapping-API override completeness against a CPython delegation table, fold-before-'
              'storage dataflow inside each override, clone-on-store/return check, guard shape of the recursive look-up',
    level='Decides for 3 mapping classes x 9 key-taking operations that the key is case-folded on every path to the '
          'underlying dict (directly or via methods CPython delegates to), that SymbolTable copies attributes in and out, and '
          'that parent scopes are consulted only on a local miss. Does NOT decide weak-reference lifetimes or histories.',
    note='Assumes the CPython 3.12 C implementations of dict/defaultdict/OrderedDict (delegation table in the rule module; '
         'a different interpreter minor version makes the check exit 2).',
    ref='DESIGN.md section 3, C12',
)

API = ['__getitem__', '__setitem__', '__delitem__', '__contains__', 'get', 'pop', 'setdefault', 'update', '__init__']
# base class -> method -> overridable methods the C implementation goes through for *subclasses*
DELEGATES = {
    'builtins.dict': {},
    'collections.defaultdict': {},
    'collections.OrderedDict': {
        '__init__': {'__setitem__'}, 'update': {'__setitem__'},
        'setdefault': {'__contains__', '__getitem__', '__setitem__'},
        'pop': {'__contains__', '__getitem__', '__delitem__'},
    },
}
CLASSES = [('loki/types/symbol_table.py', 'SymbolTable'), ('loki/tools/util.py', 'CaseInsensitiveDict'),
           ('loki/tools/util.py', 'CaseInsensitiveDefaultDict')]
# __init__ of SymbolTable takes no initial mapping (only parent / case_sensitive)
NOT_KEY_TAKING = {('SymbolTable', '__init__'): 'constructor takes parent/case_sensitive only; no initial entries positional'}
FOLD_CALLS = ('lower', 'format_lookup_name', 'casefold')


def _is_fold(node):
    return any(isinstance(n, ast.Call) and isinstance(n.func, ast.Attribute) and n.func.attr in FOLD_CALLS
               for n in ast.walk(node))


def folds(m, cls, f, seen=None):
    """Does method ``f`` fold its key before every access to the base storage?  Returns (bool, reason)."""
    seen = seen or set()
    if f.fqn in seen:
        return True, 'recursive'
    seen = seen | {f.fqn}
    params = [a.arg for a in f.node.args.args][1:]
    if not params and f.node.args.vararg is None:
        return False, 'no key parameter'
    key = params[0] if params else None
    if f.name == '__init__' and key == 'default_factory':
        # defaultdict signature: the first positional is the factory, entries follow in *args / **kwargs
        params = params[1:]
        key = params[0] if params else None
    folded = set()          # names that hold folded values (line where they become folded)
    fold_line = {}
    for n in ast.walk(f.node):
        if isinstance(n, ast.Assign) and len(n.targets) == 1 and isinstance(n.targets[0], ast.Name):
            if _is_fold(n.value):
                fold_line.setdefault(n.targets[0].id, n.lineno)
    touched = False
    # `self[k]`, `self[k] = v`, `del self[k]`, `k in self`: routed through the class' own dunder methods
    for n in ast.walk(f.node):
        dunder = None
        if isinstance(n, ast.Subscript) and isinstance(n.value, ast.Name) and n.value.id == 'self':
            dunder = {ast.Load: '__getitem__', ast.Store: '__setitem__', ast.Del: '__delitem__'}[type(n.ctx)]
        elif isinstance(n, ast.Compare) and len(n.ops) == 1 and isinstance(n.ops[0], (ast.In, ast.NotIn)) \
                and isinstance(n.comparators[0], ast.Name) and n.comparators[0].id == 'self':
            dunder = '__contains__'
        if dunder:
            callee = m.member_function(cls, dunder)
            if callee is None or not callee.module.name.startswith('loki'):
                return False, f'`{ast.unparse(n)}` reaches the base class {dunder} with an unfolded key'
            ok, why = folds(m, cls, callee, seen)
            if not ok:
                return False, f'via {callee.qualname}: {why}'
            touched = True
    for n in sorted((x for x in ast.walk(f.node) if isinstance(x, ast.Call)), key=lambda x: (x.lineno, x.col_offset)):
        d = X.dotted_attr(n.func) or ''
        if d.startswith('self.') and d.split('.', 1)[1] in API and (not n.args or isinstance(n.args[0], ast.Starred)):
            callee = m.member_function(cls, d.split('.', 1)[1])
            if callee is None or not callee.module.name.startswith('loki'):
                return False, f'{ast.unparse(n)} forwards the entries to the base class unfolded'
            ok, why = folds(m, cls, callee, seen)
            if not ok:
                return False, f'via {callee.qualname}: {why}'
            touched = True
            continue
        if d == 'super().__init__' and f.name == '__init__' and [ast.unparse(a) for a in n.args] == ['default_factory'] and not n.keywords:
            continue
        if d.startswith('super().') or (d.startswith('dict.') or d.startswith('OrderedDict.')):
            touched = True
            for a in n.args[:1] if not d.startswith(('dict.', 'OrderedDict.')) else n.args[1:2]:
                ok = _is_fold(a)
                names = {x.id for x in ast.walk(a) if isinstance(x, ast.Name)}
                for nm in names:
                    if nm in fold_line and fold_line[nm] <= n.lineno:
                        ok = True
                if not ok and names & ({key} | set(params)):
                    return False, f'{ast.unparse(n)} at line {n.lineno} receives an unfolded key'
                if not ok and not names & ({key} | set(params)) and not isinstance(a, ast.Constant):
                    # derived local that was never folded
                    if names and not all(nm in fold_line for nm in names if nm not in ('self',)):
                        return False, f'{ast.unparse(n)} at line {n.lineno}: argument not derived from a folded key'
            if not n.args and n.keywords and d.endswith('__init__'):
                for k in n.keywords:
                    if k.arg is None:
                        return False, f'{ast.unparse(n)} forwards **{ast.unparse(k.value)} entries unfolded'
        elif d.startswith('self.') and n.args and any(isinstance(x, ast.Name) and x.id == key for x in ast.walk(n.args[0])):
            callee = m.member_function(cls, d.split('.', 1)[1])
            if callee is not None and callee.name not in FOLD_CALLS:
                touched = True
                ok, why = folds(m, cls, callee, seen)
                if not ok:
                    return False, f'via {callee.qualname}: {why}'
        elif d.startswith('self.') and n.args and d.split('.', 1)[1] not in FOLD_CALLS:
            names = {x.id for x in ast.walk(n.args[0]) if isinstance(x, ast.Name)}
            if names and all(nm in fold_line and fold_line[nm] <= n.lineno for nm in names):
                touched = True      # an already folded key is handed on
    if not touched:
        return False, 'never reaches the underlying storage / a folding method'
    return True, 'key folded before storage access'


def run(ctx):
    m = ctx.model
    if sys.version_info[:2] != (3, 12):
        raise AnalysisError(f'delegation table is for CPython 3.12, running {sys.version_info[:2]}')
    ctx.assume('CPython 3.12 C implementations: dict/defaultdict methods never call overridden methods; '
               'OrderedDict.__init__/update -> __setitem__, setdefault -> __contains__/__getitem__/__setitem__, '
               'pop -> __contains__/__getitem__/__delitem__ for subclasses')
    ctx.rule('R1', 'for each mapping class and each key-taking operation: overridden with fold-before-storage, or the '
                   'CPython base delegates it to overridden folding methods')
    ctx.rule('R2', 'SymbolTable: values handed to the dict are .clone()d and values returned are clones (or None/default)')
    ctx.rule('R3', 'SymbolTable._lookup_formatted_name recurses to self.parent only under `value is None and recursive`')
    n = 0
    for rel, cn in CLASSES:
        cls = m.get_class(rel, cn)
        mro = m.mro(cls)
        ext = [c for c in mro if isinstance(c, External) and c.dotted != 'builtins.object']
        if not ext or ext[0].dotted not in DELEGATES:
            raise AnalysisError(f'{cn}: unexpected base classes {[getattr(c, "dotted", c.name) for c in mro]}')
        base = ext[0].dotted
        status = {}
        for meth in API:
            f = m.member_function(cls, meth)
            if f is not None:
                status[meth] = folds(m, cls, f)
            else:
                status[meth] = None
        for meth in API:
            n += 1
            inst = f'{cn}.{meth}'
            if (cn, meth) in NOT_KEY_TAKING:
                ctx.judge('R1', inst, nontrivial=False, facts={'exempt': NOT_KEY_TAKING[(cn, meth)]})
                continue
            st = status[meth]
            if st is not None:
                ok, why = st
                if ok:
                    ctx.judge('R1', inst, facts={'override': True, 'why': why})
                else:
                    f = m.member_function(cls, meth)
                    ctx.violation('R1', inst, f.where, f'{cn}.{meth} is overridden but does not fold the key: {why}',
                                  facts={'base': base})
                continue
            deleg = DELEGATES[base].get(meth)
            if deleg:
                bad = [d for d in sorted(deleg) if not (status.get(d) and status[d][0])]
                if not bad:
                    ctx.judge('R1', inst, facts={'override': False, 'delegates_to': sorted(deleg)})
                else:
                    ctx.violation('R1', inst, cls.where,
                                  f'{cn} does not override {meth}; {base}.{meth} goes through {sorted(deleg)} of which {bad} '
                                  f'do not fold the key: the operation fails or stores a raw key for a differently-cased spelling',
                                  facts={'base': base, 'delegates_to': sorted(deleg), 'not_folding': bad})
            else:
                ctx.violation('R1', inst, cls.where,
                              f'{cn} does not override {meth} and {base}.{meth} accesses the storage directly with the raw '
                              f'key: `{meth}` with a differently-cased spelling misses / stores a raw key', facts={'base': base})
    ctx.floor('R1', 'class x operation instances', n, 27)

    # ---- R2
    ST = m.get_class('loki/types/symbol_table.py', 'SymbolTable')
    for meth, argpos in (('__setitem__', 1), ('setdefault', 1)):
        f = ST.function(meth)
        if f is None:
            raise AnalysisError(f'SymbolTable.{meth} vanished')
        calls = [c for c in ast.walk(f.node) if isinstance(c, ast.Call) and (X.dotted_attr(c.func) or '') == f'super().{meth}']
        ok = calls and all(len(c.args) > argpos and isinstance(c.args[argpos], ast.Call)
                           and isinstance(c.args[argpos].func, ast.Attribute) and c.args[argpos].func.attr == 'clone' for c in calls)
        (ctx.judge('R2', f'SymbolTable.{meth}:clone-in') if ok else
         ctx.violation('R2', f'SymbolTable.{meth}:clone-in', f.where, f'{meth} stores the caller\'s object, not a clone'))
    f = ST.function('update')
    comps = [c for c in ast.walk(f.node) if isinstance(c, ast.DictComp)]
    ok = comps and all(isinstance(c.value, ast.Call) and isinstance(c.value.func, ast.Attribute) and c.value.func.attr == 'clone'
                       for c in comps)
    (ctx.judge('R2', 'SymbolTable.update:clone-in') if ok else
     ctx.violation('R2', 'SymbolTable.update:clone-in', f.where, 'update stores the caller\'s objects, not clones'))
    for meth in ('_lookup_formatted_name', '__getitem__', 'get'):
        f = ST.function(meth)
        if f is None:
            raise AnalysisError(f'SymbolTable.{meth} vanished')
        bad = []
        for r in (x for x in ast.walk(f.node) if isinstance(x, ast.Return)):
            v = r.value
            alts = [v.body, v.orelse] if isinstance(v, ast.IfExp) else [v]
            for a in alts:
                if a is None or (isinstance(a, ast.Constant) and a.value is None):
                    continue
                if isinstance(a, ast.Name) and a.id == 'default':
                    continue
                if isinstance(a, ast.Call) and isinstance(a.func, ast.Attribute) and \
                        a.func.attr in ('clone', '_lookup_formatted_name'):
                    continue
                bad.append(ast.unparse(a))
        (ctx.judge('R2', f'SymbolTable.{meth}:clone-out') if not bad else
         ctx.violation('R2', f'SymbolTable.{meth}:clone-out', f.where, f'{meth} returns {bad[0]} (stored object escapes uncopied)'))

    # ---- R3
    f = ST.function('_lookup_formatted_name')
    rec = [(n_, g) for n_, g in _calls_with_guards(f.node) if (X.dotted_attr(n_.func) or '').endswith('parent._lookup_formatted_name')]
    if not rec:
        raise AnalysisError('_lookup_formatted_name: recursive parent look-up not found')
    vnames = X.names_assigned_from(f.node, 'super().get')
    if not vnames:
        raise AnalysisError('_lookup_formatted_name: local look-up `<v> = super().get(...)` not found')
    vn = vnames[0]
    rpar = [a.arg for a in f.node.args.args][-1]          # the `recursive` flag is the last parameter
    for call, guards in rec:
        gt = ' and '.join(guards)
        if f'{vn} is None' in gt and rpar in gt:
            ctx.judge('R3', 'parent look-up guarded', facts={'guard': gt})
        else:
            ctx.violation('R3', '_lookup_formatted_name:guard', f.where,
                          f'parent table is consulted under guard `{gt}`: a parent declaration can shadow the local one')
    loc = [n_ for n_ in ast.walk(f.node) if isinstance(n_, ast.Assign) and ast.unparse(n_.targets[0]) == vn
           and 'super().get' in ast.unparse(n_.value)]
    (ctx.judge('R3', 'local look-up first') if loc and loc[0].lineno < rec[0][0].lineno else
     ctx.violation('R3', '_lookup_formatted_name:order', f.where, 'local table is not consulted before the parent'))
    lk = ST.function('lookup')
    ok = any(isinstance(c, ast.Call) and (X.dotted_attr(c.func) or '') == 'self.format_lookup_name' for c in ast.walk(lk.node))
    (ctx.judge('R3', 'lookup folds') if ok else
     ctx.violation('R3', 'SymbolTable.lookup:fold', lk.where, 'lookup no longer formats the name before searching'))
    # the case-insensitive formatter really folds
    nf = ST.function('_not_case_sensitive_format_lookup_name')
    ok = nf is not None and any(isinstance(c, ast.Call) and isinstance(c.func, ast.Attribute) and c.func.attr in ('lower', 'casefold')
                                for c in ast.walk(nf.node))
    (ctx.judge('R3', 'formatter lowers') if ok else
     ctx.violation('R3', 'SymbolTable._not_case_sensitive_format_lookup_name', ST.where, 'case-insensitive formatter does not lower-case'))
    nw = ST.function('__new__')
    txt = ast.unparse(nw.node)
    on = (X.names_assigned_from(nw.node, '.__new__(') or ['obj'])[0]
    ok = f'if {on}.case_sensitive' in txt and txt.index('_case_sensitive_format_lookup_name') < txt.index('_not_case_sensitive_format_lookup_name')
    (ctx.judge('R3', 'formatter selection') if ok else
     ctx.violation('R3', 'SymbolTable.__new__:formatter', nw.where, 'formatter selection by case_sensitive altered'))

    # ---- R4
    ctx.rule('R4', 'in SymbolTable no truthiness test is applied to self.parent / a local bound to it (must be `is None` / '
                   '`is not None`): an empty parent table is falsy')
    ntests = 0
    for mem in ST.members.values():
        if mem.kind != 'func':
            continue
        fn = mem.node
        aliases = {'self.parent'}
        for n in ast.walk(fn):
            if isinstance(n, ast.Assign) and isinstance(n.targets[0], ast.Name) and 'self.parent' in ast.unparse(n.value) \
                    and not any(isinstance(x, ast.Call) for x in ast.walk(n.value)):
                aliases.add(n.targets[0].id)
            # a value that is about to become the parent table (weakly referenced / stored as the parent)
            if isinstance(n, ast.Call) and (X.dotted_attr(n.func) or '') in ('weakref.ref', 'ref') and n.args and isinstance(n.args[0], ast.Name):
                aliases.add(n.args[0].id)
            if isinstance(n, ast.Assign) and ast.unparse(n.targets[0]) in ('self.parent', 'self._parent') and isinstance(n.value, ast.Name):
                aliases.add(n.value.id)
        for n in ast.walk(fn):
            tests = []
            if isinstance(n, (ast.If, ast.While, ast.IfExp)):
                tests.append(n.test)
            elif isinstance(n, ast.Assert):
                tests.append(n.test)
            for t in tests:
                operands = []

                def flat(x):
                    if isinstance(x, ast.BoolOp):
                        for v in x.values:
                            flat(v)
                    elif isinstance(x, ast.UnaryOp) and isinstance(x.op, ast.Not):
                        flat(x.operand)
                    else:
                        operands.append(x)
                flat(t)
                for o in operands:
                    if 'parent' in ast.unparse(o):
                        ntests += 1
                    if ast.unparse(o) in aliases:
                        ctx.violation('R4', f'SymbolTable.{mem.name}:truthiness', f'{ST.module.relpath}:{o.lineno}',
                                      f'`{ast.unparse(t)}` tests `{ast.unparse(o)}` for truth: a parent SymbolTable that is still empty '
                                      f'is falsy, so the enclosing scope is dropped / not searched')
                    elif 'parent' in ast.unparse(o):
                        ctx.judge('R4', f'SymbolTable.{mem.name}:{ast.unparse(o)}')
    ctx.floor('R4', 'tests mentioning parent', ntests, 2)


def _calls_with_guards(fnode):
    out = []

    def rec(stmts, guards):
        for st in stmts:
            if isinstance(st, ast.If):
                rec(st.body, guards + [ast.unparse(st.test)])
                rec(st.orelse, guards + ['not(' + ast.unparse(st.test) + ')'])
            else:
                for n in ast.walk(st):
                    if isinstance(n, ast.Call):
                        out.append((n, guards))
    rec(fnode.body, [])
    return out


U = 'loki/tools/util.py'
S = 'loki/types/symbol_table.py'
MUTANTS = [
    Mutant('cid-drop-contains', U,
           "    def __contains__(self, key):\n        key = key.lower() if isinstance(key, str) else key\n        return super().__contains__(key)\n\n    def __delitem__(self, key):\n        key = key.lower() if isinstance(key, str) else key\n        super().__delitem__(key)\n\n    def pop(self, key, *args):\n        key = key.lower() if isinstance(key, str) else key\n        return super().pop(key, *args)\n\n\nclass CaseInsensitiveDefaultDict",
           "    def __delitem__(self, key):\n        key = key.lower() if isinstance(key, str) else key\n        super().__delitem__(key)\n\n    def pop(self, key, *args):\n        key = key.lower() if isinstance(key, str) else key\n        return super().pop(key, *args)\n\n\nclass CaseInsensitiveDefaultDict",
           expect=('R1', 'CaseInsensitiveDict.__contains__'), quick=True),
    Mutant('cid-get-unfolded', U,
           "    def get(self, key, default=None):\n        key = key.lower() if isinstance(key, str) else key\n        return super().get(key, default)\n\n    def __contains__(self, key):\n        key = key.lower() if isinstance(key, str) else key\n        return super().__contains__(key)\n\n    def __delitem__(self, key):\n        key = key.lower() if isinstance(key, str) else key\n        super().__delitem__(key)\n\n    def pop(self, key, *args):\n        key = key.lower() if isinstance(key, str) else key\n        return super().pop(key, *args)\n\n\nclass CaseInsensitiveDefaultDict",
           "    def get(self, key, default=None):\n        return super().get(key, default)\n\n    def __contains__(self, key):\n        key = key.lower() if isinstance(key, str) else key\n        return super().__contains__(key)\n\n    def __delitem__(self, key):\n        key = key.lower() if isinstance(key, str) else key\n        super().__delitem__(key)\n\n    def pop(self, key, *args):\n        key = key.lower() if isinstance(key, str) else key\n        return super().pop(key, *args)\n\n\nclass CaseInsensitiveDefaultDict",
           expect=('R1', 'CaseInsensitiveDict.get')),
    Mutant('cid-delitem-removed', U,
           "    def __delitem__(self, key):\n        key = key.lower() if isinstance(key, str) else key\n        super().__delitem__(key)\n\n    def pop(self, key, *args):\n        key = key.lower() if isinstance(key, str) else key\n        return super().pop(key, *args)\n\n\nclass CaseInsensitiveDefaultDict",
           "    def pop(self, key, *args):\n        key = key.lower() if isinstance(key, str) else key\n        return super().pop(key, *args)\n\n\nclass CaseInsensitiveDefaultDict",
           expect=('R1', 'CaseInsensitiveDict.__delitem__')),
    Mutant('st-delitem-raw', S, "        super().__delitem__(self.format_lookup_name(key))", "        super().__delitem__(key)", expect=('R1', 'SymbolTable.__delitem__')),
    Mutant('st-pop-raw', S, "            return super().pop(name)\n        return super().pop(name, default)", "            return super().pop(key)\n        return super().pop(key, default)",
           expect=('R1', 'SymbolTable.pop')),
    Mutant('cidd-setdefault-base', U, "    def setdefault(self, key, default=None):\n        if key not in self:\n            self[key] = default\n        return self[key]\n\n", "",
           expect=('R1', 'CaseInsensitiveDefaultDict.setdefault')),
    Mutant('init-parent-truthiness', S, "    def __init__(self, parent=None, **kwargs):\n        super().__init__(**kwargs)\n        self._parent = weakref.ref(parent) if parent is not None else None",
           "    def __init__(self, parent=None, **kwargs):\n        super().__init__(**kwargs)\n        self._parent = weakref.ref(parent) if parent else None",
           expect=('R4', 'SymbolTable.__init__:truthiness')),
    Mutant('clone-parent-truthiness', S, "        if self.parent is not None and 'parent' not in kwargs:", "        if self.parent and 'parent' not in kwargs:", expect=('R4', 'SymbolTable.clone')),
    Mutant('st-setitem-no-clone', S, "super().__setitem__(name_parts, value.clone())", "super().__setitem__(name_parts, value)",
           expect=('R2', '__setitem__:clone-in')),
    Mutant('st-setdefault-unfolded', S, "super().setdefault(self.format_lookup_name(key), default.clone())",
           "super().setdefault(key, default.clone())", expect=('R1', 'SymbolTable.setdefault')),
    Mutant('st-parent-first', S, "        if value is None and recursive and self.parent is not None:",
           "        if recursive and self.parent is not None:", expect=('R3', '_lookup_formatted_name:guard')),
    Mutant('st-return-stored', S, "        return value.clone() if value is not None else None\n",
           "        return value\n", expect=('R2', '_lookup_formatted_name:clone-out')),
    Mutant('parent-truthiness', S, "        if value is None and recursive and self.parent is not None:",
           "        if value is None and recursive and self.parent:", expect=('R4', '_lookup_formatted_name:truthiness')),
]
