"""
C36  Fortran-to-Python transpilation preserves behaviour.

 R1  the Python printer (PyCodeMapper) parenthesises wherever Python's grammar
     would otherwise re-associate the tree (exhaustive operator-pair table).
 R2  operator semantics: a Fortran operator whose Python spelling means
     something else for some operand type must be rewritten.  Fortran `/` on
     integers truncates, Python `/` is true division: the quotient handler in
     use must either look at operand types / emit `//`-or-int() forms, or the
     transformation must rewrite integer quotients before printing.
 R3  Fortran-only spellings (.and. .or. .not. /=) do not leak into Python.
 R4  DO loops become ranges with the right exclusive end: the text emitted by
     ``PyCodegen.visit_Loop`` is parsed (placeholders substituted) and the stop
     argument of a three-argument ``range`` must be ``<end> + (1 if <incr> > 0
     else -1)`` -- one past the inclusive bound in the direction decided by the
     *run-time* value of the stride.  ``<end> + <incr>`` over-runs whenever the
     bound is not stride-aligned; a sign decision taken from the *spelling* of the
     stride at generation time is wrong for variable strides.
 R5  zero-based shifting keeps every component of a section: in
     ``shift_to_zero_indexing`` a rebuilt ``RangeIndex`` carries start, stop and
     step of the original (a dropped step turns a(2:n:2) into a[1:n]).
 R6  the shift is by exactly one: in ``shift_to_zero_indexing`` the new start of
     a section and a scalar subscript are, as linear forms, ``<old> - 1`` and the
     stop is unchanged (Python's exclusive end).
Not decided: intrinsic mapping, array semantics, kinds.
"""
import ast

from sa.printers import judge_printer
from sa.model import AnalysisError
from sa.mutate import Mutant

PROP = 'C36'

META = dict(
    technique='precedence-table extraction from the Python printer handler ASTs vs an embedded Python operator table; '
              'type-blindness check of the quotient path (printer + FortranPythonTransformation)',
    level='Decides the expression clauses: (parent x child) pairs Python would re-associate are parenthesised; the '
          'division operator: a `/` emitted for a Fortran quotient is only correct if some code on the path consults operand '
          'types (integer division truncates) -- a type-blind path is reported. Does NOT decide intrinsics, arrays, kinds.',
    note='Oracle = Python operator table in sa/langtables.py; R2 is a type-blindness argument (no reference to '
         'type/dtype/BasicType in the quotient path => output cannot depend on integer vs real).',
    ref='DESIGN.md section 3, C35/C36',
)

PY = 'loki/backend/pygen.py'
TR = 'loki/transformations/transpile/fortran_python.py'
FORTRAN_ONLY = ('.and.', '.or.', '.not.', '.eqv.', '.neqv.', '/=')


def _mentions_types(node):
    for n in ast.walk(node):
        if isinstance(n, ast.Attribute) and n.attr in ('type', 'dtype', 'INTEGER', 'is_integer'):
            return True
        if isinstance(n, ast.Name) and n.id in ('BasicType', 'IntLiteral'):
            return True
    return False


def run(ctx):
    m = ctx.model
    ctx.rule('R1', 'PyCodeMapper: Python needs parentheses => printer emits them (all operator pairs)')
    ctx.rule('R2', 'the Quotient handler used by PyCodeMapper prints `/` only if the handler, or a Quotient-rewriting '
                   'step of FortranPythonTransformation, consults operand types')
    ctx.rule('R3', 'operator handlers of PyCodeMapper contain no Fortran-only operator spelling')
    mf, n = judge_printer(ctx, 'R1', PY, 'PyCodeMapper', 'python')
    ctx.floor('R1', 'operator pairs judged', n, 70)
    # R3
    for kind, f in mf.handlers.items():
        lits = [x.value for x in ast.walk(f.node) if isinstance(x, ast.Constant) and isinstance(x.value, str)]
        bad = [l for l in lits if any(tok in l.lower() for tok in FORTRAN_ONLY) and len(l) < 30]
        if bad:
            ctx.violation('R3', f'PyCodeMapper:{kind}:spelling', f.where, f'{f.qualname} prints {kind} with Fortran spelling {bad}')
        else:
            ctx.judge('R3', f'PyCodeMapper:{kind}:spelling')
    # R2
    q = mf.handlers['Quotient']
    lits = [x.value for x in ast.walk(q.node) if isinstance(x, ast.Constant) and isinstance(x.value, str)]
    prints_true_div = any('/' in l and '//' not in l for l in lits)
    printer_typed = _mentions_types(q.node)
    tmod = m.module_by_path(TR)
    rewrites = []
    for fn in list(tmod.functions.values()) + [c.function(n_) for c in tmod.classes.values() for n_ in c.members
                                               if c.members[n_].kind == 'func']:
        if fn is None:
            continue
        names = {x.id for x in ast.walk(fn.node) if isinstance(x, ast.Name)} | \
                {x.attr for x in ast.walk(fn.node) if isinstance(x, ast.Attribute)}
        if names & {'Quotient', 'ParenthesisedDiv', 'FloorDiv'}:
            rewrites.append((fn.qualname, _mentions_types(fn.node)))
    facts = {'quotient_handler': q.qualname, 'literals': lits, 'handler_consults_types': printer_typed,
             'quotient_rewrites_in_transformation': rewrites}
    if prints_true_div and not printer_typed and not any(t for _, t in rewrites):
        ctx.violation('R2', 'PyCodeMapper:Quotient:true-division', q.where,
                      f'{q.qualname} prints every Quotient as Python `/` (true division) and nothing on the path '
                      'looks at operand types: integer quotients (Fortran truncation) evaluate to floats, e.g. 7/2 -> 3.5',
                      facts=facts)
    else:
        ctx.judge('R2', 'PyCodeMapper:Quotient', facts=facts)

    # ---- R4
    ctx.rule('R4', 'PyCodegen.visit_Loop: emitted range(start, stop, incr) has stop == end + (1 if incr > 0 else -1) (run-time sign), '
                   'two-argument form end + 1')
    ctx.rule('R5', 'shift_to_zero_indexing: every RangeIndex it rebuilds is constructed from (start.., stop, step) of the original')
    G = m.get_class(PY, 'PyCodegen')
    vl = G.function('visit_Loop')
    if vl is None:
        raise AnalysisError('PyCodegen.visit_Loop vanished')
    # locals holding the rendered start / end / stride
    names = {}
    for k_, pat in (('start', '.bounds.start'), ('end', '.bounds.stop'), ('incr', '.bounds.step')):
        from sa.exprs import names_assigned_from
        got = names_assigned_from(vl.node, 'self.visit(', pat)
        if not got:
            raise AnalysisError(f'PyCodegen.visit_Loop: the rendered {k_} is not bound to a local')
        names[k_] = got[0]
    n4 = 0
    # values that end up in the range text: follow plain assignments of f-strings to the `range(` template
    fstrs = {}
    for a_ in ast.walk(vl.node):
        if isinstance(a_, ast.Assign) and isinstance(a_.targets[0], ast.Name) and isinstance(a_.value, (ast.JoinedStr, ast.IfExp, ast.Constant)):
            fstrs.setdefault(a_.targets[0].id, []).append(a_.value)

    def render(js, depth=0):
        """alternatives of the text produced by a JoinedStr / conditional of JoinedStrs; placeholders become identifiers"""
        if isinstance(js, ast.IfExp):
            return [(t, ('gen-time', ast.unparse(js.test))) for t, _ in render(js.body, depth) + render(js.orelse, depth)]
        if isinstance(js, ast.Constant) and isinstance(js.value, str):
            return [(js.value, None)]
        if not isinstance(js, ast.JoinedStr):
            raise AnalysisError(f'PyCodegen.visit_Loop: piece of the emitted range text `{ast.unparse(js)[:60]}` is not a string template')
        outs = [('', None)]
        for v in js.values:
            if isinstance(v, ast.Constant):
                outs = [(o + str(v.value), w) for o, w in outs]
            elif isinstance(v, ast.FormattedValue) and isinstance(v.value, ast.Name):
                nm = v.value.id
                rev = {names['start']: 'START', names['end']: 'END', names['incr']: 'INCR'}
                if nm in rev:
                    outs = [(o + rev[nm], w) for o, w in outs]
                elif nm in fstrs and depth < 2:
                    alts = [x for f_ in fstrs[nm] for x in render(f_, depth + 1)]
                    outs = [(o + t, w or w2) for o, w in outs for t, w2 in alts]
                else:
                    outs = [(o + 'OTHER', w) for o, w in outs]
            else:
                outs = [(o + 'OTHER', w) for o, w in outs]
        return outs
    for a_ in ast.walk(vl.node):
        if isinstance(a_, ast.JoinedStr) and any(isinstance(v, ast.Constant) and 'range(' in str(v.value) for v in a_.values):
            for text, gen in render(a_):
                try:
                    call = ast.parse(text, mode='eval').body
                except SyntaxError:
                    raise AnalysisError(f'PyCodegen.visit_Loop: emitted text `{text}` is not an expression')
                if not (isinstance(call, ast.Call) and getattr(call.func, 'id', '') == 'range'):
                    continue
                n4 += 1
                inst = f'PyCodegen.visit_Loop:{text}'
                if len(call.args) == 2:
                    ok = ast.unparse(call.args[1]) == 'END + 1'
                    why = 'two-argument range must end at <end> + 1'
                else:
                    stop = call.args[1]
                    ok = gen is None and isinstance(stop, ast.BinOp) and isinstance(stop.op, ast.Add) and ast.unparse(stop.left) == 'END' \
                        and isinstance(stop.right, ast.IfExp) and ast.unparse(stop.right.test) in ('INCR > 0', 'INCR >= 0') \
                        and ast.unparse(stop.right.body) == '1' and ast.unparse(stop.right.orelse) == '-1' and ast.unparse(call.args[2]) == 'INCR'
                    why = ('the exclusive end is chosen at code-generation time from the spelling of the stride' if gen else
                           'the exclusive end is `' + ast.unparse(stop) + '`, not one past the inclusive bound in the direction of the stride')
                if ok:
                    ctx.judge('R4', inst)
                else:
                    ctx.violation('R4', 'PyCodegen.visit_Loop:range-stop', f'{vl.module.relpath}:{a_.lineno}',
                                  f'emitted `{text}`: {why} -- do i=1,9,3 becomes range(1, 9 + 3, 3) = 1,4,7,10 (one iteration too many); '
                                  f'a stride that is negative only at run time needs the sign test in the generated code', instance=inst)
    ctx.floor('R4', 'range templates emitted by PyCodegen.visit_Loop', n4, 2)
    sz = m.get_function('loki/transformations/array_indexing/array_indices.py', 'shift_to_zero_indexing')
    n5 = 0
    for c_ in ast.walk(sz.node):
        if isinstance(c_, ast.Call) and (getattr(c_.func, 'attr', None) == 'RangeIndex' or getattr(c_.func, 'id', None) == 'RangeIndex') and c_.args \
                and isinstance(c_.args[0], ast.Tuple):
            n5 += 1
            parts = [ast.unparse(e) for e in c_.args[0].elts]
            inst = f'shift_to_zero_indexing:RangeIndex({", ".join(parts)})'
            if len(parts) == 3 and parts[1].endswith('.stop') and parts[2].endswith('.step'):
                ctx.judge('R5', inst)
            else:
                ctx.violation('R5', 'shift_to_zero_indexing:range-components', f'{sz.module.relpath}:{c_.lineno}',
                              f'the shifted section is rebuilt as RangeIndex(({", ".join(parts)})): a component of the original section is '
                              f'dropped (a(2:n:2) becomes a[1:n], every element instead of every second one)', instance=inst)
    ctx.floor('R5', 'RangeIndex rebuilds in shift_to_zero_indexing', n5, 1)
    # ---- R6
    from sa.linform import lin_py, same, show, NotLinear
    ctx.rule('R6', 'shift_to_zero_indexing: new start == old start - 1, new scalar subscript == old - 1, stop unchanged (linear forms)')
    n6 = 0
    for c_ in ast.walk(sz.node):
        if isinstance(c_, ast.BinOp) and isinstance(c_.op, (ast.Add, ast.Sub)) and not any(
                isinstance(p_, ast.BinOp) and c_ in (p_.left, p_.right) for p_ in ast.walk(sz.node)):
            try:
                got = lin_py(c_)
            except NotLinear:
                continue
            atoms = [k for k in got if k != 1]
            if len(atoms) != 1:
                continue
            n6 += 1
            inst = f'shift_to_zero_indexing:{ast.unparse(c_)}'
            if got[atoms[0]] == 1 and got.get(1, 0) == -1:
                ctx.judge('R6', inst, facts={'normal_form': show(got)})
            else:
                ctx.violation('R6', 'shift_to_zero_indexing:shift-by-one', f'{sz.module.relpath}:{c_.lineno}',
                              f'`{ast.unparse(c_)}` is `{show(got)}`: a 1-based subscript becomes 0-based by subtracting exactly one', instance=inst)
    ctx.floor('R6', 'shift expressions in shift_to_zero_indexing', n6, 2)
    for c_ in ast.walk(sz.node):
        if isinstance(c_, ast.Call) and (getattr(c_.func, 'attr', None) == 'RangeIndex') and c_.args and isinstance(c_.args[0], ast.Tuple) \
                and len(c_.args[0].elts) >= 2:
            st_ = c_.args[0].elts[1]
            (ctx.judge('R6', 'stop unchanged') if isinstance(st_, ast.Attribute) and st_.attr in ('stop', 'upper') else
             ctx.violation('R6', 'shift_to_zero_indexing:stop', f'{sz.module.relpath}:{c_.lineno}',
                           f'the stop of a shifted section is `{ast.unparse(st_)}`: Python\'s end is exclusive, the 1-based inclusive stop is '
                           f'already the right 0-based exclusive end'))


MUTANTS = [
    Mutant('zero-shift-by-two', 'loki/transformations/array_indexing/array_indices.py', "                        new_dims += [d - sym.Literal(1)]",
           "                        new_dims += [d - sym.Literal(2)]", expect=('R6', 'shift-by-one')),
    Mutant('zero-shift-stop-too', 'loki/transformations/array_indexing/array_indices.py', "new_dims += [sym.RangeIndex((start, d.stop, d.step))]",
           "new_dims += [sym.RangeIndex((start, d.stop - sym.Literal(1), d.step))]", expect=('R6', 'stop')),
    Mutant('range-end-plus-stride', PY, "cntrl = f'range({start}, {end} + (1 if {incr} > 0 else -1), {incr})'", "cntrl = f'range({start}, {end} + {incr}, {incr})'",
           expect=('R4', 'range-stop')),
    Mutant('range-sign-from-spelling', PY, "            cntrl = f'range({start}, {end} + (1 if {incr} > 0 else -1), {incr})'",
           "            stop = f'{end} - 1' if incr.startswith('-') else f'{end} + 1'\n            cntrl = f'range({start}, {stop}, {incr})'", expect=('R4', 'range-stop')),
    Mutant('zero-shift-drops-step', 'loki/transformations/array_indexing/array_indices.py', "                    new_dims += [sym.RangeIndex((start, d.stop, d.step))]",
           "                    new_dims += [sym.RangeIndex((start, d.stop))]", expect=('R5', 'range-components')),
    Mutant('py-not-fortran-spelling', PY,
           "    map_int_literal = map_float_literal\n",
           "    map_int_literal = map_float_literal\n\n    def map_logical_not(self, expr, enclosing_prec, *args, **kwargs):\n        return self.parenthesize_if_needed('.not.' + self.rec(expr.child, 13, *args, **kwargs), enclosing_prec, 13)\n",
           expect=('R3', 'Not:spelling'), quick=True),
    Mutant('py-power-base', PY,
           "    map_int_literal = map_float_literal\n",
           "    map_int_literal = map_float_literal\n\n    def map_power(self, expr, enclosing_prec, *args, **kwargs):\n        return self.parenthesize_if_needed(self.format('%s**%s', self.rec(expr.base, 12, *args, **kwargs), self.rec(expr.exponent, 14, *args, **kwargs)), enclosing_prec, 14)\n",
           expect=('R1', 'Power.base<-Neg')),
]
