"""
C36  Fortran-to-Python transpilation preserves behaviour.

 R1  the Python printer (PyCodeMapper) parenthesises wherever Python's grammar
     would otherwise re-associate the tree (exhaustive operator-pair table).
 R2  operator semantics: a Fortran operator whose Python spelling means
     something else for some operand type must be rewritten.  Fortran `/` on
     integers truncates, Python `/` is true division: the quotient handler in
     use must either look at operand types / emit `//`-or-int() forms, or the
     transformation must rewrite integer quotients before printing.
 R3  Fortran-only spellings (.and. .or. .not. /=) do not leak into Python.
Not decided: intrinsic mapping, array semantics, kinds.
"""
import ast

from sa.printers import judge_printer
from sa.model import AnalysisError
from sa.mutate import Mutant

PROP = 'C36'

META = dict(
    technique='precedence-table extraction from the Python printer handler ASTs vs an embedded Python operator table; '
              'type-blindness check of the quotient path (printer + FortranPythonTransformation)',
    level='Decides the expression clauses: (parent x child) pairs Python would re-associate are parenthesised; the '
          'division operator: a `/` emitted for a Fortran quotient is only correct if some code on the path consults operand '
          'types (integer division truncates) -- a type-blind path is reported. Does NOT decide intrinsics, arrays, kinds.',
    note='Oracle = Python operator table in sa/langtables.py; R2 is a type-blindness argument (no reference to '
         'type/dtype/BasicType in the quotient path => output cannot depend on integer vs real).',
    ref='DESIGN.md section 3, C35/C36',
)

PY = 'loki/backend/pygen.py'
TR = 'loki/transformations/transpile/fortran_python.py'
FORTRAN_ONLY = ('.and.', '.or.', '.not.', '.eqv.', '.neqv.', '/=')


def _mentions_types(node):
    for n in ast.walk(node):
        if isinstance(n, ast.Attribute) and n.attr in ('type', 'dtype', 'INTEGER', 'is_integer'):
            return True
        if isinstance(n, ast.Name) and n.id in ('BasicType', 'IntLiteral'):
            return True
    return False


def run(ctx):
    m = ctx.model
    ctx.rule('R1', 'PyCodeMapper: Python needs parentheses => printer emits them (all operator pairs)')
    ctx.rule('R2', 'the Quotient handler used by PyCodeMapper prints `/` only if the handler, or a Quotient-rewriting '
                   'step of FortranPythonTransformation, consults operand types')
    ctx.rule('R3', 'operator handlers of PyCodeMapper contain no Fortran-only operator spelling')
    mf, n = judge_printer(ctx, 'R1', PY, 'PyCodeMapper', 'python')
    ctx.floor('R1', 'operator pairs judged', n, 70)
    # R3
    for kind, f in mf.handlers.items():
        lits = [x.value for x in ast.walk(f.node) if isinstance(x, ast.Constant) and isinstance(x.value, str)]
        bad = [l for l in lits if any(tok in l.lower() for tok in FORTRAN_ONLY) and len(l) < 30]
        if bad:
            ctx.violation('R3', f'PyCodeMapper:{kind}:spelling', f.where, f'{f.qualname} prints {kind} with Fortran spelling {bad}')
        else:
            ctx.judge('R3', f'PyCodeMapper:{kind}:spelling')
    # R2
    q = mf.handlers['Quotient']
    lits = [x.value for x in ast.walk(q.node) if isinstance(x, ast.Constant) and isinstance(x.value, str)]
    prints_true_div = any('/' in l and '//' not in l for l in lits)
    printer_typed = _mentions_types(q.node)
    tmod = m.module_by_path(TR)
    rewrites = []
    for fn in list(tmod.functions.values()) + [c.function(n_) for c in tmod.classes.values() for n_ in c.members
                                               if c.members[n_].kind == 'func']:
        if fn is None:
            continue
        names = {x.id for x in ast.walk(fn.node) if isinstance(x, ast.Name)} | \
                {x.attr for x in ast.walk(fn.node) if isinstance(x, ast.Attribute)}
        if names & {'Quotient', 'ParenthesisedDiv', 'FloorDiv'}:
            rewrites.append((fn.qualname, _mentions_types(fn.node)))
    facts = {'quotient_handler': q.qualname, 'literals': lits, 'handler_consults_types': printer_typed,
             'quotient_rewrites_in_transformation': rewrites}
    if prints_true_div and not printer_typed and not any(t for _, t in rewrites):
        ctx.violation('R2', 'PyCodeMapper:Quotient:true-division', q.where,
                      f'{q.qualname} prints every Quotient as Python `/` (true division) and nothing on the path '
                      'looks at operand types: integer quotients (Fortran truncation) evaluate to floats, e.g. 7/2 -> 3.5',
                      facts=facts)
    else:
        ctx.judge('R2', 'PyCodeMapper:Quotient', facts=facts)


MUTANTS = [
    Mutant('py-not-fortran-spelling', PY,
           "    map_int_literal = map_float_literal\n",
           "    map_int_literal = map_float_literal\n\n    def map_logical_not(self, expr, enclosing_prec, *args, **kwargs):\n        return self.parenthesize_if_needed('.not.' + self.rec(expr.child, 13, *args, **kwargs), enclosing_prec, 13)\n",
           expect=('R3', 'Not:spelling'), quick=True),
    Mutant('py-power-base', PY,
           "    map_int_literal = map_float_literal\n",
           "    map_int_literal = map_float_literal\n\n    def map_power(self, expr, enclosing_prec, *args, **kwargs):\n        return self.parenthesize_if_needed(self.format('%s**%s', self.rec(expr.base, 12, *args, **kwargs), self.rec(expr.exponent, 14, *args, **kwargs)), enclosing_prec, 14)\n",
           expect=('R1', 'Power.base<-Neg')),
]
