"""
C09  Symbolic comparisons only answer what holds for all values.

Clause decided: "when the answer cannot be decided it raises rather than guessing".
 R1  definite answers are guarded: ``symbolic_op`` returns ``op(simplified
     difference, 0)``.  For the ordering operators the expression classes raise
     on non-constant operands; for ``eq`` / ``ne`` the expression classes
     implement *structural* (string) equality that never raises.  So unless
     ``symbolic_op`` itself tests the simplified difference for constant-ness (or
     raises) on the eq/ne path, ``n == m`` is answered ``False`` and ``-m != 0``
     ``True`` for symbols whose values may make them equal / zero.
 R2  the ordering operators indeed fail closed: no loki expression class
     defines ``__lt__/__le__/__gt__/__ge__`` that returns a value for
     non-literal operands.
 R3-R5  a definite answer is ``op(simplify(difference), 0)``: the shape rules of the
     arithmetic rewrites that produce that difference are re-evaluated here
     (C08 R4 multiset accumulators, C08 R5 sign parity, C08 R6 power folding) --
     a cancelled term that does not cancel turns "cannot decide" into an answer.
Not decided: the remaining arithmetic of simplify() on the difference (C08).
"""
import ast

from sa import dispatch as D, exprs as X
from sa.model import AnalysisError
from sa.mutate import Mutant

PROP = 'C09'

META = dict(
    technique='dominance/guard analysis of the return of symbolic_op combined with class-table facts about which comparison '
              'dunder methods of the expression classes can raise',
    level='Decides the "raises rather than guessing" clause for the two operator families: eq/ne need an explicit constant-ness '
          'guard because expression equality is structural and total; lt/le/gt/ge rely on the operand classes raising. Does NOT '
          'decide that simplify() is value-preserving.',
    note='Facts about __eq__/__lt__ are read from loki/expression and pymbolic sources.',
    ref='DESIGN.md section 3, C09',
)

FILE = 'loki/expression/symbolic.py'


def run(ctx):
    m = ctx.model
    ctx.rule('R1', 'in symbolic_op, every path returning op(expr1, expr2) for op in {eq, ne} is guarded by a constant-ness test of '
                   'the simplified difference or raises')
    ctx.rule('R2', 'ordering dunders of expression classes return a value only for literal operands (otherwise defer/raise)')
    f = m.get_function(FILE, 'symbolic_op')
    src = ast.unparse(f.node)
    rets = X.nodes_with_guards(f.node, lambda n: isinstance(n, ast.Return) and isinstance(n.value, ast.Call)
                               and isinstance(n.value.func, ast.Name) and n.value.func.id == 'op')
    if not rets:
        raise AnalysisError('symbolic_op: `return op(expr1, expr2)` not found')
    guarded = any('is_constant(' in g for _, gs in rets for g in gs)
    has_const_test = any(isinstance(n, ast.Call) and X.call_name_of(n) in ('is_constant',) for n in ast.walk(f.node))
    has_raise = any(isinstance(n, ast.Raise) for n in ast.walk(f.node))
    eq_total = True
    mix = m.get_class('loki/expression/mixins.py', 'StrCompareMixin')
    eqf = mix.function('__eq__')
    if eqf is None or any(isinstance(n, ast.Raise) for n in ast.walk(eqf.node)):
        eq_total = False
    facts = {'return_sites': [(r.lineno, gs) for r, gs in rets], 'is_constant_test': has_const_test, 'raises': has_raise,
             'expression_eq_is_total': eq_total}
    if eq_total and not (guarded or (has_const_test and has_raise)):
        ctx.violation('R1', 'symbolic_op:eq-ne-unguarded', f'{f.module.relpath}:{rets[0][0].lineno}',
                      'symbolic_op returns op(simplified difference, 0) for eq/ne without testing that the difference is a '
                      'constant: expression equality is structural and never raises, so `n == m` is answered False and '
                      '`-m != 0` True although some values make them equal / zero', facts=facts)
    else:
        ctx.judge('R1', 'symbolic_op:eq-ne', facts=facts)
    # comparison operator set handled
    ops = [n for n in ast.walk(f.node) if isinstance(n, ast.Compare) and isinstance(n.ops[0], ast.In) and ast.unparse(n.left) == 'op']
    want = {'_op.eq', '_op.ne', '_op.lt', '_op.le', '_op.gt', '_op.ge'}
    got = set()
    for c in ops:
        got |= {ast.unparse(e) for e in getattr(c.comparators[0], 'elts', [])}
    (ctx.judge('R1', 'comparison operators rewritten as difference', facts={'ops': sorted(got)}) if want <= got else
     ctx.violation('R1', 'symbolic_op:operator-set', f.where, f'only {sorted(got)} are rewritten as a difference against 0'))
    # the minus-prefix flip must not be applied to eq/ne
    flips = X.nodes_with_guards(f.node, lambda n: isinstance(n, ast.Return) and isinstance(n.value, ast.UnaryOp) and isinstance(n.value.op, ast.Not))
    def _eq_handled_before(ret):
        # an earlier sibling `if op in (_op.eq, _op.ne): return ...` in the same block takes the eq/ne cases out
        for blk in ast.walk(f.node):
            body = getattr(blk, 'body', None)
            if isinstance(body, list) and ret in body:
                for st in body[:body.index(ret)]:
                    if isinstance(st, ast.If) and '_op.eq' in ast.unparse(st.test) and st.body and isinstance(st.body[-1], ast.Return):
                        return True
        return False
    for r, gs in flips:
        prior_eq = any('_op.eq' in g and g.startswith('not (') for g in gs) or _eq_handled_before(r)
        (ctx.judge('R1', 'sign flip excludes eq/ne') if prior_eq else
         ctx.violation('R1', 'symbolic_op:flip-eq', f'{f.module.relpath}:{r.lineno}',
                       'the result negation for a stripped minus prefix is also applied to eq/ne (x == 0 is not the negation of -x == 0)'))
    # ---- R2
    n = 0
    for c in D.expression_classes(m):
        for dn in ('__lt__', '__le__', '__gt__', '__ge__'):
            mem = c.members.get(dn)
            if mem is None or mem.kind != 'func':
                continue
            n += 1
            fn = mem.node
            # every return of a value must be under an isinstance(other, <literal/int>) guard, the fallthrough defers to super()
            bad = []
            for r, gs in X.nodes_with_guards(fn, lambda x: isinstance(x, ast.Return)):
                txt = ast.unparse(r.value) if r.value is not None else ''
                if 'super().' in txt:
                    continue
                if 'float(other)' in txt or 'int(other)' in txt:
                    continue        # the conversion raises for non-numeric operands: fails closed
                if not any('isinstance(other' in g for g in gs):
                    bad.append(txt)
            inst = f'{c.name}.{dn}'
            (ctx.judge('R2', inst) if not bad else
             ctx.violation('R2', inst, f'{c.module.relpath}:{fn.lineno}', f'{inst} answers `{bad[0]}` for arbitrary operands'))
    ctx.floor('R2', 'ordering dunders on expression classes', n, 4)
    from sa.rules.c08 import arithmetic_shape_rules
    arithmetic_shape_rules(ctx, 'R3', 'R4', 'R5')


MUTANTS = [
    Mutant('sign-by-count-one', 'loki/expression/symbolic.py', "is_neg = sum(1 for v in components if v == -1) % 2 == 1", "is_neg = sum(1 for v in components if v == -1) == 1",
           expect=('R4', 'sign-by-count')),
    Mutant('zero-base-folds', 'loki/expression/symbolic.py', "            if isinstance(base, literal_types) and base_value == 1:\n                return base\n",
           "            if isinstance(base, literal_types) and base_value == 1:\n                return base\n            if isinstance(base, literal_types) and base_value == 0:\n                return base\n",
           expect=('R5', 'exponent-discarded')),
    Mutant('repair-guard', FILE, "    return op(expr1, expr2)\n\n\ndef distribute_product",
           "    if op in (_op.eq, _op.ne) and not is_constant(expr1):\n        raise TypeError('cannot decide')\n    return op(expr1, expr2)\n\n\ndef distribute_product",
           expect=None, quick=True),
    Mutant('flip-applied-to-eq', FILE,
           "            if op in (_op.eq, _op.ne):\n                return symbolic_op(strip_minus_prefix(expr1), op, expr2)\n", "",
           expect=('R1', 'flip-eq')),
    Mutant('intliteral-lt-guesses', 'loki/expression/literals.py',
           "        if isinstance(other, int):\n            return self.value < other\n        return super().__lt__(other)",
           "        if isinstance(other, int):\n            return self.value < other\n        return False",
           expect=('R2', 'IntLiteral.__lt__')),
]
