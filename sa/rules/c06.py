"""
C06  Printed expressions denote the expression tree they were printed from.

 R1  exhaustive operator-pair table: for the Fortran printer (FCodeMapper) and
     the C printer (CCodeMapper) and every (parent position, child operator)
     pair, if the target language would re-associate the unparenthesised text
     (precedence, associativity, integer-division grouping) then the printer
     must emit parentheses.  What the printer emits is computed from the
     precedence constants / forced-parenthesis class sets extracted from the
     handler ASTs; what the language needs is the table in sa/langtables.py.
 R2  explicitly parenthesised nodes (Parenthesised*) are always printed with
     parentheses.
 R3  numeric literals are signed leaves: an ``IntLiteral`` / ``FloatLiteral`` can
     hold a negative value (loop unrolling, constant folding), whose text starts
     with an operator; the literal handlers of the Fortran and Python printers
     must therefore depend on the enclosing precedence (parenthesise under an
     operator that binds tighter than a sum): a handler that ignores
     ``enclosing_prec`` prints ``Power(IntLiteral(-1), 2)`` as ``-1**2``, which both
     languages read as ``-(1**2)``.  (C is exempt: a unary minus is an ordinary
     operand there and ``**`` is a function call.)
Not decided: literal formatting, kind suffixes, intrinsic spelling.
"""
from sa.printers import judge_printer
from sa.mutate import Mutant

PROP = 'C06'

META = dict(
    technique='precedence-table extraction from printer handler ASTs (constant folding of PREC_*, force_parens class '
              'sets, own precedence) checked exhaustively against an embedded Fortran/C operator table',
    level='Decides the parenthesisation clause exhaustively on the finite table of (parent position x child operator) '
          'pairs for FCodeMapper and CCodeMapper (thorough: also Cpp/Cuda/LokiStringify printers): language needs parens '
          '=> printer emits them. Does NOT decide literal formatting or value-level behaviour beyond grouping.',
    note='Oracle = language operator tables in sa/langtables.py (Fortran 2018 10.1, C11 6.5); handlers whose recursion '
         'idiom is not recognised make the check fail closed (exit 2).',
    ref='DESIGN.md section 3, C06',
)

PRINTERS = [('loki/backend/fgen.py', 'FCodeMapper', 'fortran'), ('loki/backend/cgen.py', 'CCodeMapper', 'c')]
WIDE = [('loki/backend/cppgen.py', 'CppCodeMapper', 'c'), ('loki/backend/cudagen.py', 'CudaCodeMapper', 'c'),
        ('loki/expression/mappers.py', 'LokiStringifyMapper', 'fortran')]


def run(ctx):
    ctx.rule('R1', 'for each printer and each well-typed (parent slot, child operator) pair: the target language '
                   'requires parentheses => slot precedence > child precedence, or the child class is in the slot\'s '
                   'force_parens_around set, or the child handler always parenthesises')
    total = 0
    for rel, cn, lang in PRINTERS:
        mf, n = judge_printer(ctx, 'R1', rel, cn, lang)
        total += n
    ctx.floor('R1', 'operator pairs judged', total, 150)
    signed_literals(ctx, 'R3', [('loki/backend/fgen.py', 'FCodeMapper'), ('loki/backend/pygen.py', 'PyCodeMapper')])


def signed_literals(ctx, rid, printers):
    import ast
    from sa import exprs as X
    from sa.model import AnalysisError
    m = ctx.model
    ctx.rule(rid, 'map_int_literal / map_float_literal of the Fortran and Python printers depend on enclosing_prec (negative values are '
                  'parenthesised under operators that bind tighter than a sum)')
    n = 0
    for rel, cn in printers:
        C = m.get_class(rel, cn)
        for hn in ('map_int_literal', 'map_float_literal'):
            f = m.member_function(C, hn)
            if f is None:
                raise AnalysisError(f'{cn}.{hn} not found')
            n += 1
            args = [a.arg for a in f.node.args.args]
            ep = args[2] if len(args) > 2 else None
            reads = ep is not None and any(isinstance(x, ast.Name) and x.id == ep and isinstance(x.ctx, ast.Load) for x in ast.walk(f.node))
            # the value must reach a comparison with a precedence constant: directly or through a helper of the class
            helper_ok = False
            for c in ast.walk(f.node):
                if isinstance(c, ast.Call) and isinstance(c.func, ast.Attribute) and isinstance(c.func.value, ast.Name) and c.func.value.id == 'self' \
                        and any(isinstance(a, ast.Name) and a.id == ep for a in c.args):
                    h = m.member_function(C, c.func.attr)
                    if h is not None and any(isinstance(k, ast.Compare) and any('PREC_' in ast.unparse(x) for x in [k.left] + k.comparators)
                                             for k in ast.walk(h.node)):
                        helper_ok = True
                    if c.func.attr == 'parenthesize_if_needed':
                        helper_ok = True
            direct = any(isinstance(k, ast.Compare) and ep in ast.unparse(k) and 'PREC_' in ast.unparse(k) for k in ast.walk(f.node))
            inst = f'{cn}.{hn}'
            if reads and (helper_ok or direct):
                ctx.judge(rid, inst, facts={'handler': f.qualname})
            else:
                ctx.violation(rid, f'{inst}:ignores-enclosing-precedence', f.where,
                              f'{f.qualname} prints the value of the literal whatever the context: a negative value (IntLiteral(-1) from loop '
                              f'unrolling or constant folding) under **, * or / is emitted as -1**2 / a*-2, i.e. a different tree')
    ctx.floor(rid, 'literal handlers judged', n, 4)


def wide(ctx):
    """cross-reference over the other printers: informational only (the C-family backends are decided under C35, the
    str() printer is no backend); findings here are turned into notes and never change the verdict"""
    for rel, cn, lang in WIDE:
        before = len(ctx.findings)
        judge_printer(ctx, 'R1', rel, cn, lang)
        extra = ctx.findings[before:]
        del ctx.findings[before:]
        for f in extra:
            ctx.note(f'(informational, wide domain) {f.construct}: {f.message}')


F = 'loki/expression/mappers.py'
MUTANTS = [
    Mutant('literal-ignores-context', 'loki/backend/fgen.py', "        return self._parenthesise_negative_literal(result, enclosing_prec)\n\n    map_int_literal = map_float_literal",
           "        return result\n\n    map_int_literal = map_float_literal", expect=('R3', 'ignores-enclosing-precedence')),
    Mutant('sum-minus-prec-lowered', F, "return '-', PREC_PRODUCT, expr.children[1]", "return '-', PREC_SUM, expr.children[1]",
           expect=('R1', 'Sum.minus<-Sum'), quick=True),
    Mutant('numerator-prec-none', F,
           "numerator = self.rec_with_force_parens_around(expr.numerator, PREC_PRODUCT, *args, **kwargs)",
           "numerator = self.rec_with_force_parens_around(expr.numerator, PREC_NONE, *args, **kwargs)",
           expect=('R1', 'Quotient.num<-Sum')),
    Mutant('product-own-prec', F,
           "                self.join_rec(\"*\", expr.children, PREC_PRODUCT, *args, **kwargs),\n                enclosing_prec, PREC_PRODUCT)",
           "                self.join_rec(\"*\", expr.children, PREC_PRODUCT, *args, **kwargs),\n                enclosing_prec, PREC_CALL)",
           expect=('R1', 'Power.base<-Product')),
    Mutant('not-child-prec', 'loki/backend/fgen.py',
           '".not." + self.rec(expr.child, PREC_UNARY, *args, **kwargs)', '".not." + self.rec(expr.child, PREC_NONE, *args, **kwargs)',
           expect=('R1', 'Not.child<-And')),
    Mutant('c-den-primitives', 'loki/backend/cgen.py',
           "class CCodeMapper(LokiStringifyMapper):\n", "class CCodeMapper(LokiStringifyMapper):\n    multiplicative_primitives = ()\n",
           expect=('R1', 'CCodeMapper:Quotient.den<-Product')),
    Mutant('paren-node-not-parenthesised', F,
           "return self.parenthesize(self.map_quotient(expr, PREC_NONE, *args, **kwargs))",
           "return self.map_quotient(expr, enclosing_prec, *args, **kwargs)", expect=('R1', 'PDiv')),
    Mutant('f-den-primitives-removed', 'loki/backend/fgen.py', "    multiplicative_primitives = (FloorDiv, Remainder, Product, Quotient)\n",
           "    multiplicative_primitives = (FloorDiv, Remainder)\n", expect=('R1', 'FCodeMapper:Quotient.den<-Product')),
    Mutant('neutral-reorder', F, "    map_range_index = map_range\n    map_loop_range = map_range\n",
           "    map_loop_range = map_range\n    map_range_index = map_range\n", count=2, expect=None),
]
