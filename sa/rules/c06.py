"""
C06  Printed expressions denote the expression tree they were printed from.

 R1  exhaustive operator-pair table: for the Fortran printer (FCodeMapper) and
     the C printer (CCodeMapper) and every (parent position, child operator)
     pair, if the target language would re-associate the unparenthesised text
     (precedence, associativity, integer-division grouping) then the printer
     must emit parentheses.  What the printer emits is computed from the
     precedence constants / forced-parenthesis class sets extracted from the
     handler ASTs; what the language needs is the table in sa/langtables.py.
 R2  explicitly parenthesised nodes (Parenthesised*) are always printed with
     parentheses.
Not decided: literal formatting, kind suffixes, intrinsic spelling.
"""
from sa.printers import judge_printer
from sa.mutate import Mutant

PROP = 'C06'

META = dict(
    technique='precedence-table extraction from printer handler ASTs (constant folding of PREC_*, force_parens class '
              'sets, own precedence) checked exhaustively against an embedded Fortran/C operator table',
    level='Decides the parenthesisation clause exhaustively on the finite table of (parent position x child operator) '
          'pairs for FCodeMapper and CCodeMapper (thorough: also Cpp/Cuda/LokiStringify printers): language needs parens '
          '=> printer emits them. Does NOT decide literal formatting or value-level behaviour beyond grouping.',
    note='Oracle = language operator tables in sa/langtables.py (Fortran 2018 10.1, C11 6.5); handlers whose recursion '
         'idiom is not recognised make the check fail closed (exit 2).',
    ref='DESIGN.md section 3, C06',
)

PRINTERS = [('loki/backend/fgen.py', 'FCodeMapper', 'fortran'), ('loki/backend/cgen.py', 'CCodeMapper', 'c')]
WIDE = [('loki/backend/cppgen.py', 'CppCodeMapper', 'c'), ('loki/backend/cudagen.py', 'CudaCodeMapper', 'c'),
        ('loki/expression/mappers.py', 'LokiStringifyMapper', 'fortran')]


def run(ctx):
    ctx.rule('R1', 'for each printer and each well-typed (parent slot, child operator) pair: the target language '
                   'requires parentheses => slot precedence > child precedence, or the child class is in the slot\'s '
                   'force_parens_around set, or the child handler always parenthesises')
    total = 0
    for rel, cn, lang in PRINTERS:
        mf, n = judge_printer(ctx, 'R1', rel, cn, lang)
        total += n
    ctx.floor('R1', 'operator pairs judged', total, 150)


def wide(ctx):
    """cross-reference over the other printers: informational only (the C-family backends are decided under C35, the
    str() printer is no backend); findings here are turned into notes and never change the verdict"""
    for rel, cn, lang in WIDE:
        before = len(ctx.findings)
        judge_printer(ctx, 'R1', rel, cn, lang)
        extra = ctx.findings[before:]
        del ctx.findings[before:]
        for f in extra:
            ctx.note(f'(informational, wide domain) {f.construct}: {f.message}')


F = 'loki/expression/mappers.py'
MUTANTS = [
    Mutant('sum-minus-prec-lowered', F, "return '-', PREC_PRODUCT, expr.children[1]", "return '-', PREC_SUM, expr.children[1]",
           expect=('R1', 'Sum.minus<-Sum'), quick=True),
    Mutant('numerator-prec-none', F,
           "numerator = self.rec_with_force_parens_around(expr.numerator, PREC_PRODUCT, *args, **kwargs)",
           "numerator = self.rec_with_force_parens_around(expr.numerator, PREC_NONE, *args, **kwargs)",
           expect=('R1', 'Quotient.num<-Sum')),
    Mutant('product-own-prec', F,
           "                self.join_rec(\"*\", expr.children, PREC_PRODUCT, *args, **kwargs),\n                enclosing_prec, PREC_PRODUCT)",
           "                self.join_rec(\"*\", expr.children, PREC_PRODUCT, *args, **kwargs),\n                enclosing_prec, PREC_CALL)",
           expect=('R1', 'Power.base<-Product')),
    Mutant('not-child-prec', 'loki/backend/fgen.py',
           '".not." + self.rec(expr.child, PREC_UNARY, *args, **kwargs)', '".not." + self.rec(expr.child, PREC_NONE, *args, **kwargs)',
           expect=('R1', 'Not.child<-And')),
    Mutant('c-den-primitives', 'loki/backend/cgen.py',
           "class CCodeMapper(LokiStringifyMapper):\n", "class CCodeMapper(LokiStringifyMapper):\n    multiplicative_primitives = ()\n",
           expect=('R1', 'CCodeMapper:Quotient.den<-Product')),
    Mutant('paren-node-not-parenthesised', F,
           "return self.parenthesize(self.map_quotient(expr, PREC_NONE, *args, **kwargs))",
           "return self.map_quotient(expr, enclosing_prec, *args, **kwargs)", expect=('R1', 'PDiv')),
    Mutant('f-den-primitives-removed', 'loki/backend/fgen.py', "    multiplicative_primitives = (FloorDiv, Remainder, Product, Quotient)\n",
           "    multiplicative_primitives = (FloorDiv, Remainder)\n", expect=('R1', 'FCodeMapper:Quotient.den<-Product')),
    Mutant('neutral-reorder', F, "    map_range_index = map_range\n    map_loop_range = map_range\n",
           "    map_loop_range = map_range\n    map_range_index = map_range\n", count=2, expect=None),
]
