"""
C43  Lint auto-fix changes only what the fixed rules target.

 R1  check/fix traversal agreement: every program unit reached by
     ``GenericRule.check`` with ``check_subroutine`` / ``check_module`` (abstract
     traversal from a Sourcefile: modules, module procedures, internal
     procedures ...) is also reached by ``Fixer.fix`` with the corresponding
     ``fix_*`` -- otherwise violations reported there are never fixed and the
     fixed file still violates the rule.
 R2  fixer method calls resolve: every attribute call made inside a
     ``fix_subroutine`` / ``fix_module`` of a fixable rule names a function that
     exists somewhere in loki / pymbolic / the Python builtins (a name defined
     nowhere raises AttributeError the first time a fix is attempted).
 R3  the write-back goes through the conservative backend (depends on C03).
Not decided: that a fix is semantically neutral.
"""
import ast
import builtins

from sa import exprs as X
from sa.model import AnalysisError
from sa.mutate import Mutant

PROP = 'C43'

META = dict(
    technique='abstract traversal comparison of the recursive check() and fix() drivers over the unit-kind graph '
              '(Sourcefile/Module/Subroutine x modules/subroutines/members); whole-repository defined-name universe for '
              'method calls inside fix_* handlers; call-site check of the conservative write-back',
    level='Decides structural necessary conditions of "the fixed file no longer violates the rule": the fixer reaches every '
          'unit kind the checker reports on; fix handlers only call methods that exist; output is written in conservative '
          'mode. Does NOT decide semantic neutrality of an individual fix.',
    note='Unit-kind graph (which attribute holds which kind) is a 4-line table in the rule module.',
    ref='DESIGN.md section 3, C43',
)

RULES = 'loki/lint/rules.py'
UTILS = 'loki/lint/utils.py'
LINTER = 'loki/lint/linter.py'
KIND_OF = {('Sourcefile', 'modules'): 'Module', ('Sourcefile', 'subroutines'): 'Subroutine',
           ('Sourcefile', 'routines'): 'Subroutine', ('Sourcefile', 'all_subroutines'): 'Subroutine',
           ('Module', 'subroutines'): 'Subroutine', ('Module', 'routines'): 'Subroutine',
           ('Subroutine', 'members'): 'Subroutine', ('Subroutine', 'routines'): 'Subroutine'}


def _branches(fnode, var):
    """kind -> list of (attr or None, callee) in the isinstance chain of a check()/fix() driver"""
    out = {}
    node = next((n for n in fnode.body if isinstance(n, ast.If) and 'isinstance' in ast.unparse(n.test)), None)
    while node is not None:
        t = node.test
        if not (isinstance(t, ast.Call) and X.call_name_of(t) == 'isinstance' and ast.unparse(t.args[0]) == var):
            raise AnalysisError(f'unrecognised dispatch test {ast.unparse(t)}')
        kind = ast.unparse(t.args[1])
        acts = []

        def walk(stmts, loop_attr=None):
            for st in stmts:
                if isinstance(st, ast.For):
                    it = st.iter
                    attr = it.attr if isinstance(it, ast.Attribute) and ast.unparse(it.value) == var else None
                    if attr is None:
                        raise AnalysisError(f'unrecognised loop over {ast.unparse(it)}')
                    walk(st.body, attr)
                elif isinstance(st, ast.If):
                    walk(st.body, loop_attr)
                    walk(st.orelse, loop_attr)
                else:
                    for c in ast.walk(st):
                        if isinstance(c, ast.Call) and (X.dotted_attr(c.func) or '').startswith('cls.'):
                            acts.append((loop_attr, c.func.attr))
        walk(node.body)
        out[kind] = acts
        nxt = node.orelse
        node = nxt[0] if len(nxt) == 1 and isinstance(nxt[0], ast.If) else None
    return out


def _reach(branches, driver, leafs, kind='Sourcefile', path='', depth=0, acc=None):
    """set of (path, unit kind, leaf handler) pairs reached from a Sourcefile"""
    acc = acc if acc is not None else set()
    if depth > 2:      # Fortran internal procedures do not nest further
        return acc
    for attr, callee in branches.get(kind, []):
        if attr is None:
            if callee in leafs:
                acc.add((path or '<self>', kind, leafs[callee]))
            continue
        sub = KIND_OF.get((kind, attr))
        if sub is None:
            raise AnalysisError(f'unknown unit attribute {kind}.{attr}')
        p = f'{path}.{attr}' if path else attr
        if callee == driver:
            _reach(branches, driver, leafs, sub, p, depth + 1, acc)
        elif callee in leafs:
            acc.add((p, sub, leafs[callee]))
    return acc


def run(ctx):
    m = ctx.model
    ctx.rule('R1', 'units (path from the Sourcefile, kind) on which check_subroutine/check_module run are a subset of the '
                   'units on which fix_subroutine/fix_module run')
    ctx.rule('R2', 'every method called on an object inside fix_subroutine/fix_module of a fixable rule is defined somewhere '
                   'in loki/pymbolic/builtins')
    ctx.rule('R3', 'Linter.fix writes the file with conservative=True after Fixer.fix')
    gr = m.get_function(RULES, 'GenericRule.check')
    fx = m.get_function(UTILS, 'Fixer.fix')
    cb = _branches(gr.node, [a.arg for a in gr.node.args.args][1])
    fb = _branches(fx.node, [a.arg for a in fx.node.args.args][1])
    creach = _reach(cb, 'check', {'check_subroutine': 'subroutine', 'check_module': 'module', 'check_file': 'file'})
    freach = _reach(fb, 'fix', {'fix_subroutine': 'subroutine', 'fix_module': 'module', 'fix_sourcefile': 'file'})
    ctx.floor('R1', 'checked unit positions', len(creach), 5)
    for path, kind, level in sorted(creach):
        inst = f'{path}:{level}'
        facts = {'checked_at': path, 'kind': kind, 'fix_reach': sorted(p for p, _, l in freach if l == level)}
        if (path, kind, level) in freach:
            ctx.judge('R1', inst, facts=facts)
        else:
            ctx.violation('R1', f'Fixer.fix:{path}', fx.where,
                          f'rules are checked on {kind} units at `{path}` of a Sourcefile (check_{level}) but Fixer.fix never '
                          f'calls fix_{level} there: violations in those units stay unfixed', facts=facts, instance=inst)
    # the fixer applies the mapper to both spec and body
    fs = m.get_function(UTILS, 'Fixer.fix_subroutine')
    src = ast.unparse(fs.node)
    ok = 'subroutine.spec = Transformer(mapper).visit(subroutine.spec)' in src and 'subroutine.body = Transformer(mapper).visit(subroutine.body)' in src
    (ctx.judge('R1', 'fix_subroutine applies mapper to spec and body') if ok else
     ctx.violation('R1', 'Fixer.fix_subroutine:apply', fs.where, 'the fix mapper is not applied to both spec and body'))
    ok = 'report.rule.fix_subroutine(subroutine, report, rule_config)' in src and 'for report in reports' in src
    (ctx.judge('R1', 'fix_subroutine consults every report') if ok else
     ctx.violation('R1', 'Fixer.fix_subroutine:reports', fs.where, 'not every fixable report is handed to its rule'))

    # ---- R2
    universe = set(dir(builtins))
    for t in (str, dict, list, tuple, set, frozenset, object, int, float, bytes, type):
        universe |= set(dir(t))
    # defined-name universe by a fast lexical scan (over-approximation: fewer alarms, never more)
    import os
    import re as _re
    pat = _re.compile(r'(?:\bdef\s+|\bclass\s+)(\w+)|(?:^|[\s.(,])(\w+)\s*(?::[^=\n]+)?=(?!=)', _re.M)
    roots = [os.path.join(m.repo, 'loki'), os.path.join(m.repo, 'lint_rules'),
             os.path.join(os.path.dirname(m.module('pymbolic').path))]
    nfiles = 0
    for root in roots:
        for dp, dn, fn in os.walk(root):
            dn[:] = [d for d in dn if d not in ('tests', '__pycache__')]
            for f in fn:
                if f.endswith('.py'):
                    nfiles += 1
                    for a, b in pat.findall(m.read(os.path.join(dp, f))):
                        universe.add(a or b)
    ctx.floor('R2', 'files scanned for defined names', nfiles, 150)
    ncalls = 0
    nrules = 0
    for rel in ('lint_rules/lint_rules/ifs_coding_standards_2011.py', 'lint_rules/lint_rules/debug_rules.py',
                'lint_rules/lint_rules/ifs_arpege_coding_standards.py'):
        try:
            mod = m.module_by_path(rel)
        except AnalysisError:
            continue
        for c in mod.classes.values():
            fixable, _ = m.class_attr(c, 'fixable')
            for fn_name in ('fix_subroutine', 'fix_module'):
                f = c.function(fn_name)
                if f is None:
                    continue
                nrules += 1
                for n in ast.walk(f.node):
                    if isinstance(n, ast.Call) and isinstance(n.func, ast.Attribute):
                        ncalls += 1
                        name = n.func.attr
                        inst = f'{c.name}.{fn_name}:{name}'
                        if name in universe:
                            ctx.judge('R2', inst, nontrivial=False)
                        else:
                            ctx.violation('R2', inst, f'{mod.relpath}:{n.lineno}',
                                          f'{c.name}.{fn_name} calls `{ast.unparse(n.func)}` but no function, method or attribute '
                                          f'named {name!r} is defined anywhere in loki, pymbolic or the builtins: the fix raises '
                                          f'AttributeError', facts={'call': ast.unparse(n)})
    ctx.floor('R2', 'fix handlers', nrules, 2)
    ctx.floor('R2', 'method calls in fix handlers', ncalls, 10)

    # ---- R3
    lf = m.get_function(LINTER, 'Linter.fix')
    calls = [(n.lineno, ast.unparse(n)) for n in ast.walk(lf.node) if isinstance(n, ast.Call)
             and (X.call_name_of(n) in ('write',) or X.dotted_attr(n.func) == 'Fixer.fix')]
    fixl = [l for l, t in calls if t.startswith('Fixer.fix')]
    wr = [(l, t) for l, t in calls if '.write(' in t]
    ok = fixl and wr and wr[0][0] > fixl[0] and 'conservative=True' in wr[0][1]
    (ctx.judge('R3', 'conservative write-back', facts={'write': wr[0][1] if wr else None}) if ok else
     ctx.violation('R3', 'Linter.fix:write', lf.where, 'the fixed file is not written with conservative=True after Fixer.fix'))
    ok = 'file_report.fixable_reports' in ast.unparse(lf.node)
    (ctx.judge('R3', 'only fixable reports are applied') if ok else
     ctx.violation('R3', 'Linter.fix:reports', lf.where, 'Fixer.fix is not restricted to fixable reports'))


MUTANTS = [
    Mutant('fix-skips-sourcefile-subroutines', UTILS,
           "                for routine in ast.subroutines:\n                    cls.fix_subroutine(routine, reports, config)\n            if hasattr(ast, 'modules') and ast.modules is not None:",
           "                pass\n            if hasattr(ast, 'modules') and ast.modules is not None:", expect=('R1', 'Fixer.fix:subroutines'), quick=True),
    Mutant('write-not-conservative', LINTER, "        sourcefile.write(conservative=True)", "        sourcefile.write()", expect=('R3', 'Linter.fix:write')),
    Mutant('fix-body-only', UTILS, "            subroutine.spec = Transformer(mapper).visit(subroutine.spec)\n", "", expect=('R1', 'fix_subroutine:apply')),
    Mutant('unknown-method-in-fix', 'lint_rules/lint_rules/debug_rules.py',
           "        ubound_checks = cls.get_ubound_checks(subroutine)\n        args = cls.get_assumed_shape_args(subroutine)\n\n        node_map = {}",
           "        ubound_checks = cls.get_ubound_checks(subroutine)\n        args = cls.get_assumed_shape_args(subroutine)\n        subroutine.refresh_symbol_cache_now()\n\n        node_map = {}",
           expect=('R2', 'refresh_symbol_cache_now')),
]
