"""
C29  Associate resolution and merging preserve program behaviour.

 R1  every occurrence is rewritten: when an ``Associate`` node is replaced by its
     body, every expression field of every node in that body must pass through
     the resolving mapper.  A node-specific ``visit_<N>`` override of the
     resolving transformer that rebuilds N itself must therefore visit every
     expression-typed traversable field of N (or delegate to the generic
     handler); a skipped field keeps the associate name although the ASSOCIATE
     block that defines it is removed.
 R2  symbol-kind coverage: for every typed-symbol expression class the resolving
     mapper dispatches to one of its own handlers (not to the inherited identity).
 R3  wiring: ``visit_Expression`` applies the resolving mapper; ``visit_Associate``
     returns the transformed body (or a clone holding it below the start depth);
     symbols are rescoped afterwards.
Not decided: selector evaluation time, bounds remapping, merge legality.
"""
import ast

from sa import dispatch as D, exprs as X
from sa.model import AnalysisError
from sa.mutate import Mutant

PROP = 'C29'

META = dict(
    technique='field-coverage analysis of node-specific visitor overrides against the node class\' traversable expression fields; '
              'static mapper dispatch totality over the typed-symbol classes; wiring checks',
    level='Decides the structural necessary condition that removing an ASSOCIATE block rewrites every expression position of '
          'every node kind (including node-specific overrides) and every symbol kind. Does NOT decide selector evaluation '
          'time or index remapping arithmetic.',
    note='Expression fields are the traversable fields whose annotation mentions Expression.',
    ref='DESIGN.md section 3, C29',
)

FILE = 'loki/transformations/sanitise/associates.py'
SYMBOL_KINDS = ['Scalar', 'Array', 'VariableSymbol', 'DeferredTypeSymbol', 'ProcedureSymbol']
# node being dissolved / rebuilt with its own association list
FIELD_EXEMPT = {('Associate', 'associations'): 'the selectors of the block being resolved / merged are handled explicitly',
                ('Associate', 'body'): 'visited'}


def run(ctx):
    m = ctx.model
    ctx.rule('R1', 'each visit_<N> override of Resolve/MergeAssociatesTransformer visits every expression-typed traversable field '
                   'of N or delegates to super().visit_Node/visit')
    ctx.rule('R2', 'ResolveAssociateMapper handles Scalar/Array/VariableSymbol/DeferredTypeSymbol/ProcedureSymbol with its own methods')
    ctx.rule('R3', 'visit_Expression applies ResolveAssociateMapper; visit_Associate returns the visited body; rescope_symbols follows')
    nodes = {c.name: c for c in D.ir_node_classes(m)}
    nover = 0
    for tn in ('ResolveAssociatesTransformer', 'MergeAssociatesTransformer'):
        T = m.get_class(FILE, tn)
        for mem in T.members.values():
            if mem.kind != 'func' or not mem.name.startswith('visit_'):
                continue
            N = mem.name[len('visit_'):]
            if N not in nodes:
                continue
            nover += 1
            cls = nodes[N]
            fn = mem.node
            par = [a.arg for a in fn.args.args][1]
            src = ast.unparse(fn)
            delegates = 'super().visit_Node(' in src or f'super().visit_{N}(' in src or f'self.visit({par}.children' in src
            fields = m.dataclass_fields(cls)
            trav = D.traversable(m, cls)
            exprf = [f for f in trav if f in fields and D.annotation_mentions(fields[f][0], {'Expression'})]
            visited = set()
            for c in ast.walk(fn):
                if isinstance(c, ast.Call) and X.dotted_attr(c.func) == 'self.visit' and c.args:
                    visited |= X._attrs_of_var(c.args[0], par)
                    # loops: `self.visit(v) for k, v in o.kwarguments`
            taint, flows = X.attr_flows(fn, par)
            for c in ast.walk(fn):
                if isinstance(c, ast.Call) and X.dotted_attr(c.func) == 'self.visit' and c.args:
                    visited |= {a for a in flows(c.args[0]) if a != '*'}
            for fld in exprf:
                inst = f'{tn}.{mem.name}:{fld}'
                ex = FIELD_EXEMPT.get((N, fld))
                if delegates or fld in visited:
                    ctx.judge('R1', inst, facts={'delegates': delegates, 'visited': sorted(visited)})
                elif ex:
                    ctx.judge('R1', inst, nontrivial=False, facts={'exempt': ex})
                else:
                    ctx.violation('R1', inst, f'{T.module.relpath}:{fn.lineno}',
                                  f'{tn}.{mem.name} rebuilds the {N} itself and never passes its expression field `{fld}` through '
                                  f'self.visit: an associate name used there survives the removal of the ASSOCIATE block '
                                  f'(e.g. `call obj%bump()` keeps `obj` after `associate(obj => this%member)` is resolved)',
                                  facts={'visited': sorted(visited), 'expression_fields': exprf})
    ctx.floor('R1', 'node-specific overrides', nover, 3)
    # ---- R2
    M = m.get_class(FILE, 'ResolveAssociateMapper')
    ecls = {c.name: c for c in D.expression_classes(m)}
    for k in SYMBOL_KINDS:
        if k not in ecls:
            raise AnalysisError(f'expression class {k} vanished')
        f, mm = D.mapper_dispatch(m, M, ecls[k])
        inst = f'ResolveAssociateMapper x {k}'
        if f is not None and f.cls is M:
            ctx.judge('R2', inst, facts={'handler': f.qualname})
        else:
            ctx.violation('R2', inst, M.where, f'{k} is handled by {f.qualname if f else None} in ResolveAssociateMapper: associate names of '
                          f'that symbol kind are copied unchanged')
    # ---- R3
    R = m.get_class(FILE, 'ResolveAssociatesTransformer')
    ve = R.function('visit_Expression')
    ok = ve is not None and 'ResolveAssociateMapper(start_depth=self.start_depth)(o)' in ast.unparse(ve.node)
    (ctx.judge('R3', 'visit_Expression applies the mapper') if ok else
     ctx.violation('R3', 'ResolveAssociatesTransformer.visit_Expression', R.where, 'expressions are not passed through ResolveAssociateMapper'))
    va = R.function('visit_Associate')
    rets = [ast.unparse(r.value) for r in ast.walk(va.node) if isinstance(r, ast.Return)]
    ok = sorted(rets) == ['body', 'o.clone(body=body)'] and 'body = self.visit(o.body, **kwargs)' in ast.unparse(va.node)
    (ctx.judge('R3', 'visit_Associate returns visited body', facts={'returns': rets}) if ok else
     ctx.violation('R3', 'ResolveAssociatesTransformer.visit_Associate', va.where, f'visit_Associate returns {rets}'))
    dra = m.get_function(FILE, 'do_resolve_associates')
    src = ast.unparse(dra.node)
    ok = 'routine.body = transformer.visit(routine.body)' in src and 'routine.rescope_symbols()' in src
    (ctx.judge('R3', 'do_resolve_associates wiring') if ok else
     ctx.violation('R3', 'do_resolve_associates', dra.where, 'body not replaced by the transformed body / symbols not rescoped'))


MUTANTS = [
    Mutant('call-skips-kwargs', FILE, "        kwarguments = tuple((k, self.visit(v, **kwargs)) for k, v in o.kwarguments)\n        return o._rebuild(name=name, arguments=arguments, kwarguments=kwarguments)",
           "        return o._rebuild(name=name, arguments=arguments)", expect=('R1', 'visit_CallStatement:kwarguments'), quick=True),
    Mutant('call-skips-name', FILE, "        name = self.visit(o.name, **kwargs)\n        arguments = self.visit(o.arguments, **kwargs)", "        name = o.name\n        arguments = self.visit(o.arguments, **kwargs)",
           expect=('R1', 'visit_CallStatement:name')),
    Mutant('mapper-drops-procedure-symbols', FILE, "    map_procedure_symbol = map_scalar\n", "", expect=('R2', 'ProcedureSymbol')),
    Mutant('expressions-not-mapped', FILE, "        return ResolveAssociateMapper(start_depth=self.start_depth)(o)", "        return o",
           expect=('R3', 'visit_Expression')),
]
