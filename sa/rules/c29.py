"""
C29  Associate resolution and merging preserve program behaviour.

 R1  every occurrence is rewritten: when an ``Associate`` node is replaced by its
     body, every expression field of every node in that body must pass through
     the resolving mapper.  A node-specific ``visit_<N>`` override of the
     resolving transformer that rebuilds N itself must therefore visit every
     expression-typed traversable field of N (or delegate to the generic
     handler); a skipped field keeps the associate name although the ASSOCIATE
     block that defines it is removed.
 R2  symbol-kind coverage: for every typed-symbol expression class the resolving
     mapper dispatches to one of its own handlers (not to the inherited identity).
 R3  wiring: ``visit_Expression`` applies the resolving mapper; ``visit_Associate``
     returns the transformed body (or a clone holding it below the start depth);
     symbols are rescoped afterwards.
 R4  index binding is all-or-nothing: ``_match_range_indices`` binds the given
     indices to the free ``:`` of the selector one by one; the guard in front of
     that binding is evaluated for all (number of free ranges, number of indices)
     in 0..3 x 0..3 and may fire only when the two counts are equal (fewer indices
     raise, more indices silently bind the wrong position and drop the rest).
 R5  the name -> selector table consulted by the mapper (``Associate.inverse_map``)
     is built from the association *list*; going through a mapping keyed by the
     selector collapses two names bound to the same selector and one of them is
     never replaced.
 R8  ``_match_range_indices`` is executed over abstract subscripts: ``y(:)`` keeps
     the section of the selector, other subscripts replace it in order, fixed
     subscripts of the selector stay.
 R6  the subscripts of a substituted symbol are resolved themselves before the
     range matching in ``ResolveAssociateMapper.map_array``.
 R7  merging keeps every name bound: an association moved to the enclosing block
     is appended unless the same (selector, name) pair is already there; the same
     selector under another name is not a duplicate (filter evaluated abstractly).
Not decided: selector evaluation time, bounds shifts, merge legality.
"""
import ast

from sa import dispatch as D, exprs as X
from sa.model import AnalysisError
from sa.mutate import Mutant

PROP = 'C29'

META = dict(
    technique='field-coverage analysis of node-specific visitor overrides against the node class\' traversable expression fields; '
              'static mapper dispatch totality over the typed-symbol classes; wiring checks',
    level='Decides the structural necessary condition that removing an ASSOCIATE block rewrites every expression position of '
          'every node kind (including node-specific overrides) and every symbol kind. Does NOT decide selector evaluation '
          'time or index remapping arithmetic.',
    note='Expression fields are the traversable fields whose annotation mentions Expression.',
    ref='DESIGN.md section 3, C29',
)

FILE = 'loki/transformations/sanitise/associates.py'
SYMBOL_KINDS = ['Scalar', 'Array', 'VariableSymbol', 'DeferredTypeSymbol', 'ProcedureSymbol']
# node being dissolved / rebuilt with its own association list
FIELD_EXEMPT = {('Associate', 'associations'): 'the selectors of the block being resolved / merged are handled explicitly',
                ('Associate', 'body'): 'visited'}


def run(ctx):
    m = ctx.model
    ctx.rule('R1', 'each visit_<N> override of Resolve/MergeAssociatesTransformer visits every expression-typed traversable field '
                   'of N or delegates to super().visit_Node/visit')
    ctx.rule('R2', 'ResolveAssociateMapper handles Scalar/Array/VariableSymbol/DeferredTypeSymbol/ProcedureSymbol with its own methods')
    ctx.rule('R3', 'visit_Expression applies ResolveAssociateMapper; visit_Associate returns the visited body; rescope_symbols follows')
    nodes = {c.name: c for c in D.ir_node_classes(m)}
    nover = 0
    for tn in ('ResolveAssociatesTransformer', 'MergeAssociatesTransformer'):
        T = m.get_class(FILE, tn)
        for mem in T.members.values():
            if mem.kind != 'func' or not mem.name.startswith('visit_'):
                continue
            N = mem.name[len('visit_'):]
            if N not in nodes:
                continue
            nover += 1
            cls = nodes[N]
            fn = mem.node
            par = [a.arg for a in fn.args.args][1]
            src = ast.unparse(fn)
            delegates = X.has(src, 'super().visit_Node(') or X.has(src, f'super().visit_{N}(') or X.has(src, f'self.visit({par}.children')
            fields = m.dataclass_fields(cls)
            trav = D.traversable(m, cls)
            exprf = [f for f in trav if f in fields and D.annotation_mentions(fields[f][0], {'Expression'})]
            visited = set()
            for c in ast.walk(fn):
                if isinstance(c, ast.Call) and X.dotted_attr(c.func) == 'self.visit' and c.args:
                    visited |= X._attrs_of_var(c.args[0], par)
                    # loops: `self.visit(v) for k, v in o.kwarguments`
            taint, flows = X.attr_flows(fn, par)
            for c in ast.walk(fn):
                if isinstance(c, ast.Call) and X.dotted_attr(c.func) == 'self.visit' and c.args:
                    visited |= {a for a in flows(c.args[0]) if a != '*'}
            for fld in exprf:
                inst = f'{tn}.{mem.name}:{fld}'
                ex = FIELD_EXEMPT.get((N, fld))
                if delegates or fld in visited:
                    ctx.judge('R1', inst, facts={'delegates': delegates, 'visited': sorted(visited)})
                elif ex:
                    ctx.judge('R1', inst, nontrivial=False, facts={'exempt': ex})
                else:
                    ctx.violation('R1', inst, f'{T.module.relpath}:{fn.lineno}',
                                  f'{tn}.{mem.name} rebuilds the {N} itself and never passes its expression field `{fld}` through '
                                  f'self.visit: an associate name used there survives the removal of the ASSOCIATE block '
                                  f'(e.g. `call obj%bump()` keeps `obj` after `associate(obj => this%member)` is resolved)',
                                  facts={'visited': sorted(visited), 'expression_fields': exprf})
    ctx.floor('R1', 'node-specific overrides', nover, 3)
    # ---- R2
    M = m.get_class(FILE, 'ResolveAssociateMapper')
    ecls = {c.name: c for c in D.expression_classes(m)}
    for k in SYMBOL_KINDS:
        if k not in ecls:
            raise AnalysisError(f'expression class {k} vanished')
        f, mm = D.mapper_dispatch(m, M, ecls[k])
        inst = f'ResolveAssociateMapper x {k}'
        if f is not None and f.cls is M:
            ctx.judge('R2', inst, facts={'handler': f.qualname})
        else:
            ctx.violation('R2', inst, M.where, f'{k} is handled by {f.qualname if f else None} in ResolveAssociateMapper: associate names of '
                          f'that symbol kind are copied unchanged')
    # ---- R3
    R = m.get_class(FILE, 'ResolveAssociatesTransformer')
    ve = R.function('visit_Expression')
    if ve is None:
        ctx.violation('R3', 'ResolveAssociatesTransformer.visit_Expression', R.where, 'expressions are not passed through ResolveAssociateMapper')
    else:
        ctx.wired('R3', 'ResolveAssociatesTransformer.visit_Expression', R.where, ast.unparse(ve.node),
                  ['ResolveAssociateMapper(start_depth=self.start_depth)(o)'], 'expressions are not passed through ResolveAssociateMapper')
    va = R.function('visit_Associate')
    rets = [ast.unparse(r.value) for r in ast.walk(va.node) if isinstance(r, ast.Return)]
    bn = (X.names_assigned_from(va.node, 'self.visit(o.body') or ['body'])[0]
    ok = sorted(rets) == sorted([bn, f'o.clone(body={bn})'])
    (ctx.judge('R3', 'visit_Associate returns visited body', facts={'returns': rets}) if ok else
     ctx.violation('R3', 'ResolveAssociatesTransformer.visit_Associate', va.where, f'visit_Associate returns {rets}'))
    dra = m.get_function(FILE, 'do_resolve_associates')
    src = ast.unparse(dra.node)
    ctx.wired('R3', 'do_resolve_associates', dra.where, src, ['routine.body = transformer.visit(routine.body)', 'routine.rescope_symbols()'],
              'body not replaced by the transformed body / symbols not rescoped')
    _r4_r5(ctx)
    _r6_r7(ctx)
    _r8(ctx)


def _r8(ctx):
    from sa.miniev import run_function, Unknown
    m = ctx.model
    ctx.rule('R8', '_match_range_indices, executed abstractly: a full-range subscript `:` keeps the section of the selector, any other '
                   'subscript replaces it, fixed subscripts of the selector stay')
    M = m.get_class(FILE, 'ResolveAssociateMapper')
    f = M.function('_match_range_indices')
    if f is None:
        raise AnalysisError('ResolveAssociateMapper._match_range_indices vanished')

    class R:                                        # abstract RangeIndex
        def __init__(self, lower=None, upper=None, step=None):
            self.lower, self.upper, self.step = lower, upper, step
            self.start, self.stop = lower, upper

        def __repr__(self):
            return f'{self.lower or ""}:{self.upper or ""}' + (f':{self.step}' if self.step else '')

        def __eq__(self, o):
            return isinstance(o, R) and (self.lower, self.upper, self.step) == (o.lower, o.upper, o.step)

        def __hash__(self):
            return hash((self.lower, self.upper, self.step))
    import types
    symns = types.SimpleNamespace(RangeIndex=R)
    pars = [a.arg for a in f.node.args.args if a.arg not in ('self', 'cls')]
    SEL = R(1, 'n-1')
    cases = [((SEL, 2), (R(),), (SEL, 2), 'y(:) keeps arr(1:n-1, 2)'),
             ((SEL, 2), ('i',), ('i', 2), 'y(i) becomes arr(i, 2)'),
             ((R(), 2), (R(),), (R(), 2), 'z(:) stays arr(:, 2)'),
             ((SEL, R()), (R(2, 3), 'j'), (R(2, 3), 'j'), 'w(2:3, j) replaces both sections')]
    for exprs, idx, want, label in cases:
        env = {pars[0]: exprs, pars[1]: idx, 'sym': symns, 'isinstance': isinstance, 'tuple': tuple, 'len': len, 'iter': iter, 'next': next,
               'any': any, 'warning': lambda *a: None, 'RangeIndex': R}
        try:
            got = run_function(f.node, env)
        except Unknown as u:
            raise AnalysisError(f'_match_range_indices uses `{u}`, outside the evaluated fragment')
        inst = f'_match_range_indices:{label}'
        if tuple(got) == tuple(want):
            ctx.judge('R8', inst)
        else:
            ctx.violation('R8', 'ResolveAssociateMapper._match_range_indices:binding', f'{FILE}:{f.node.lineno}',
                          f'selector subscripts {exprs} with use subscripts {idx} give {tuple(got)}, expected {tuple(want)} ({label}): the resolved '
                          f'reference covers other elements than the associate name did', instance=inst)


def _r6_r7(ctx):
    import types
    from sa.miniev import ev_ext, Unknown
    m = ctx.model
    ctx.rule('R6', 'ResolveAssociateMapper.map_array: the subscripts of the substituted symbol are resolved (self.rec) before the range matching')
    ctx.rule('R7', 'MergeAssociatesTransformer.visit_Associate: an association moved to the parent is appended unless the *same pair* '
                   '(selector, name) is already there -- evaluated for same selector / other name')
    M = m.get_class(FILE, 'ResolveAssociateMapper')
    ma = M.function('map_array')
    if ma is None:
        raise AnalysisError('ResolveAssociateMapper.map_array vanished')
    calls = [c for c in ast.walk(ma.node) if isinstance(c, ast.Call) and (X.dotted_attr(c.func) or '').endswith('_match_range_indices') and c.args]
    if not calls:
        raise AnalysisError('map_array: call of _match_range_indices not found')
    recd = set(X.names_assigned_from(ma.node, 'self.rec(', '.dimensions'))
    for c in calls:
        a0 = c.args[0]
        ok = (isinstance(a0, ast.Name) and a0.id in recd) or ('self.rec(' in ast.unparse(a0))
        (ctx.judge('R6', 'map_array: replaced subscripts are resolved before matching') if ok else
         ctx.violation('R6', 'ResolveAssociateMapper.map_array:subscripts-not-resolved', f'{FILE}:{c.lineno}',
                       f'`{ast.unparse(c)[:80]}` matches the subscripts of the substituted symbol as they are: an associate name used as a '
                       f'subscript of a member of an associated parent (geom%height(i, ktop) with ktop => obj%dims%ktop) is left dangling '
                       f'once the ASSOCIATE block is removed'))
    T = m.get_class(FILE, 'MergeAssociatesTransformer')
    va = T.function('visit_Associate')
    if va is None:
        raise AnalysisError('MergeAssociatesTransformer.visit_Associate vanished')
    par = [a.arg for a in va.node.args.args][1]
    upd = [c for c in ast.walk(va.node) if isinstance(c, ast.Call) and (X.dotted_attr(c.func) or '') == f'{par}.parent._update']
    if not upd:
        raise AnalysisError('visit_Associate: update of the parent associations not found')
    added = {n.id for c in upd for k in c.keywords if k.arg == 'associations' for n in ast.walk(k.value) if isinstance(n, ast.Name)} - {par}
    comps = [a.value.args[0] if isinstance(a.value, ast.Call) and a.value.args else a.value for a in ast.walk(va.node)
             if isinstance(a, ast.Assign) and any(isinstance(t, ast.Name) and t.id in added for t in a.targets)]
    comps = [c for c in comps if isinstance(c, (ast.GeneratorExp, ast.ListComp)) and c.generators[0].ifs]
    if len(comps) != 1:
        raise AnalysisError('visit_Associate: the filter deciding what is appended to the parent was not found')
    gen = comps[0]
    tgt = gen.generators[0].target
    if not (isinstance(tgt, ast.Tuple) and len(tgt.elts) == 2):
        raise AnalysisError('visit_Associate: filter target is not a (selector, name) pair')
    en, nn = tgt.elts[0].id, tgt.elts[1].id
    S, S2 = 'model%phy', 'model%dyn'
    parent = types.SimpleNamespace(associations=((S, 'phy'),), association_map={S: 'phy'}, inverse_map={'phy': S})
    cases = {'same selector, same name (already there)': ((S, 'phy'), False), 'same selector, other name': ((S, 'yphy'), True),
             'other selector': ((S2, 'dyn'), True)}
    for label, ((e_, n_), want) in cases.items():
        env = {en: e_, nn: n_, par: types.SimpleNamespace(parent=parent)}
        try:
            got = all(bool(ev_ext(c, env)) for c in gen.generators[0].ifs)
        except Unknown as u:
            raise AnalysisError(f'visit_Associate: filter uses `{u}`, outside the evaluated fragment')
        inst = f'visit_Associate:append-to-parent:{label}'
        if got == want:
            ctx.judge('R7', inst)
        else:
            ctx.violation('R7', 'MergeAssociatesTransformer.visit_Associate:pair-dropped', f'{FILE}:{gen.lineno}',
                          f'with the parent binding {S} as `phy`, the moved association ({e_} => {n_}) is {"appended" if got else "not appended"} '
                          f'(filter `{" and ".join(ast.unparse(c) for c in gen.generators[0].ifs)}`): the pair is removed from the inner block '
                          f'either way, so the name `{n_}` becomes unbound in the body', instance=inst)


def _r4_r5(ctx):
    import itertools
    from sa.miniev import ev, Unknown
    m = ctx.model
    ctx.rule('R4', '_match_range_indices: the guard of the sequential binding (next(it) per RangeIndex) holds only when '
                   'len(free ranges) == len(indices), evaluated over 0..3 x 0..3')
    ctx.rule('R5', 'Associate.inverse_map iterates the `associations` field itself (pairs), not a mapping keyed by selector')
    M = m.get_class(FILE, 'ResolveAssociateMapper')
    f = M.function('_match_range_indices')
    if f is None:
        raise AnalysisError('ResolveAssociateMapper._match_range_indices vanished')
    params = [a.arg for a in f.node.args.args]
    # the collection of free ranges: a local assigned from a comprehension filtered by isinstance(.., RangeIndex)
    free = [n.targets[0].id for n in ast.walk(f.node) if isinstance(n, ast.Assign) and isinstance(n.targets[0], ast.Name)
            and 'RangeIndex' in ast.unparse(n.value) and isinstance(n.value, ast.Call)]
    binds = []
    for node, guards in X.nodes_with_guards(f.node, lambda x: isinstance(x, ast.Call) and X.call_name_of(x) == 'next', early=True):
        binds.append((node, guards))
    if not free or not binds or len(params) < 2:
        raise AnalysisError('_match_range_indices: binding idiom (free ranges / next(it)) not recognised')
    idx = params[-1]
    nb = 0
    for node, guards in binds:
        nb += 1
        gasts = [ast.parse(g, mode='eval').body for g in guards]
        bad = None
        for nf, ni in itertools.product(range(4), range(4)):
            env = {free[0]: ('X',) * nf, idx: ('X',) * ni}
            try:
                fires = all(ev(g, env) for g in gasts)
            except Unknown as u:
                raise AnalysisError(f'_match_range_indices: guard uses `{u}`, outside the evaluated fragment')
            if fires and nf != ni and bad is None:
                bad = (nf, ni)
        inst = '_match_range_indices:binding-guard'
        gtxt = ' and '.join(guards) or 'True'
        if bad:
            ctx.violation('R4', inst, f'{f.module.relpath}:{node.lineno}',
                          f'the indices are bound to the free ranges under `{gtxt}`, which also holds for {bad[0]} free range(s) and '
                          f'{bad[1]} indices: e.g. `c%arr(i, :)` with one free `:` and the two subscripts (i, :) binds the first subscript '
                          f'to the free position and drops the rest', facts={'guard': gtxt, 'counterexample': {'free': bad[0], 'indices': bad[1]}})
        else:
            ctx.judge('R4', inst, facts={'guard': gtxt, 'pairs_evaluated': 16})
    ctx.floor('R4', 'sequential index bindings', nb, 1)
    # ---- R5
    A = m.get_class('loki/ir/nodes/internal_nodes.py', 'Associate')
    inv = A.members.get('inverse_map')
    if inv is None:
        raise AnalysisError('Associate.inverse_map vanished')
    comps = [c for c in ast.walk(inv.node) if isinstance(c, (ast.GeneratorExp, ast.ListComp, ast.DictComp))]
    if len(comps) != 1:
        raise AnalysisError('Associate.inverse_map: expected one comprehension')
    it = comps[0].generators[0].iter
    txt = ast.unparse(it)
    if txt == 'self.associations':
        ctx.judge('R5', 'Associate.inverse_map:source', facts={'iterates': txt})
    elif isinstance(it, ast.Call) and isinstance(it.func, ast.Attribute) and it.func.attr in ('items', 'keys', 'values'):
        ctx.violation('R5', 'Associate.inverse_map:source', f'{A.module.relpath}:{inv.node.lineno}',
                      f'inverse_map is derived from `{txt}`, a mapping keyed by the selector: two names associated with the same selector '
                      f'(`associate(told => base%t, t => base%t)`) collapse to one entry and the other name is never resolved although '
                      f'the ASSOCIATE block is removed', facts={'iterates': txt})
    else:
        raise AnalysisError(f'Associate.inverse_map iterates `{txt}`: unrecognised source')
    use = [n for n in ast.walk(M.function('map_scalar').node) if isinstance(n, ast.Attribute) and n.attr == 'inverse_map']
    ctx.floor('R5', 'uses of inverse_map in the resolving mapper', len(use), 1)


MUTANTS = [
    Mutant('full-range-replaces-selector-section', FILE, "                _bind(e, next(it)) if isinstance(e, sym.RangeIndex) else e", "                next(it) if isinstance(e, sym.RangeIndex) else e",
           expect=('R8', 'binding')),
    Mutant('replaced-subscripts-not-resolved', FILE, "            new_dims = self.rec(new.dimensions, *args, **kwargs)\n            new_dims = self._match_range_indices(new_dims, expr_dims)",
           "            new_dims = self._match_range_indices(new.dimensions, expr_dims)", expect=('R6', 'subscripts-not-resolved')),
    Mutant('merge-dedup-by-selector', FILE, "            if (expr, name) not in o.parent.associations\n", "            if expr not in o.parent.association_map\n",
           expect=('R7', 'pair-dropped')),
    Mutant('binding-guard-at-least', FILE, "        if len(free_symbols) == len(indices):", "        if len(indices) >= len(free_symbols):", expect=('R4', 'binding-guard')),
    Mutant('neutral-binding-guard-flipped', FILE, "        if len(free_symbols) == len(indices):", "        if not len(indices) != len(free_symbols):", expect=None),
    Mutant('inverse-map-through-selector-map', 'loki/ir/nodes/internal_nodes.py', "        return CaseInsensitiveDict((v, k) for k, v in self.associations)",
           "        return CaseInsensitiveDict((v, k) for k, v in self.association_map.items())", expect=('R5', 'inverse_map')),
    Mutant('call-skips-kwargs', FILE, "        kwarguments = tuple((k, self.visit(v, **kwargs)) for k, v in o.kwarguments)\n        chevron = self.visit(o.chevron, **kwargs)\n        return o._rebuild(name=name, arguments=arguments, kwarguments=kwarguments, chevron=chevron)",
           "        chevron = self.visit(o.chevron, **kwargs)\n        return o._rebuild(name=name, arguments=arguments, chevron=chevron)", expect=('R1', 'visit_CallStatement:kwarguments'), quick=True),
    Mutant('call-skips-name', FILE, "        name = self.visit(o.name, **kwargs)\n        arguments = self.visit(o.arguments, **kwargs)", "        name = o.name\n        arguments = self.visit(o.arguments, **kwargs)",
           expect=('R1', 'visit_CallStatement:name')),
    Mutant('mapper-drops-procedure-symbols', FILE, "    map_procedure_symbol = map_scalar\n", "", expect=('R2', 'ProcedureSymbol')),
    Mutant('expressions-not-mapped', FILE, "        return ResolveAssociateMapper(start_depth=self.start_depth)(o)", "        return o",
           expect=('R3', 'visit_Expression')),
]
