"""
C10  Loop-range helpers match Fortran DO-loop iteration semantics.

Clause decided: the enumeration helper treats the sign of the step.
 R1  a three-argument ``range(start, stop + k, step)`` built from a LoopRange
     with a *constant* inclusive-bound adjustment ``k`` must be control-dependent
     on the sign of ``step`` (or derive the adjustment from it): for a negative
     step Python's exclusive bound needs ``stop - 1``.
 R2  the two-argument form is only used when the step is absent (== 1).
 R3  consumers (call graph): who enumerates iterations through the helper.
Not decided: num_iterations / normalized / iteration_number / iteration_index
formulas (arithmetic).
"""
import ast

from sa import exprs as X
from sa.model import AnalysisError
from sa.mutate import Mutant

PROP = 'C10'

META = dict(
    technique='syntactic value analysis of range(...) constructions from LoopRange fields: inclusive-bound adjustment constant vs '
              'control dependence on the step sign; call-graph listing of consumers',
    level='Decides one necessary condition: enumerating a DO range with Python range() needs a stop adjustment whose sign follows '
          'the step; a constant +1 with an arbitrary step loses the last iteration of every descending loop. Does NOT decide the '
          'iteration-count / index formulas.',
    note='Only range() calls in loki/expression/symbolic.py whose arguments derive from a LoopRange parameter are judged.',
    ref='DESIGN.md section 3, C10',
)

FILE = 'loki/expression/symbolic.py'


def stop_adjustments(fnode):
    """[(range call, ok, facts)] for every three-argument range(a, b +/- k, s) in the function: ok iff the constant
    adjustment of the (inclusive) bound agrees with the sign of s established by the guards (incl. early returns)."""
    out = []
    for call, guards in X.nodes_with_guards(fnode, lambda x: isinstance(x, ast.Call) and isinstance(x.func, ast.Name) and x.func.id == 'range',
                                            early=True):
        if len(call.args) != 3:
            continue
        stop, step = call.args[1], call.args[2]
        const_adj = isinstance(stop, ast.BinOp) and isinstance(stop.op, (ast.Add, ast.Sub)) and isinstance(stop.right, ast.Constant)
        step_txt = ast.unparse(step)
        neg = any(g.replace(' ', '') in (f'{step_txt}<0', f'not({step_txt}>=0)', f'not({step_txt}>0)') for g in guards)
        pos = any(g.replace(' ', '') in (f'{step_txt}>0', f'{step_txt}>=0', f'not({step_txt}<0)') for g in guards)
        need = {ast.Add: 'pos', ast.Sub: 'neg'}.get(type(stop.op)) if const_adj else None
        ok = (not const_adj) or (need == 'pos' and pos and not neg) or (need == 'neg' and neg and not pos)
        facts = {'stop': ast.unparse(stop), 'step': step_txt, 'guards': guards,
                 'step_sign_context': 'neg' if neg else 'pos' if pos else 'unknown'}
        # the exclusive end of a range lies ONE beyond the inclusive bound, whatever the stride: an adjustment that is not
        # the constant 1 (e.g. `+ step`) over-/under-shoots unless the bound happens to be stride-aligned
        stopnames = set()
        for a_ in ast.walk(fnode):
            if isinstance(a_, ast.Assign):
                tg_, vl_ = a_.targets[0], a_.value
                if isinstance(tg_, ast.Tuple) and isinstance(vl_, ast.Tuple) and len(tg_.elts) == len(vl_.elts):
                    stopnames |= {t_.id for t_, v_ in zip(tg_.elts, vl_.elts) if isinstance(t_, ast.Name) and '.stop' in ast.unparse(v_)}
                elif isinstance(tg_, ast.Name) and '.stop' in ast.unparse(vl_):
                    stopnames.add(tg_.id)
        from_stop = isinstance(stop, ast.BinOp) and ('.stop' in ast.unparse(stop.left) or any(
            isinstance(x_, ast.Name) and x_.id in stopnames for x_ in ast.walk(stop.left)))
        if isinstance(stop, ast.BinOp) and isinstance(stop.op, (ast.Add, ast.Sub)) and from_stop:
            if not (isinstance(stop.right, ast.Constant) and stop.right.value == 1):
                ok = False
                facts['non_unit_adjustment'] = ast.unparse(stop.right)
        out.append((call, ok, facts))
    return out


def run(ctx):
    m = ctx.model
    mod = m.module_by_path(FILE)
    ctx.rule('R1', 'range(a, b + k, s) with constant k from a LoopRange: k must depend on the sign of s (guard on s or sign-derived k)')
    ctx.rule('R2', 'range(a, b + 1) (implicit step 1) is only used under `step is None`')
    ctx.rule('R3', 'list consumers of get_pyrange (unrolling, constant propagation)')
    n = 0
    for fn in mod.functions.values():
        params = [a.arg for a in fn.node.args.args]
        lr = [p for p in params if 'range' in p.lower()]
        if not lr:
            continue
        # locals computed from the LoopRange parameter
        derived = set(lr)
        grew = True
        while grew:
            grew = False
            for a_ in ast.walk(fn.node):
                if isinstance(a_, ast.Assign) and any(isinstance(x_, ast.Name) and x_.id in derived for x_ in ast.walk(a_.value)):
                    for t_ in a_.targets:
                        for x_ in ast.walk(t_):
                            if isinstance(x_, ast.Name) and x_.id not in derived:
                                derived.add(x_.id)
                                grew = True
        for call, guards in X.nodes_with_guards(fn.node, lambda x: isinstance(x, ast.Call) and isinstance(x.func, ast.Name) and x.func.id == 'range', early=True):
            if not any(isinstance(x_, ast.Name) and x_.id in derived for x_ in ast.walk(call)):
                continue
            n += 1
            inst = f'{fn.name}:{ast.unparse(call)[:60]}'
            where = f'{mod.relpath}:{call.lineno}'
            if len(call.args) == 3:
                adj = {id(c_): (ok_, f_) for c_, ok_, f_ in stop_adjustments(fn.node)}
                ok3, facts = adj.get(id(call), (True, {}))
                if not ok3:
                    if 'non_unit_adjustment' in facts:
                        why = (f"the exclusive end is obtained by adjusting the inclusive bound by `{facts['non_unit_adjustment']}` instead "
                               f"of 1: unless the bound is stride-aligned the range gains or loses an iteration (DO i=10,1,-2 also yields 0)")
                    else:
                        why = ("the inclusive upper bound is turned into Python's exclusive bound by a constant 1 whatever the sign of the "
                               "step: DO i=10,1,-3 enumerates 10,7,4 and loses 1")
                    ctx.violation('R1', f'{fn.name}:range-stop-adjustment', where, f'`{ast.unparse(call)}`: {why}', facts=facts, instance=inst)
                else:
                    ctx.judge('R1', inst, facts=facts)
            elif len(call.args) == 2:
                ok = any('step is None' in g for g in guards)
                (ctx.judge('R2', inst, facts={'guards': guards}) if ok else
                 ctx.violation('R2', f'{fn.name}:range-without-step', where, 'two-argument range() used although a step may be present'))
    ctx.floor('R1', 'range() constructions from LoopRange', n, 2)
    # consumers
    users = []
    import os
    import re as _re
    for dp, dn, fnames in os.walk(os.path.join(m.repo, 'loki')):
        dn[:] = [d for d in dn if d not in ('tests', '__pycache__')]
        for fname in sorted(fnames):
            if fname.endswith('.py'):
                path = os.path.join(dp, fname)
                for i, line in enumerate(m.read(path).splitlines(), 1):
                    if _re.search(r'\bget_pyrange\(', line) and not line.lstrip().startswith('def '):
                        users.append(f'{os.path.relpath(path, m.repo)}:{i}')
    ctx.judge('R3', 'consumers of get_pyrange', nontrivial=bool(users), facts={'call_sites': users})
    ctx.extra['get_pyrange_consumers'] = users


MUTANTS = [
    Mutant('descending-branch-removed', FILE,
           "    if step < 0:\n        # Descending loop: the (inclusive) bound is the smallest value\n        return range(LEM(loop_range.start), ceil(LEM(loop_range.stop))-1, step)\n",
           "", expect=('R1', 'range-stop-adjustment'), quick=True),
    Mutant('descending-branch-wrong-adjustment', FILE, "ceil(LEM(loop_range.stop))-1, step)", "ceil(LEM(loop_range.stop))+1, step)", expect=('R1', 'range-stop-adjustment')),
    Mutant('neutral-else-form', FILE,
           "        return range(LEM(loop_range.start), ceil(LEM(loop_range.stop))-1, step)\n    return range(LEM(loop_range.start), floor(LEM(loop_range.stop))+1, step)",
           "        return range(LEM(loop_range.start), ceil(LEM(loop_range.stop))-1, step)\n    else:\n        return range(LEM(loop_range.start), floor(LEM(loop_range.stop))+1, step)", expect=None),
    Mutant('unit-range-ignores-step', FILE, "    if loop_range.step is None:\n        return range(LEM(loop_range.start), floor(LEM(loop_range.stop))+1)\n",
           "    if True:\n        return range(LEM(loop_range.start), floor(LEM(loop_range.stop))+1)\n", expect=('R2', 'range-without-step')),
]
