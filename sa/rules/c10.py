"""
C10  Loop-range helpers match Fortran DO-loop iteration semantics.

Clauses decided: the enumeration helper treats the sign of the step (R1-R3); the four
symbolic helpers return the DO-loop formulas (R4-R6).
 R1  a three-argument ``range(start, stop + k, step)`` built from a LoopRange
     with a *constant* inclusive-bound adjustment ``k`` must be control-dependent
     on the sign of ``step`` (or derive the adjustment from it): for a negative
     step Python's exclusive bound needs ``stop - 1``.
 R2  the two-argument form is only used when the step is absent (== 1).
 R3  consumers (call graph): who enumerates iterations through the helper.
 R4  trip count: on every path of ``LoopRange.num_iterations`` the returned
     formula is, as a formula, ``floor((stop - start + step) / step)`` (``step``
     absent: ``stop - start + 1``); ``normalized`` is ``(1, num_iterations)``.
 R5  ``iteration_number(x)`` is ``floor((x - start + step) / step)``.
 R6  ``iteration_index(k)`` is ``start + (k - 1) * step``.
 R4-R6 compare *formulas*: each returned expression (loki constructor trees,
 Python integer arithmetic on ``.value``, or a mix) is extracted per path into a
 "polynomial + rounded quotient" normal form (sa/ratform.py) and rewritten only
 by sound identities (floor absorbs integer addends; ``-floor(x) = ceil(-x)``;
 truncation is floor where the quotient is non-negative, which a non-empty loop
 guarantees for ``(stop - start) / step``; ceil is turned into floor only under a
 guard on the sign of the step).  A formula that is not the DO-loop formula is
 reported together with a concrete (start, stop, step) on which the two
 *formulas* differ; a formula outside the normal form is an analysis error.
 The same forms decide a ``range(start, E, step)`` whose end is computed from a
 trip count (R1): ``E`` must be ``start + step * floor((stop - start + step) /
 step)`` for *all* integers, including empty loops.
Not decided: what simplify() and the evaluation mapper later do to these formulas
(C08/C09), and which bounds the consumers pass in (C31, C32).
"""
import ast

from sa import exprs as X
from sa import ratform as RF
from sa.model import AnalysisError
from sa.mutate import Mutant

PROP = 'C10'

META = dict(
    technique='syntactic value analysis of range(...) constructions from LoopRange fields: inclusive-bound adjustment constant vs '
              'control dependence on the step sign; per-path extraction of the trip-count / iteration-number / iteration-index '
              'formulas into polynomial + rounded-quotient normal forms compared with the DO-loop formulas by sound rewriting; '
              'call-graph listing of consumers',
    level='Decides (a) that enumerating a DO range with Python range() adjusts the inclusive bound according to the sign of the '
          'step, or derives the end from the floor trip count, and (b) that the four symbolic helpers return, on every path, a '
          'formula identical to the DO-loop formula. Does NOT decide the arithmetic performed later by simplify() or by the '
          'evaluation mapper on those formulas.',
    note='Only range() calls in loki/expression/symbolic.py whose arguments derive from a LoopRange parameter are judged. A formula '
         'the normal form cannot express is an analysis error (exit 2), never a violation.',
    ref='DESIGN.md section 3, C10',
)

FILE = 'loki/expression/symbolic.py'


def stop_adjustments(fnode):
    """[(range call, ok, facts)] for every three-argument range(a, b +/- k, s) in the function: ok iff the constant
    adjustment of the (inclusive) bound agrees with the sign of s established by the guards (incl. early returns)."""
    out = []
    for call, guards in X.nodes_with_guards(fnode, lambda x: isinstance(x, ast.Call) and isinstance(x.func, ast.Name) and x.func.id == 'range',
                                            early=True):
        if len(call.args) != 3:
            continue
        stop, step = call.args[1], call.args[2]
        const_adj = isinstance(stop, ast.BinOp) and isinstance(stop.op, (ast.Add, ast.Sub)) and isinstance(stop.right, ast.Constant)
        step_txt = ast.unparse(step)
        neg = any(g.replace(' ', '') in (f'{step_txt}<0', f'not({step_txt}>=0)', f'not({step_txt}>0)') for g in guards)
        pos = any(g.replace(' ', '') in (f'{step_txt}>0', f'{step_txt}>=0', f'not({step_txt}<0)') for g in guards)
        need = {ast.Add: 'pos', ast.Sub: 'neg'}.get(type(stop.op)) if const_adj else None
        ok = (not const_adj) or (need == 'pos' and pos and not neg) or (need == 'neg' and neg and not pos)
        facts = {'stop': ast.unparse(stop), 'step': step_txt, 'guards': guards,
                 'step_sign_context': 'neg' if neg else 'pos' if pos else 'unknown'}
        # the exclusive end of a range lies ONE beyond the inclusive bound, whatever the stride: an adjustment that is not
        # the constant 1 (e.g. `+ step`) over-/under-shoots unless the bound happens to be stride-aligned
        stopnames = set()
        for a_ in ast.walk(fnode):
            if isinstance(a_, ast.Assign):
                tg_, vl_ = a_.targets[0], a_.value
                if isinstance(tg_, ast.Tuple) and isinstance(vl_, ast.Tuple) and len(tg_.elts) == len(vl_.elts):
                    stopnames |= {t_.id for t_, v_ in zip(tg_.elts, vl_.elts) if isinstance(t_, ast.Name) and '.stop' in ast.unparse(v_)}
                elif isinstance(tg_, ast.Name) and '.stop' in ast.unparse(vl_):
                    stopnames.add(tg_.id)
        from_stop = isinstance(stop, ast.BinOp) and ('.stop' in ast.unparse(stop.left) or any(
            isinstance(x_, ast.Name) and x_.id in stopnames for x_ in ast.walk(stop.left)))
        if isinstance(stop, ast.BinOp) and isinstance(stop.op, (ast.Add, ast.Sub)) and from_stop:
            if not (isinstance(stop.right, ast.Constant) and stop.right.value == 1):
                ok = False
                facts['non_unit_adjustment'] = ast.unparse(stop.right)
        out.append((call, ok, facts))
    return out


# ------------------------------------------------------------------------------------------------ formula rules (R4-R6, R1 ext)
SYMS = 'loki/expression/symbols.py'


def _paths(fnode):
    """[(return expr, env, conds)] for every path through if/else structure; env maps names to defining expressions, conds
    is [(test node, polarity)].  Conditional expressions on the right of an assignment fork the path."""
    out = []

    def rec(stmts, env, conds):
        """returns the list of (env, conds) states that fall through"""
        states = [(env, conds)]
        for st in stmts:
            nxt = []
            for env_, conds_ in states:
                if isinstance(st, ast.Return):
                    out.append((st.value, env_, conds_, st))
                elif isinstance(st, ast.Raise):
                    pass
                elif isinstance(st, ast.If):
                    nxt += rec(st.body, dict(env_), conds_ + [(st.test, True)])
                    nxt += rec(st.orelse, dict(env_), conds_ + [(st.test, False)])
                elif isinstance(st, ast.Assign) and len(st.targets) == 1:
                    tg, vl = st.targets[0], st.value
                    if isinstance(tg, ast.Name) and isinstance(vl, ast.IfExp):
                        for branch, pol in ((vl.body, True), (vl.orelse, False)):
                            e2 = dict(env_)
                            e2[tg.id] = _inline(branch, env_, tg.id)
                            nxt.append((e2, conds_ + [(vl.test, pol)]))
                    elif isinstance(tg, ast.Name):
                        e2 = dict(env_)
                        e2[tg.id] = _inline(vl, env_, tg.id)
                        nxt.append((e2, conds_))
                    elif isinstance(tg, ast.Tuple) and isinstance(vl, ast.Tuple) and len(tg.elts) == len(vl.elts) and \
                            all(isinstance(t_, ast.Name) for t_ in tg.elts):
                        e2 = dict(env_)
                        for t_, v_ in zip(tg.elts, vl.elts):
                            e2[t_.id] = _inline(v_, env_, t_.id)
                        nxt.append((e2, conds_))
                    else:
                        raise RF.NotNormal(f'assignment `{ast.unparse(st)[:60]}`')
                elif isinstance(st, ast.AugAssign) and isinstance(st.target, ast.Name):
                    e2 = dict(env_)
                    e2[st.target.id] = _inline(ast.BinOp(left=ast.Name(id=st.target.id, ctx=ast.Load()), op=st.op, right=st.value),
                                               env_, None)
                    nxt.append((e2, conds_))
                elif isinstance(st, (ast.Expr, ast.Assert, ast.Pass)):
                    nxt.append((env_, conds_))
                else:
                    raise RF.NotNormal(f'statement `{ast.unparse(st)[:60]}`')
            states = nxt
        return states

    rec(fnode.body, {}, [])
    return out


def _inline(expr, env, self_name):
    """the expression with the names already bound on this path substituted (so later re-assignment cannot change it)"""
    class Sub(ast.NodeTransformer):
        def visit_Name(self, n):
            if isinstance(n.ctx, ast.Load) and n.id in env:
                return env[n.id]
            return n
    import copy
    return Sub().visit(copy.deepcopy(expr))


def _replace(tree, old, new):
    """copy of ``tree`` with the node ``old`` (by identity) replaced by ``new``"""
    import copy
    if tree is old:
        return copy.deepcopy(new)
    out = copy.copy(tree)
    for fld, val in ast.iter_fields(tree):
        if isinstance(val, ast.AST):
            setattr(out, fld, _replace(val, old, new))
        elif isinstance(val, list):
            setattr(out, fld, [_replace(v_, old, new) if isinstance(v_, ast.AST) else v_ for v_ in val])
    return out


class _Site:
    """atoms and guards of one function that takes a LoopRange (``rp``) and optionally an index (``xp``)"""

    def __init__(self, fnode, rp, xp):
        self.fnode, self.rp, self.xp = fnode, rp, xp
        self.idcalls = set()
        for a_ in ast.walk(fnode):
            if isinstance(a_, ast.Assign) and isinstance(a_.value, ast.Call) and (X.dotted_attr(a_.value.func) or '').endswith('EvaluationMapper'):
                self.idcalls |= {t_.id for t_ in a_.targets if isinstance(t_, ast.Name)}

    def atom_of(self, n):
        if isinstance(n, ast.Attribute) and n.attr in ('start', 'stop', 'step') and isinstance(n.value, ast.Name) and n.value.id == self.rp:
            return n.attr
        if isinstance(n, ast.Name) and n.id == self.xp:
            return 'x'
        return None

    def extractor(self, env):
        return RF.Extractor(self.atom_of, env, identity_calls=self.idcalls)

    def facts(self, env, conds):
        """(step_none, sign, subst): what the path conditions establish"""
        ex = self.extractor(env)
        step_none, sign, subst = None, None, []

        def atom(e):
            try:
                f = ex.form(e)
            except RF.NotNormal:
                return None
            if f.pure and len(f.p0) == 1:
                (k, v), = f.p0.items()
                if len(k) == 1 and v == 1:
                    return k[0]
            return None

        def one(t, pol):
            nonlocal step_none, sign
            if isinstance(t, ast.UnaryOp) and isinstance(t.op, ast.Not):
                return one(t.operand, not pol)
            if isinstance(t, ast.BoolOp) and isinstance(t.op, ast.And) and pol:
                for v in t.values:
                    one(v, True)
                return
            if isinstance(t, ast.BoolOp) and isinstance(t.op, ast.Or) and not pol:
                for v in t.values:
                    one(v, False)
                return
            if isinstance(t, ast.Compare) and len(t.ops) == 1:
                l, op, r = t.left, t.ops[0], t.comparators[0]
                if isinstance(r, ast.Constant) and r.value is None and isinstance(op, (ast.Is, ast.IsNot)) and atom(l) == 'step':
                    step_none = (isinstance(op, ast.Is) == pol)
                    return
                if isinstance(r, ast.Constant) and isinstance(r.value, int) and r.value is not True and r.value is not False:
                    a = atom(l)
                    if a == 'step' and r.value == 0 and isinstance(op, (ast.Lt, ast.Gt, ast.LtE, ast.GtE)):
                        # step is non-zero by the property's quantifier
                        neg = isinstance(op, (ast.Lt, ast.LtE)) == pol
                        sign = -1 if neg else 1
                        return
                    if a is not None and isinstance(op, ast.Eq) and pol:
                        subst.append((a, r.value))
                        return
        for t, pol in conds:
            one(t, pol)
        return step_none, sign, subst


def _do_sequence(start, stop, step):
    n = max((stop - start + step) // step, 0)
    return [start + k * step for k in range(n)]


def _nonempty_domain(sign, step_none, with_x):
    steps = [1] if step_none else [s_ for s_ in (-3, -2, -1, 1, 2, 3) if sign in (None, (1 if s_ > 0 else -1))]
    for start in range(-3, 6):
        for stop in range(-3, 6):
            for step in steps:
                seq = _do_sequence(start, stop, step)
                if not seq:
                    continue
                env = {'start': start, 'stop': stop, 'step': step}
                if with_x == 'index':
                    for x in seq:
                        yield dict(env, x=x)
                elif with_x == 'number':
                    for x in range(1, len(seq) + 1):
                        yield dict(env, x=x)
                else:
                    yield env


def _spec(which, step_none):
    P = RF
    start, stop, step, x = P.P_atom('start'), P.P_atom('stop'), (P.P_const(1) if step_none else P.P_atom('step')), P.P_atom('x')
    if which == 'count':
        num = P.P_add(P.P_add(stop, start, -1), step)
        return RF.Form(num) if step_none else RF.Form({}, [(P.P_const(1), 'floor', num, step)])
    if which == 'number':
        num = P.P_add(P.P_add(x, start, -1), step)
        return RF.Form(num) if step_none else RF.Form({}, [(P.P_const(1), 'floor', num, step)])
    if which == 'index':
        return RF.Form(P.P_add(P.P_mul(P.P_add(x, P.P_const(-1)), step), start))
    raise KeyError(which)


def _nonneg_licence(with_x):
    """licence for trunc == floor: q/d >= 0 on every non-empty loop when d = step and q = (stop - start) + k*step with k >= 0
    (or (x - start) + k*step when x is a visited index)"""
    bases = [RF.P_add(RF.P_atom('stop'), RF.P_atom('start'), -1)]
    if with_x == 'index':
        bases.append(RF.P_add(RF.P_atom('x'), RF.P_atom('start'), -1))

    def licence(q, d):
        if not RF.P_eq(d, RF.P_atom('step')):
            return False
        for base in bases:
            diff = RF.P_add(q, base, -1)
            if not diff or (set(diff) == {('step',)} and diff[('step',)] >= 0):
                return True
        return False
    return licence


def formula_rule(ctx, rule, fn, relpath, rp, xp, which, with_x):
    """every return path of ``fn`` yields the DO-loop formula ``which``"""
    site = _Site(fn.node, rp, xp)
    try:
        paths = _paths(fn.node)
    except RF.NotNormal as e:
        raise AnalysisError(f'C10 {rule}: {fn.name}: control flow outside the path enumeration ({e})')
    n = 0
    for expr, env, conds, st in paths:
        branches = [(expr, conds)]
        if isinstance(expr, ast.IfExp):
            branches = [(expr.body, conds + [(expr.test, True)]), (expr.orelse, conds + [(expr.test, False)])]
        for e_, conds_ in branches:
            n += 1
            step_none, sign, subst = site.facts(env, conds_)
            inst = f'{fn.name}:return@{"+".join(("" if p_ else "not ") + ast.unparse(t_)[:40] for t_, p_ in conds_) or "always"}'
            where = f'{relpath}:{st.lineno}'
            try:
                cand = site.extractor(env).form(e_)
            except RF.NotNormal as err:
                raise AnalysisError(f'C10 {rule}: {fn.name} ({where}): returned formula outside the normal form: {err}')
            spec = _spec(which, bool(step_none))
            for a_, v_ in subst:
                spec, cand = RF.F_subst(spec, a_, v_), RF.F_subst(cand, a_, v_)
            unknown = RF.F_atoms(cand) - {'start', 'stop', 'step', 'x'}
            if unknown or (step_none and 'step' in RF.F_atoms(cand)):
                raise AnalysisError(f'C10 {rule}: {fn.name} ({where}): formula over unexpected atoms {sorted(unknown) or ["step (None)"]}')
            sign_of = (lambda d, s_=sign: s_ if RF.P_eq(d, RF.P_atom('step')) else None)
            cc = RF.canonical(cand, nonneg=_nonneg_licence(with_x), sign_of=sign_of)
            cs = RF.canonical(spec, nonneg=_nonneg_licence(with_x), sign_of=sign_of)
            facts = {'formula': cand.show(), 'canonical': cc.show(), 'do_loop_formula': cs.show(),
                     'path': [("" if p_ else "not ") + ast.unparse(t_) for t_, p_ in conds_]}
            if RF.F_same(cc, cs):
                ctx.judge(rule, inst, facts=facts)
                continue
            dom = [dict(d_, **dict(subst)) for d_ in _nonempty_domain(sign, bool(step_none), with_x)
                   if all(d_.get(a_) == v_ for a_, v_ in subst)]
            cex = RF.counterexample(cand, spec, dom, None)
            if cex is None:
                raise AnalysisError(f'C10 {rule}: {fn.name} ({where}): `{cand.show()}` is not the canonical form `{cs.show()}` and no '
                                    f'small counterexample separates them: undecided')
            envx, got, want = cex
            facts['counterexample'] = {'values': envx, 'formula_gives': got, 'do_loop_gives': want}
            loop = f"DO i={envx['start']},{envx['stop']}" + ('' if step_none else f",{envx['step']}")
            xs = f" with {'index' if with_x == 'index' else 'iteration number'} {envx['x']}" if with_x else ''
            ctx.violation(rule, f'{fn.name}:{which}-formula', where,
                          f'on the path [{", ".join(facts["path"]) or "always"}] the returned formula `{cand.show()}` is not the DO-loop '
                          f'formula `{cs.show()}`: for {loop}{xs} it gives {got} instead of {want}', facts=facts, instance=inst)
    return n


def range_from_count(ctx, fn, relpath, rp):
    """R1 extension: ``range(a, E, s)`` whose end is not an adjusted inclusive bound must satisfy, as formulas,
    a = start, s = step, E = start + step*floor((stop - start + step)/step) -- for all integers (empty loops included)."""
    site = _Site(fn.node, rp, None)
    try:
        paths = _paths(fn.node)
    except RF.NotNormal:
        return 0          # the guard-based analysis above has judged the calls
    n = 0
    for expr, env, conds, st in paths:
        if not (isinstance(expr, ast.Call) and isinstance(expr.func, ast.Name) and expr.func.id == 'range' and len(expr.args) == 3):
            continue
        ex = site.extractor(env)
        try:
            a, s_ = ex.form(expr.args[0]), ex.form(expr.args[2])
            end_ast = _inline(expr.args[1], env, None)
            clamps = [c_ for c_ in ast.walk(end_ast) if isinstance(c_, ast.Call) and isinstance(c_.func, ast.Name) and c_.func.id == 'max'
                      and len(c_.args) == 2 and any(isinstance(z_, ast.Constant) and z_.value == 0 for z_ in c_.args)]
            if len(clamps) == 1:
                # range(a, a + max(n, 0)*s, s) visits what range(a, a + n*s, s) visits (n < 0: both are empty) -- provided the
                # end really is a + max(n, 0)*s: with the clamp at 0 the end is a, and without it the end is a + n*s
                n_ast = next(z_ for z_ in clamps[0].args if not (isinstance(z_, ast.Constant) and z_.value == 0))

                e1 = ex.form(_replace(end_ast, clamps[0], n_ast))
                e0 = ex.form(_replace(end_ast, clamps[0], ast.Constant(value=0)))
                if not (RF.F_zero(RF.F_add(e0, a, -1)) and RF.F_zero(RF.F_add(RF.F_add(e1, e0, -1), RF.F_mul(ex.form(n_ast), s_), -1))):
                    raise RF.NotNormal(f'clamped count in `{ast.unparse(end_ast)[:80]}` is not of the form start + max(n, 0)*step')
                e_ = e1
            else:
                e_ = ex.form(end_ast)
        except RF.NotNormal as err:
            raise AnalysisError(f'C10 R1: {fn.name} ({relpath}:{st.lineno}): range() argument outside the normal form: {err}')
        if e_.pure and RF.P_atoms(e_.p0) <= {'stop'}:
            continue          # `stop + k`: the guard-based rule
        n += 1
        step_none, sign, _ = site.facts(env, conds)
        inst = f'{fn.name}:range-end-from-count@{"+".join(("" if p_ else "not ") + ast.unparse(t_)[:40] for t_, p_ in conds) or "always"}'
        where = f'{relpath}:{st.lineno}'
        stepP = RF.P_const(1) if step_none else RF.P_atom('step')
        num = RF.P_add(RF.P_add(RF.P_atom('stop'), RF.P_atom('start'), -1), stepP)
        spec_e = RF.Form(RF.P_atom('start'), [(stepP, 'floor', num, stepP)]) if not step_none else RF.Form(RF.P_add(RF.P_atom('stop'), RF.P_const(1)))
        sign_of = (lambda d, s__=sign: s__ if RF.P_eq(d, RF.P_atom('step')) else None)
        ce = RF.canonical(e_, sign_of=sign_of)
        facts = {'range': ast.unparse(expr), 'start': a.show(), 'end': e_.show(), 'end_canonical': ce.show(), 'step': s_.show(),
                 'required_end': RF.canonical(spec_e, sign_of=sign_of).show()}
        if a.pure and RF.P_eq(a.p0, RF.P_atom('start')) and s_.pure and RF.P_eq(s_.p0, stepP) and \
                RF.F_same(ce, RF.canonical(spec_e, sign_of=sign_of)):
            ctx.judge('R1', inst, facts=facts)
            continue
        cex = None
        for start in range(-3, 6):
            for stop in range(-3, 6):
                for step in ([1] if step_none else [x_ for x_ in (-3, -2, -1, 1, 2, 3) if sign in (None, 1 if x_ > 0 else -1)]):
                    envx = {'start': start, 'stop': stop, 'step': step}
                    try:
                        got = list(range(RF.evaluate(a, envx), RF.evaluate(e_, envx), RF.evaluate(s_, envx)))
                    except (ZeroDivisionError, KeyError, ValueError):
                        continue
                    want = _do_sequence(start, stop, step)
                    if got != want and cex is None:
                        cex = (envx, got, want)
        if cex is None:
            raise AnalysisError(f'C10 R1: {fn.name} ({where}): range end `{e_.show()}` is not the canonical trip-count form and no small '
                                f'counterexample separates them: undecided')
        envx, got, want = cex
        facts['counterexample'] = {'values': envx, 'range_gives': got, 'do_loop_visits': want}
        ctx.violation('R1', f'{fn.name}:range-end-from-count', where,
                      f'`{ast.unparse(expr)}`: the end `{e_.show()}` is not `start + step*floor((stop - start + step)/step)`: for '
                      f"DO i={envx['start']},{envx['stop']},{envx['step']} the range yields {got}, the loop visits {want}",
                      facts=facts, instance=inst)
    return n



def run(ctx):
    m = ctx.model
    mod = m.module_by_path(FILE)
    ctx.rule('R1', 'range(a, b + k, s) with constant k from a LoopRange: k must depend on the sign of s (guard on s or sign-derived k)')
    ctx.rule('R2', 'range(a, b + 1) (implicit step 1) is only used under `step is None`')
    ctx.rule('R3', 'list consumers of get_pyrange (unrolling, constant propagation)')
    n = 0
    for fn in mod.functions.values():
        params = [a.arg for a in fn.node.args.args]
        lr = [p for p in params if 'range' in p.lower()]
        if not lr:
            continue
        # locals computed from the LoopRange parameter
        derived = set(lr)
        grew = True
        while grew:
            grew = False
            for a_ in ast.walk(fn.node):
                if isinstance(a_, ast.Assign) and any(isinstance(x_, ast.Name) and x_.id in derived for x_ in ast.walk(a_.value)):
                    for t_ in a_.targets:
                        for x_ in ast.walk(t_):
                            if isinstance(x_, ast.Name) and x_.id not in derived:
                                derived.add(x_.id)
                                grew = True
        for call, guards in X.nodes_with_guards(fn.node, lambda x: isinstance(x, ast.Call) and isinstance(x.func, ast.Name) and x.func.id == 'range', early=True):
            if not any(isinstance(x_, ast.Name) and x_.id in derived for x_ in ast.walk(call)):
                continue
            n += 1
            inst = f'{fn.name}:{ast.unparse(call)[:60]}'
            where = f'{mod.relpath}:{call.lineno}'
            if len(call.args) == 3:
                adj = {id(c_): (ok_, f_) for c_, ok_, f_ in stop_adjustments(fn.node)}
                ok3, facts = adj.get(id(call), (True, {}))
                if not ok3:
                    if 'non_unit_adjustment' in facts:
                        why = (f"the exclusive end is obtained by adjusting the inclusive bound by `{facts['non_unit_adjustment']}` instead "
                               f"of 1: unless the bound is stride-aligned the range gains or loses an iteration (DO i=10,1,-2 also yields 0)")
                    else:
                        why = ("the inclusive upper bound is turned into Python's exclusive bound by a constant 1 whatever the sign of the "
                               "step: DO i=10,1,-3 enumerates 10,7,4 and loses 1")
                    ctx.violation('R1', f'{fn.name}:range-stop-adjustment', where, f'`{ast.unparse(call)}`: {why}', facts=facts, instance=inst)
                else:
                    ctx.judge('R1', inst, facts=facts)
            elif len(call.args) == 2:
                ok = any('step is None' in g for g in guards)
                (ctx.judge('R2', inst, facts={'guards': guards}) if ok else
                 ctx.violation('R2', f'{fn.name}:range-without-step', where, 'two-argument range() used although a step may be present'))
    ctx.floor('R1', 'range() constructions from LoopRange', n, 1)
    # ---- formulas
    ctx.rule('R4', 'LoopRange.num_iterations returns floor((stop - start + step)/step) on every path; normalized is (1, num_iterations)')
    ctx.rule('R5', 'iteration_number(x) returns floor((x - start + step)/step) on every path')
    ctx.rule('R6', 'iteration_index(k) returns start + (k - 1)*step on every path')
    for fn in mod.functions.values():
        params = [a.arg for a in fn.node.args.args]
        lr = [p for p in params if 'range' in p.lower()]
        if lr and any(isinstance(x_, ast.Call) and isinstance(x_.func, ast.Name) and x_.func.id == 'range' for x_ in ast.walk(fn.node)):
            range_from_count(ctx, fn, mod.relpath, lr[0])
    LR = m.get_class(SYMS, 'LoopRange')
    ni = LR.function('num_iterations') if LR else None
    nz = LR.function('normalized') if LR else None
    f_num, f_idx = mod.functions.get('iteration_number'), mod.functions.get('iteration_index')
    if not (ni and nz and f_num and f_idx):
        raise AnalysisError('C10: LoopRange.num_iterations / normalized / iteration_number / iteration_index vanished')
    k4 = formula_rule(ctx, 'R4', ni, SYMS, 'self', None, 'count', None)
    # normalized: LoopRange((1, self.num_iterations)) -- lower 1, upper the trip count, unit stride
    rets = [r_ for r_ in ast.walk(nz.node) if isinstance(r_, ast.Return) and r_.value is not None]
    for r_ in rets:
        k4 += 1
        v_ = r_.value
        tup = v_.args[0] if isinstance(v_, ast.Call) and (X.dotted_attr(v_.func) or '').endswith('LoopRange') and v_.args and \
            isinstance(v_.args[0], (ast.Tuple, ast.List)) else None
        if tup is None:
            raise AnalysisError(f'C10 R4: LoopRange.normalized ({SYMS}:{r_.lineno}) does not return a LoopRange((...)) literal')
        ex = RF.Extractor(lambda n_: 'n' if isinstance(n_, ast.Attribute) and n_.attr == 'num_iterations' and isinstance(n_.value, ast.Name)
                          and n_.value.id == 'self' else None)
        try:
            forms = [ex.form(x_) for x_ in tup.elts]
        except RF.NotNormal as err:
            raise AnalysisError(f'C10 R4: LoopRange.normalized ({SYMS}:{r_.lineno}): bound outside the normal form: {err}')
        want = [RF.Form(RF.P_const(1)), RF.Form(RF.P_atom('n'))]
        ok = len(forms) in (2, 3) and all(RF.F_same(RF.canonical(a_), b_) for a_, b_ in zip(forms[:2], want)) and \
            (len(forms) == 2 or RF.F_same(forms[2], RF.Form(RF.P_const(1))))
        facts = {'bounds': [f_.show() for f_ in forms]}
        (ctx.judge('R4', 'LoopRange.normalized', facts=facts) if ok else
         ctx.violation('R4', 'LoopRange.normalized:bounds', f'{SYMS}:{r_.lineno}',
                       f'the normalised range is ({", ".join(f_.show() for f_ in forms)}) instead of (1, num_iterations): it does not '
                       f'have the trip count of the loop', facts=facts, instance='LoopRange.normalized'))
    k5 = formula_rule(ctx, 'R5', f_num, mod.relpath, [a.arg for a in f_num.node.args.args][1], [a.arg for a in f_num.node.args.args][0],
                      'number', 'index')
    k6 = formula_rule(ctx, 'R6', f_idx, mod.relpath, [a.arg for a in f_idx.node.args.args][1], [a.arg for a in f_idx.node.args.args][0],
                      'index', 'number')
    ctx.floor('R4', 'return paths of num_iterations / normalized', k4, 4)
    ctx.floor('R5', 'return paths of iteration_number', k5, 2)
    ctx.floor('R6', 'return paths of iteration_index', k6, 2)
    # consumers
    users = []
    import os
    import re as _re
    for dp, dn, fnames in os.walk(os.path.join(m.repo, 'loki')):
        dn[:] = [d for d in dn if d not in ('tests', '__pycache__')]
        for fname in sorted(fnames):
            if fname.endswith('.py'):
                path = os.path.join(dp, fname)
                for i, line in enumerate(m.read(path).splitlines(), 1):
                    if _re.search(r'\bget_pyrange\(', line) and not line.lstrip().startswith('def '):
                        users.append(f'{os.path.relpath(path, m.repo)}:{i}')
    ctx.judge('R3', 'consumers of get_pyrange', nontrivial=bool(users), facts={'call_sites': users})
    ctx.extra['get_pyrange_consumers'] = users


MUTANTS = [
    Mutant('range-end-from-clamped-truncated-count', FILE,
           "    if step < 0:\n        # Descending loop: the (inclusive) bound is the smallest value\n        return range(LEM(loop_range.start), ceil(LEM(loop_range.stop))-1, step)\n    return range(LEM(loop_range.start), floor(LEM(loop_range.stop))+1, step)",
           "    start = LEM(loop_range.start)\n    count = max(int((LEM(loop_range.stop) - start) / step) + 1, 0)\n    return range(start, start + count * step, step)",
           expect=('R1', 'range-end-from-count')),
    Mutant('neutral-range-end-from-clamped-floor-count', FILE,
           "    if step < 0:\n        # Descending loop: the (inclusive) bound is the smallest value\n        return range(LEM(loop_range.start), ceil(LEM(loop_range.stop))-1, step)\n    return range(LEM(loop_range.start), floor(LEM(loop_range.stop))+1, step)",
           "    start = LEM(loop_range.start)\n    count = max((LEM(loop_range.stop) - start + step) // step, 0)\n    return range(start, start + count * step, step)",
           expect=None),
    Mutant('count-drops-plus-one', SYMS, "        return Sum((Quotient(Sum((stop, Product((-1, start)))), step), IntLiteral(1)))",
           "        return Quotient(Sum((stop, Product((-1, start)))), step)", expect=('R4', 'count-formula'), quick=True),
    Mutant('count-ceil-fold-for-literals', SYMS, "        return Sum((Quotient(Sum((stop, Product((-1, start)))), step), IntLiteral(1)))",
           "        if all(isinstance(b, IntLiteral) for b in (start, stop, step)):\n            return IntLiteral(-(-(stop.value - start.value + 1) // step.value))\n"
           "        return Sum((Quotient(Sum((stop, Product((-1, start)))), step), IntLiteral(1)))", expect=('R4', 'count-formula')),
    Mutant('neutral-count-single-quotient', SYMS, "        return Sum((Quotient(Sum((stop, Product((-1, start)))), step), IntLiteral(1)))",
           "        return Quotient(Sum((stop, Product((-1, start)), step)), step)", expect=None),
    Mutant('neutral-count-floor-fold-for-literals', SYMS, "        return Sum((Quotient(Sum((stop, Product((-1, start)))), step), IntLiteral(1)))",
           "        if all(isinstance(b, IntLiteral) for b in (start, stop, step)):\n            return IntLiteral((stop.value - start.value) // step.value + 1)\n"
           "        return Sum((Quotient(Sum((stop, Product((-1, start)))), step), IntLiteral(1)))", expect=None),
    Mutant('unit-count-off-by-one', SYMS, "            return stop if isinstance(start, IntLiteral) and start.value == 1 else Sum(",
           "            return stop if isinstance(start, IntLiteral) and start.value == 0 else Sum(", expect=('R4', 'count-formula')),
    Mutant('normalized-from-zero', SYMS, "        return LoopRange((1, self.num_iterations))", "        return LoopRange((0, self.num_iterations))",
           expect=('R4', 'LoopRange.normalized:bounds')),
    Mutant('number-sign-of-start', FILE, "            (sym.Quotient(sym.Sum((iter_idx, -loop_range.start)), loop_range.step),",
           "            (sym.Quotient(sym.Sum((iter_idx, loop_range.start)), loop_range.step),", expect=('R5', 'number-formula')),
    Mutant('number-unit-branch-no-offset', FILE, "        expr = sym.Sum((sym.Sum((iter_idx, -loop_range.start)), sym.IntLiteral(1)))",
           "        expr = sym.Sum((iter_idx, -loop_range.start))", expect=('R5', 'number-formula')),
    Mutant('index-offset-sign', FILE, "        expr = sym.Sum((sym.Product((sym.Sum((iter_num, sym.IntLiteral(-1))), loop_range.step)),",
           "        expr = sym.Sum((sym.Product((sym.Sum((iter_num, sym.IntLiteral(1))), loop_range.step)),", expect=('R6', 'index-formula')),
    Mutant('index-step-not-applied', FILE, "        expr = sym.Sum((sym.Product((sym.Sum((iter_num, sym.IntLiteral(-1))), loop_range.step)),\n                    loop_range.start))",
           "        expr = sym.Sum((iter_num, sym.IntLiteral(-1), loop_range.start))", expect=('R6', 'index-formula')),
    Mutant('neutral-index-expanded', FILE, "        expr = sym.Sum((sym.Product((sym.Sum((iter_num, sym.IntLiteral(-1))), loop_range.step)),\n                    loop_range.start))",
           "        expr = sym.Sum((sym.Product((iter_num, loop_range.step)), -loop_range.step, loop_range.start))", expect=None),
    Mutant('range-end-from-truncated-count', FILE,
           "    if step < 0:\n        # Descending loop: the (inclusive) bound is the smallest value\n        return range(LEM(loop_range.start), ceil(LEM(loop_range.stop))-1, step)\n    return range(LEM(loop_range.start), floor(LEM(loop_range.stop))+1, step)",
           "    start = LEM(loop_range.start)\n    return range(start, start + (int((LEM(loop_range.stop) - start) / step) + 1) * step, step)",
           expect=('R1', 'range-end-from-count')),
    Mutant('neutral-range-end-from-floor-count', FILE,
           "    if step < 0:\n        # Descending loop: the (inclusive) bound is the smallest value\n        return range(LEM(loop_range.start), ceil(LEM(loop_range.stop))-1, step)\n    return range(LEM(loop_range.start), floor(LEM(loop_range.stop))+1, step)",
           "    start = LEM(loop_range.start)\n    return range(start, start + ((LEM(loop_range.stop) - start) // step + 1) * step, step)",
           expect=None),
    Mutant('descending-branch-removed', FILE,
           "    if step < 0:\n        # Descending loop: the (inclusive) bound is the smallest value\n        return range(LEM(loop_range.start), ceil(LEM(loop_range.stop))-1, step)\n",
           "", expect=('R1', 'range-stop-adjustment'), quick=True),
    Mutant('descending-branch-wrong-adjustment', FILE, "ceil(LEM(loop_range.stop))-1, step)", "ceil(LEM(loop_range.stop))+1, step)", expect=('R1', 'range-stop-adjustment')),
    Mutant('neutral-else-form', FILE,
           "        return range(LEM(loop_range.start), ceil(LEM(loop_range.stop))-1, step)\n    return range(LEM(loop_range.start), floor(LEM(loop_range.stop))+1, step)",
           "        return range(LEM(loop_range.start), ceil(LEM(loop_range.stop))-1, step)\n    else:\n        return range(LEM(loop_range.start), floor(LEM(loop_range.stop))+1, step)", expect=None),
    Mutant('unit-range-ignores-step', FILE, "    if loop_range.step is None:\n        return range(LEM(loop_range.start), floor(LEM(loop_range.stop))+1)\n",
           "    if True:\n        return range(LEM(loop_range.start), floor(LEM(loop_range.stop))+1)\n", expect=('R2', 'range-without-step')),
]
