"""
C13  Symbols are classified by their declared type and share it by scope.

 R1  tier list: the ordered decision list of ``Variable.__new__`` is
     [ProcedureType -> ProcedureSymbol; DerivedType whose name equals the symbol
     name (case-folded on both sides) -> DerivedTypeSymbol; dimensions given or
     type has a shape -> Array; type has a dtype -> Scalar; otherwise
     DeferredTypeSymbol], and the scope look-up happens before the first test
     whenever no type was passed.
 R2  no type cache on attached symbols: the ``type`` getter returns the private
     copy only when the symbol has no scope and otherwise looks the type up in
     the scope; the setter writes the private copy only when unattached, every
     other path writes the scope's symbol table (exact truth table of both
     accessors).  ``MetaSymbol.type`` delegates to the wrapped symbol.
 R3  the look-up consults the scope's table with the symbol's full name first, and
     the type recorded there outranks anything derived from the parent's typedef:
     a return of another value is reachable only if nothing (or no dtype) was
     recorded -- the guards on the recorded type are evaluated for the three cases
     no entry / entry without dtype / entry with dtype.
Not decided: derived-type member look-up through parents, clone/rescope histories.
"""
import ast

from sa import exprs as X, boolfun as BF
from sa.model import AnalysisError
from sa.mutate import Mutant

PROP = 'C13'

META = dict(
    technique='decision-list extraction from Variable.__new__ (ordered guard -> class table) and exact truth-table evaluation '
              'of the TypedSymbol.type getter/setter over their atomic conditions',
    level='Decides that classification follows the documented ordered tiers and that a symbol attached to a scope never reads '
          'or writes a private type copy (so a type change in the scope is seen by every attached symbol, unattached symbols '
          'keep their own). Does NOT decide member look-up through derived-type parents or rescoping histories.',
    note='Conditions are classified by the type predicates they mention; unrecognised tiers fail closed.',
    ref='DESIGN.md section 3, C13',
)

FILE = 'loki/expression/symbols.py'
EXPECT = ['ProcedureSymbol', 'DerivedTypeSymbol', 'Array', 'Scalar', 'DeferredTypeSymbol']


def run(ctx):
    m = ctx.model
    ctx.rule('R1', 'Variable.__new__: ordered tiers ProcedureType > DerivedType(name match) > dimensions/shape > dtype > deferred; '
                   'scope look-up precedes the tiers when type is None')
    ctx.rule('R2', 'TypedSymbol.type getter/setter truth tables: private _type only when scope is None; else scope.symbol_attrs')
    ctx.rule('R3', '_lookup_type looks up scope.symbol_attrs.lookup(self.name) first; _get_type_from_scope likewise')
    V = m.get_class(FILE, 'Variable')
    new = V.function('__new__')
    tiers = []
    lookup_line = None
    # the locals are identified by what they are bound to, not by their names
    tn = (X.names_assigned_from(new.node, "kwargs.get('type')") or ['_type'])[0]
    sn = (X.names_assigned_from(new.node, "kwargs.get('scope')") or ['scope'])[0]
    nn = (X.names_assigned_from(new.node, "kwargs['name']") or ['name'])[0]
    for st in new.node.body:
        if isinstance(st, ast.If):
            rets = [s for s in st.body if isinstance(s, ast.Return)]
            t = ast.unparse(st.test)
            if rets and isinstance(rets[0].value, ast.Call):
                tiers.append((t, X.call_name_of(rets[0].value), st.lineno))
            elif '_get_type_from_scope' in ast.unparse(st):
                lookup_line = st.lineno
                ok = f'{sn} is not None' in t and f'{tn} is None' in t
                (ctx.judge('R1', 'scope look-up when no type given', facts={'test': t}) if ok else
                 ctx.violation('R1', 'Variable.__new__:lookup-guard', f'{new.module.relpath}:{st.lineno}',
                               f'type is fetched from the scope under `{t}` (expected: scope given and no type passed)'))
        elif isinstance(st, ast.Return) and isinstance(st.value, ast.Call):
            tiers.append(('<else>', X.call_name_of(st.value), st.lineno))
    got = [c for _, c, _ in tiers]
    facts = {'tiers': [(t, c) for t, c, _ in tiers]}
    if got != EXPECT:
        ctx.violation('R1', 'Variable.__new__:tier-order', new.where, f'classification order is {got}, expected {EXPECT}', facts=facts)
    else:
        ctx.judge('R1', 'tier order', facts=facts)
        KEY = {'ProcedureSymbol': ['ProcedureType'], 'DerivedTypeSymbol': ['DerivedType', f'{nn}.lower()', '.dtype.name.lower()'],
               'Array': ["'dimensions'", f'{tn}.shape'], 'Scalar': [f'{tn}.dtype']}
        for t, c, line in tiers:
            if c in KEY:
                miss = [k for k in KEY[c] if k not in t]
                (ctx.judge('R1', f'tier {c}', facts={'test': t}) if not miss else
                 ctx.violation('R1', f'Variable.__new__:{c}', f'{new.module.relpath}:{line}',
                               f'tier for {c} is decided by `{t}` (missing {miss})', facts={'test': t}))
        arr = [t for t, c, _ in tiers if c == 'Array'][0]
        node = [st.test for st in new.node.body if isinstance(st, ast.If) and ast.unparse(st.test) == arr][0]
        (ctx.judge('R1', 'Array tier is a disjunction') if isinstance(node, ast.BoolOp) and isinstance(node.op, ast.Or) else
         ctx.violation('R1', 'Variable.__new__:Array-or', new.where, f'Array tier `{arr}` is not `dimensions given OR type has shape`'))
    if lookup_line is None or (tiers and lookup_line > tiers[0][2]):
        ctx.violation('R1', 'Variable.__new__:lookup-order', new.where, 'the scope look-up does not precede the classification tiers')
    else:
        ctx.judge('R1', 'look-up precedes tiers')
    kw = [n for n in new.node.body if isinstance(n, ast.Assign) and ast.unparse(n.targets[0]) == "kwargs['type']"]
    (ctx.judge('R1', 'looked-up type is handed to the constructor') if kw and ast.unparse(kw[0].value) == tn else
     ctx.violation('R1', 'Variable.__new__:kwargs-type', new.where, 'the type found in the scope is not passed on to the symbol constructor'))

    # ---- R2
    T = m.get_class(FILE, 'TypedSymbol')
    getter = T.members.get('type')
    setter = T.members.get('type@setter')
    if getter is None or setter is None:
        raise AnalysisError('TypedSymbol.type property/setter vanished')
    body = X.body_nodoc(getter.node)
    rows = bad = 0
    for env, label, marks in BF.truth_table(body, is_mark=lambda st: isinstance(st, ast.Return)):
        rows += 1
        unattached = env.get('self.scope is None', env.get('self._scope is None'))
        if unattached is None:
            raise AnalysisError('type getter: no test on the scope found')
        ret = ast.unparse(marks[-1].value) if marks else ''
        private = ret == 'self._type'
        if private != unattached:
            bad += 1
    (ctx.judge('R2', 'type getter', facts={'rows': rows}) if not bad and rows else
     ctx.violation('R2', 'TypedSymbol.type:getter', f'{T.module.relpath}:{getter.node.lineno}',
                   'the getter returns the private _type for a symbol attached to a scope (or ignores it for an unattached one): '
                   'type changes in the scope are not seen by attached symbols'))
    sbody = X.body_nodoc(setter.node)

    def writes(st):
        return isinstance(st, ast.Assign)
    rows = bad = 0
    example = None
    for env, label, marks in BF.truth_table(sbody, is_mark=writes):
        rows += 1
        unattached = env.get('self._scope is None', env.get('self.scope is None'))
        if unattached is None:
            raise AnalysisError('type setter: no test on the scope found')
        tg = [ast.unparse(s.targets[0]) for s in marks]
        priv = any(t == 'self._type' for t in tg)
        table = any('symbol_attrs[' in t for t in tg)
        if unattached and (not priv or table):
            bad += 1
            example = example or (env, tg)
        if not unattached and priv:
            bad += 1
            example = example or (env, tg)
    (ctx.judge('R2', 'type setter', facts={'rows': rows}) if not bad and rows else
     ctx.violation('R2', 'TypedSymbol.type:setter', f'{T.module.relpath}:{setter.node.lineno}',
                   f'setter writes {example[1] if example else None} under {example[0] if example else None}: private copy and scope table '
                   f'are not kept apart'))
    # attached symbols: table writes use the symbol's own name as key
    keys = {ast.unparse(n.targets[0].slice) for n in ast.walk(setter.node) if isinstance(n, ast.Assign)
            and isinstance(n.targets[0], ast.Subscript)}
    (ctx.judge('R2', 'setter keys', facts={'keys': sorted(keys)}) if keys == {'self.name'} else
     ctx.violation('R2', 'TypedSymbol.type:setter-key', T.where, f'scope table is written under {sorted(keys)}'))
    M = m.get_class(FILE, 'MetaSymbol')
    mg = M.members.get('type')
    ms = M.members.get('type@setter')
    ok = mg is not None and 'return self.symbol.type' in ast.unparse(mg.node) and ms is not None and \
        'self.symbol.type = _type' in ast.unparse(ms.node)
    (ctx.judge('R2', 'MetaSymbol.type delegates') if ok else
     ctx.violation('R2', 'MetaSymbol.type', M.where, 'MetaSymbol.type does not delegate to the wrapped symbol'))
    # __init__ does not pin a private type for attached symbols: `self.type = given or self.type` goes through the setter
    init = T.function('__init__')
    src = ast.unparse(init.node)
    stores = {a: [n.lineno for n in ast.walk(init.node) if isinstance(n, ast.Attribute) and isinstance(n.ctx, ast.Store)
                  and ast.unparse(n) == f'self.{a}'] for a in ('scope', 'type', '_type')}
    tval = [ast.unparse(a_.value) for a_ in ast.walk(init.node) if isinstance(a_, ast.Assign) and any(ast.unparse(t) == 'self.type' for t in a_.targets)]
    # the given type goes through the property setter (self.type = ...), after the scope is known, and a private
    # self._type is at most reset to None before that
    priv = [ast.unparse(a_.value) for a_ in ast.walk(init.node) if isinstance(a_, ast.Assign) and any(ast.unparse(t) == 'self._type' for t in a_.targets)]
    ok = bool(stores['scope']) and bool(stores['type']) and min(stores['scope']) < min(stores['type']) and \
        all("'type'" in v for v in tval) and all(v == 'None' for v in priv)
    (ctx.judge('R2', '__init__ sets scope before type') if ok else
     ctx.violation('R2', 'TypedSymbol.__init__', init.where, 'constructor assigns the type before the scope / bypasses the setter'))
    # ---- R3
    lt = T.function('_lookup_type')
    first = X.first_stmt(lt.node)
    ok = isinstance(first, ast.Assign) and 'scope.symbol_attrs.lookup(self.name)' in ast.unparse(first.value)
    (ctx.judge('R3', '_lookup_type') if ok else
     ctx.violation('R3', 'TypedSymbol._lookup_type', lt.where, 'type look-up does not start from scope.symbol_attrs.lookup(self.name)'))
    gt = V.function('_get_type_from_scope')
    first = X.first_stmt(gt.node)
    ok = isinstance(first, ast.Assign) and 'scope.symbol_attrs.lookup(name)' in ast.unparse(first.value)
    (ctx.judge('R3', '_get_type_from_scope') if ok else
     ctx.violation('R3', 'Variable._get_type_from_scope', gt.where, 'type look-up does not start from scope.symbol_attrs.lookup(name)'))
    import types as _types
    from sa.miniev import ev_ext, Unknown
    for fn_, first_ in ((gt, first), (lt, X.first_stmt(lt.node))):
        if not isinstance(first_, ast.Assign) or not isinstance(first_.targets[0], ast.Name):
            continue
        stn = first_.targets[0].id
        alts = [(r, g) for r, g in X.nodes_with_guards(fn_.node, lambda x: isinstance(x, ast.Return) and x.value is not None, early=True)
                if ast.unparse(r.value) != stn and not (isinstance(r.value, ast.Constant) and r.value.value is None)]
        for r, guards in alts:
            rel = [g for g in guards if stn in g]
            inst = f'{fn_.qualname}:return {ast.unparse(r.value)[:40]}'
            if not rel:
                ctx.violation('R3', f'{fn_.qualname}:recorded-type-outranked', f'{fn_.module.relpath}:{r.lineno}',
                              f'`return {ast.unparse(r.value)}` does not depend on whether a type is recorded for the name (`{stn}`): the '
                              f'parent\'s typedef overrides the type recorded in the scope (a later update of that entry is lost)',
                              instance=inst)
                continue
            bad = None
            for label, obj in (('entry with dtype', _types.SimpleNamespace(dtype='T')),):
                env = {stn: obj, 'name': 'r%b', 'self': _types.SimpleNamespace(name='r%b')}
                try:
                    fires = all(bool(ev_ext(ast.parse(g, mode='eval').body, env)) for g in rel)
                except Unknown:
                    fires = False       # a guard outside the evaluated fragment is not taken to hold
                if fires:
                    bad = label
            if bad:
                ctx.violation('R3', f'{fn_.qualname}:recorded-type-outranked', f'{fn_.module.relpath}:{r.lineno}',
                              f'`return {ast.unparse(r.value)}` is reachable under `{" and ".join(rel)}` although the scope has an {bad} '
                              f'for the name: the parent\'s typedef overrides the recorded type (an update of the entry is lost and '
                              f'overwritten by the constructor)', instance=inst)
            else:
                ctx.judge('R3', inst, facts={'guards': rel})


MUTANTS = [
    Mutant('typedef-outranks-recorded-type', FILE, "        if '%' in name and (not stored_type or not stored_type.dtype):", "        if '%' in name:",
           expect=('R3', 'recorded-type-outranked')),
    Mutant('neutral-guard-demorgan', FILE, "        if '%' in name and (not stored_type or not stored_type.dtype):", "        if '%' in name and not (stored_type and stored_type.dtype):",
           expect=None),
    Mutant('array-before-procedure', FILE,
           "        if _type and isinstance(_type.dtype, ProcedureType):\n            # This is the name in a function/subroutine call\n            return ProcedureSymbol(**kwargs)\n",
           "", expect=('R1', 'tier-order'), quick=True),
    Mutant('getter-caches', FILE, "        if self.scope is None:\n            return self._type\n        return self._lookup_type(self.scope)",
           "        if self.scope is None or self._type is not None:\n            return self._type\n        return self._lookup_type(self.scope)",
           expect=('R2', 'getter')),
    Mutant('setter-writes-both', FILE, "            # Update type if it differs from stored type\n            self.scope.symbol_attrs[self.name] = _type",
           "            # Update type if it differs from stored type\n            self.scope.symbol_attrs[self.name] = _type\n            self._type = _type",
           expect=('R2', 'setter')),
    Mutant('derived-name-case', FILE, "name.lower() == _type.dtype.name.lower():", "name == _type.dtype.name:", expect=('R1', 'DerivedTypeSymbol')),
    Mutant('shape-and-dims', FILE, "if kwargs.get('dimensions') is not None or (_type and _type.shape):",
           "if kwargs.get('dimensions') is not None and (_type and _type.shape):", expect=('R1', 'Array-or')),
]
