"""
C34  Call-signature rewrites preserve behaviour (caller / callee agreement only).

"Caller and callee code that together compute the same outputs" has a clause
that is visible in the shape of the code: both sides of a rewritten call must be
derived from the *same* description of the new signature, in the same order.
Decided for derived-type argument expansion and duplicate-argument removal:
 R1  one ordered source: the member order published to the callers
     (``trafo_data['expansion_map']``) is the very object the kernel side
     iterates to build its new dummy list; every store into it precedes that
     iteration; neither side wraps it in ``sorted`` / ``reversed`` / ``set``
     (the caller iterates the list it is given as is).
 R2  positional pairing against the *old* signature: ``orig_argnames`` is taken
     from the routine before its argument list is rewritten, and the caller zips
     exactly that list with the call's positional arguments.
 R3  one naming function: the keyword names emitted on the caller side and the
     dummy names created on the kernel side (and the names substituted in the
     kernel body) come from the same function (``_expand_kernel_variable``).
 R4  duplicate-argument removal removes the same arguments on both sides: the
     callee drops every dummy after the first one bound to an actual argument
     (``routine_args[1:]`` of a map filled in ``call.arg_iter()`` order), so the
     caller must drop every later occurrence too -- "first wins" and independent
     of adjacency.  ``itertools.groupby`` over a sequence that is not sorted by the
     same key only merges neighbours and is reported.
 R5  a rewritten call keeps its positional / keyword partition: wherever a
     transformation replaces only the positional list of a call
     (``call.clone(arguments=A)`` / ``call._update(arguments=A)`` without
     ``kwarguments=``), ``A`` is derived from the positional arguments, never from
     ``call.arg_map`` / ``call.arg_iter()``, which also enumerate the keyword
     arguments -- those would then be passed twice (all call-rewriting sites under
     ``loki/transformations``).
 R6  the shape analysis behind explicit argument shapes does not test a bound
     of a passed section for truth (``loki/transformations/argument_shape.py``
     and ``sanitise/sequence_associations.py``): an explicit bound 0 is a falsy
     ``IntLiteral`` and would be replaced by the default bound, giving the dummy a
     wrong explicit size.
 R7  the caller finds a renamed callee wherever the rename may be declared: the
     map from use-renamed successor names to call names in
     ``DerivedTypeArgumentsTransformation.transform_subroutine`` is built from the
     imports of the routine *and* of its enclosing scope (a ``use m, only: a => b``
     in the module spec renames the callee for every contained procedure); with
     the routine's own imports only, such a call is left unexpanded while the
     callee's signature is rewritten.
 R8  a declared extent becomes the shape of a deferred-shape dummy only for the
     dimensions passed whole: in the comprehension over ``zip(val.shape,
     val.dimensions)`` of ``ArgumentArrayShapeAnalysis`` the filter on the
     subscript implies the full range ``:`` (truth table over its conditions); a
     filter that also admits ``lo:hi`` gives the dummy more elements than the
     passed section has.
 R9  the same for the equal-rank case: ``shape=val.shape`` (the declared shape of
     the actual) is given to the dummy only under a guard that makes the actual
     the whole array -- ``b(2:n, :)`` has the rank of ``b`` but not its extents.
Not decided: the index arithmetic of sequence-association resolution, explicit
argument shapes, type-bound call rewriting, and the equivalence of the rewritten
bodies.
"""
import ast

from sa import exprs as X
from sa.model import AnalysisError
from sa.mutate import Mutant

PROP = 'C34'

META = dict(
    technique='def-use and ordering analysis of the two sides of a signature rewrite: which object fixes the order of the new '
              'arguments and who iterates it, statement order of capture vs rewrite, callee resolution of the naming helper, '
              'adjacency-(in)dependence of the de-duplication idioms',
    level='Decides structural necessary conditions of caller/callee agreement for derived-type argument expansion and duplicate-'
          'argument removal: same ordered source, pairing against the old signature, same naming function, same "first wins" '
          'removal on both sides. Does NOT decide sequence association, argument shapes, type-bound calls or body equivalence.',
    note='Claimed for the agreement clause only.',
    ref='DESIGN.md section 3, C34',
)

DT = 'loki/transformations/transform_derived_types.py'
CLS = 'DerivedTypeArgumentsTransformation'
RS = 'loki/transformations/routine_signatures.py'
REORDER = {'sorted', 'reversed', 'set', 'frozenset', 'OrderedSet', 'dict'}


def _inner(fnode, name):
    return next((n for n in ast.walk(fnode) if isinstance(n, ast.FunctionDef) and n.name == name), None)


def run(ctx):
    m = ctx.model
    ctx.rule('R1', "the object stored as trafo_data['expansion_map'] is the one the kernel's new dummy list iterates; it is final before "
                   'that iteration; caller and kernel iterate it without re-ordering wrappers')
    ctx.rule('R2', "orig_argnames is read from the routine before routine.arguments is rewritten; the caller zips it with call.arguments")
    ctx.rule('R3', 'caller keyword names, kernel dummy names and kernel body names come from the same naming function')
    ctx.rule('R4', 'duplicate removal: caller and callee both keep the first occurrence, independent of adjacency')
    T = m.get_class(DT, CLS)
    ek = T.function('expand_derived_args_kernel')
    ec = T.function('expand_call_arguments')
    ea = T.function('_expand_call_argument')
    em = T.function('expand_derived_type_member')
    for nm, f in (('expand_derived_args_kernel', ek), ('expand_call_arguments', ec), ('_expand_call_argument', ea), ('expand_derived_type_member', em)):
        if f is None:
            raise AnalysisError(f'{CLS}.{nm} vanished')
    # ---- R1 kernel side
    pub = [a for a in ast.walk(ek.node) if isinstance(a, ast.Assign) and isinstance(a.targets[0], ast.Subscript)
           and isinstance(a.targets[0].slice, ast.Constant) and a.targets[0].slice.value == 'expansion_map']
    if len(pub) != 1 or not isinstance(pub[0].value, ast.Name):
        raise AnalysisError("expand_derived_args_kernel: the store trafo_data['expansion_map'] = <local> was not found")
    E = pub[0].value.id
    # the comprehension that builds the new dummies: value of a store into a dict keyed by the argument, iterating E[...]
    builds = [(a, c) for a in ast.walk(ek.node) if isinstance(a, ast.Assign) and isinstance(a.targets[0], ast.Subscript)
              for c in ast.walk(a.value) if isinstance(c, (ast.ListComp, ast.GeneratorExp))
              and any(isinstance(n, ast.Name) and n.id == E for g in c.generators for n in ast.walk(g.iter))
              and not (isinstance(a.targets[0].value, ast.Name) and a.targets[0].value.id == E)]
    if len(builds) != 1:
        raise AnalysisError(f'expand_derived_args_kernel: expected one comprehension over {E}[...] building the new dummies, found {len(builds)}')
    bst, comp = builds[0]
    it_ = comp.generators[0].iter
    if isinstance(it_, ast.Subscript) and isinstance(it_.value, ast.Name) and it_.value.id == E:
        ctx.judge('R1', 'kernel iterates the published map as is', facts={'iter': ast.unparse(it_)})
    else:
        ctx.violation('R1', 'expand_derived_args_kernel:dummy-order', f'{ek.module.relpath}:{comp.lineno}',
                      f'the new dummy arguments are built by iterating `{ast.unparse(it_)}`, not `{E}[arg]` itself: the kernel signature can '
                      f'list the expanded members in another order than the one published to the callers')
    late = [a.lineno for a in ast.walk(ek.node) if isinstance(a, (ast.Assign, ast.AugAssign)) and a.lineno > bst.lineno
            and any(isinstance(t, ast.Subscript) and isinstance(t.value, ast.Name) and t.value.id == E
                    for t in (a.targets if isinstance(a, ast.Assign) else [a.target]))]
    rebinding = [a.lineno for a in ast.walk(ek.node) if isinstance(a, ast.Assign) and a.lineno > bst.lineno
                 and any(isinstance(t, ast.Name) and t.id == E for t in a.targets)]
    if late or rebinding:
        ctx.violation('R1', 'expand_derived_args_kernel:map-changed-after-use', f'{ek.module.relpath}:{(late + rebinding)[0]}',
                      f'`{E}` is modified after the new dummy list has been built from it: the callers receive a different member order / set')
    else:
        ctx.judge('R1', 'map final before the dummies are built')
    # caller side: _expand_call_argument iterates its list parameter as is
    lpar = [a.arg for a in ea.node.args.args][-1]
    comps = [c for c in ast.walk(ea.node) if isinstance(c, (ast.ListComp, ast.GeneratorExp))]
    ok = any(isinstance(c.generators[0].iter, ast.Name) and c.generators[0].iter.id == lpar for c in comps)
    wrapped = [ast.unparse(c.generators[0].iter) for c in comps if not isinstance(c.generators[0].iter, ast.Name)
               and lpar in ast.unparse(c.generators[0].iter)]
    if ok and not wrapped:
        ctx.judge('R1', 'caller iterates the expansion list as is')
    else:
        ctx.violation('R1', '_expand_call_argument:order', ea.where,
                      f'the call arguments are produced from `{wrapped or "?"}` instead of the expansion list in its given order: actual and '
                      f'dummy arguments are paired differently on the two sides')
    # expand_call_arguments hands over successor_data['expansion_map'][name] unchanged
    emap = X.names_assigned_from(ec.node, "['expansion_map']")
    oarg = X.names_assigned_from(ec.node, "['orig_argnames']")
    if not emap or not oarg:
        raise AnalysisError("expand_call_arguments: look-ups of 'expansion_map' / 'orig_argnames' not found")
    calls = [c for c in ast.walk(ec.node) if isinstance(c, ast.Call) and (X.dotted_attr(c.func) or '').endswith('_expand_call_argument')]
    ctx.floor('R1', 'caller-side expansions', len(calls), 2)
    for c in calls:
        a = c.args[1] if len(c.args) > 1 else None
        good = isinstance(a, ast.Subscript) and isinstance(a.value, ast.Name) and a.value.id in emap
        (ctx.judge('R1', f'expand_call_arguments:{ast.unparse(c)[:50]}') if good else
         ctx.violation('R1', 'expand_call_arguments:expansion-list', f'{ec.module.relpath}:{c.lineno}',
                       f'`{ast.unparse(c)}` does not pass the published expansion list of the dummy unchanged'))
    # ---- R2
    cap = [a for a in ast.walk(ek.node) if isinstance(a, ast.Assign) and any(
        isinstance(d, ast.Dict) and any(isinstance(k, ast.Constant) and k.value == 'orig_argnames' for k in d.keys) for d in ast.walk(a.value))] + \
          [a for a in ast.walk(ek.node) if isinstance(a, ast.Assign) and isinstance(a.targets[0], ast.Subscript)
           and isinstance(a.targets[0].slice, ast.Constant) and a.targets[0].slice.value == 'orig_argnames']
    rpar = [a.arg for a in ek.node.args.args][1]
    rew = [a for a in ast.walk(ek.node) if isinstance(a, ast.Assign) and any(ast.unparse(t) == f'{rpar}.arguments' for t in a.targets)]
    if not cap or not rew:
        raise AnalysisError('expand_derived_args_kernel: capture of orig_argnames / rewrite of routine.arguments not found')
    src_ok = all(f'{rpar}.argnames' in ast.unparse(a.value) for a in cap)
    if src_ok and max(a.lineno for a in cap) < min(a.lineno for a in rew):
        ctx.judge('R2', 'orig_argnames captured before the signature is rewritten')
    else:
        ctx.violation('R2', 'expand_derived_args_kernel:orig_argnames', f'{ek.module.relpath}:{cap[0].lineno}',
                      'orig_argnames is not the argument-name list of the routine *before* its arguments are replaced: callers zip '
                      'their positional arguments against the wrong names')
    zips = [c for c in ast.walk(ec.node) if isinstance(c, ast.Call) and X.call_name_of(c) == 'zip' and len(c.args) == 2
            and any(isinstance(a, ast.Name) and a.id in oarg for a in c.args)]
    cpar = [a.arg for a in ec.node.args.args][1]
    ok = any(ast.unparse(z.args[0]) in oarg and ast.unparse(z.args[1]) == f'{cpar}.arguments' for z in zips)
    (ctx.judge('R2', 'caller zips orig_argnames with call.arguments') if ok else
     ctx.violation('R2', 'expand_call_arguments:pairing', ec.where,
                   f'positional arguments are not paired as zip(orig_argnames, {cpar}.arguments)'))
    # ---- R3
    def namers(fn):
        return {(X.dotted_attr(c.func) or '').split('.')[-1] for c in ast.walk(fn) if isinstance(c, ast.Call)
                and (X.dotted_attr(c.func) or '').split('.')[-1].startswith('_expand_kernel')}
    kw_tuples = [t for t in ast.walk(ec.node) if isinstance(t, ast.Tuple) and len(t.elts) == 2 and isinstance(t.elts[0], ast.Attribute)
                 and t.elts[0].attr == 'name' and isinstance(t.elts[0].value, ast.Call)]
    caller_n = {(X.dotted_attr(t.elts[0].value.func) or '').split('.')[-1] for t in kw_tuples}
    kernel_n = {(X.dotted_attr(comp.elt.func) or '').split('.')[-1]} if isinstance(comp.elt, ast.Call) else set()
    body_n = namers(em.node)
    if not caller_n or not kernel_n:
        raise AnalysisError('naming calls on the caller / kernel side not found')
    if caller_n == kernel_n and kernel_n <= body_n:
        ctx.judge('R3', 'one naming function', facts={'function': sorted(kernel_n)})
    else:
        ctx.violation('R3', f'{CLS}:naming', ec.where,
                      f'keyword names on the caller side come from {sorted(caller_n)}, kernel dummies from {sorted(kernel_n)}, names in the '
                      f'kernel body from {sorted(body_n)}: the three must be produced by one function')
    # the keyword names are paired with the expanded arguments of the same list
    pair_ok = False
    for c in ast.walk(ec.node):
        if isinstance(c, (ast.ListComp, ast.GeneratorExp)) and any(t in [x for x in ast.walk(c)] for t in kw_tuples):
            z = c.generators[0].iter
            if isinstance(z, ast.Call) and X.call_name_of(z) == 'zip' and len(z.args) == 2:
                a0 = z.args[0]
                exp_names = X.names_assigned_from(ec.node, '_expand_call_argument(')
                pair_ok = isinstance(a0, ast.Subscript) and isinstance(a0.value, ast.Name) and a0.value.id in emap and \
                    isinstance(z.args[1], ast.Name) and z.args[1].id in exp_names
    (ctx.judge('R3', 'keyword names paired with the arguments expanded from the same list') if pair_ok else
     ctx.violation('R3', 'expand_call_arguments:keyword-pairing', ec.where,
                   'keyword names and expanded actual arguments are not zipped from the same expansion list'))
    # ---- R4
    rd = m.get_function(RS, 'remove_duplicate_args_from_calls')
    caller = _inner(rd.node, 'remove_duplicate_args_call')
    callee = _inner(rd.node, 'modify_callee')
    if caller is None or callee is None:
        raise AnalysisError('remove_duplicate_args_from_calls: inner functions remove_duplicate_args_call / modify_callee vanished')
    # callee keeps the first dummy per actual
    tail = [s for s in ast.walk(callee) if isinstance(s, ast.Subscript) and isinstance(s.slice, ast.Slice)
            and ast.unparse(s.slice) == '1:']
    head = [s for s in ast.walk(callee) if isinstance(s, ast.Subscript) and isinstance(s.slice, ast.Constant) and s.slice.value == 0]
    if not tail or not head:
        raise AnalysisError('modify_callee: the first-wins split routine_args[0] / routine_args[1:] was not found')
    fill = [c for c in ast.walk(caller) if isinstance(c, ast.Call) and isinstance(c.func, ast.Attribute) and c.func.attr == 'append'
            and isinstance(c.func.value, ast.Call) and isinstance(c.func.value.func, ast.Attribute) and c.func.value.func.attr == 'setdefault']
    loops = [l for l in ast.walk(caller) if isinstance(l, ast.For) and '.arg_iter()' in ast.unparse(l.iter)]
    if fill and loops:
        ctx.judge('R4', 'callee map filled in arg_iter order, first dummy kept')
    else:
        ctx.violation('R4', 'remove_duplicate_args_call:arg-map', f'{rd.module.relpath}:{caller.lineno}',
                      'the actual -> dummies map is no longer filled in call.arg_iter() order')
    # what is removed from the signature is what is renamed in the body: every "rest of the group" is the whole rest
    for c_ in ast.walk(callee):
        if isinstance(c_, (ast.ListComp, ast.GeneratorExp, ast.DictComp)) and len(c_.generators) >= 1 and isinstance(c_.generators[0].target, ast.Name) \
                and isinstance(c_.generators[0].iter, ast.Name):
            gv = c_.generators[0].target.id
            parts = [s_ for s_ in ast.walk(c_) if isinstance(s_, ast.Subscript) and isinstance(s_.value, ast.Name) and s_.value.id == gv]
            for s_ in parts:
                txt = ast.unparse(s_.slice)
                if txt in ('0', '1:'):
                    continue
                ctx.violation('R4', 'modify_callee:partial-group', f'{rd.module.relpath}:{s_.lineno}',
                              f'`{ast.unparse(s_)}` takes only part of a group of dummies bound to the same actual argument, while the signature '
                              f'drops `{gv}[1:]`: with three or more dummies bound to one actual, uses of the third and later ones stay in the '
                              f'body although their declarations and dummies are removed')
    if not any(f.rule == 'R4' and 'partial-group' in f.construct for f in ctx.findings):
        ctx.judge('R4', 'callee: removed dummies == renamed dummies (whole rest of each group)')
    # caller side idioms
    gb = [c for c in ast.walk(caller) if isinstance(c, ast.Call) and (X.dotted_attr(c.func) or '').split('.')[-1] == 'groupby']
    n = 0
    for c in gb:
        n += 1
        src0 = c.args[0] if c.args else None
        key = next((ast.unparse(k.value) for k in c.keywords if k.arg == 'key'), None)
        sorted_same = isinstance(src0, ast.Call) and X.call_name_of(src0) == 'sorted' and \
            next((ast.unparse(k.value) for k in src0.keywords if k.arg == 'key'), None) == key
        if sorted_same:
            ctx.judge('R4', 'groupby over a sequence sorted by the same key')
        else:
            ctx.violation('R4', 'remove_duplicate_args_call:adjacent-only', f'{rd.module.relpath}:{c.lineno}',
                          f'`{ast.unparse(c)[:90]}` merges only *adjacent* equal entries, while the callee removes every later dummy bound '
                          f'to the same actual argument: call k(a=x, b=y, c=x) keeps c=x although dummy c no longer exists')
    upd = [c for c in ast.walk(caller) if isinstance(c, ast.Call) and (X.dotted_attr(c.func) or '').endswith('._update')]
    if not upd:
        raise AnalysisError('remove_duplicate_args_call: the call is not updated')
    kws = {k.arg: k.value for c in upd for k in c.keywords}
    pos = kws.get('arguments')
    pos_ok = pos is not None and 'dict.fromkeys(' in ast.unparse(pos) and not any(
        isinstance(x, ast.Call) and X.call_name_of(x) in ('set', 'sorted', 'reversed') for x in ast.walk(pos))
    (ctx.judge('R4', 'positional duplicates: first occurrence kept, order kept') if pos_ok else
     ctx.violation('R4', 'remove_duplicate_args_call:positional', f'{rd.module.relpath}:{caller.lineno}',
                   f'positional arguments are rebuilt as `{ast.unparse(pos) if pos is not None else None}`: not an order-preserving first-wins '
                   f'de-duplication (the callee keeps the first dummy of each group)'))
    kwv = kws.get('kwarguments')
    if kwv is None:
        ctx.violation('R4', 'remove_duplicate_args_call:keywords', f'{rd.module.relpath}:{caller.lineno}', 'keyword arguments are not de-duplicated')
    else:
        # keyword arguments whose value also is a positional argument are dropped
        defs = [a.value for a in ast.walk(caller) if isinstance(a, ast.Assign) and any(ast.unparse(t) == ast.unparse(kwv) for t in a.targets)]
        txt = ' '.join(ast.unparse(d) for d in defs) or ast.unparse(kwv)
        cpar2 = caller.args.args[0].arg
        ok = f'not in {cpar2}.arguments' in txt
        (ctx.judge('R4', 'keyword duplicates of positional arguments dropped') if ok else
         ctx.violation('R4', 'remove_duplicate_args_call:keyword-vs-positional', f'{rd.module.relpath}:{caller.lineno}',
                       'keyword arguments that repeat a positional argument are kept on the caller side but removed from the callee'))
        # first-wins de-duplication among the keyword arguments: setdefault on the value, or groupby (judged above)
        first_wins = any(isinstance(c, ast.Call) and isinstance(c.func, ast.Attribute) and c.func.attr == 'setdefault'
                         and isinstance(c.func.value, ast.Name) and c.func.value.id != (fill[0].func.value.func.value.id if fill else '')
                         for c in ast.walk(caller)) or bool(gb) or any(
            isinstance(c, ast.Call) and 'fromkeys' in ast.unparse(c.func) and 'kwarg' in ast.unparse(c) for c in ast.walk(caller))
        (ctx.judge('R4', 'keyword duplicates among themselves: first occurrence kept') if first_wins else
         ctx.violation('R4', 'remove_duplicate_args_call:keyword-vs-keyword', f'{rd.module.relpath}:{caller.lineno}',
                       'two keyword arguments with the same actual are both kept on the caller side although the callee drops the second dummy'))
    run_r5(ctx)


def run_r5(ctx):
    m = ctx.model
    ctx.rule('R5', 'clone/_update(arguments=A) without kwarguments=: A is not accumulated over call.arg_map / call.arg_iter() (all transformations)')
    n = 0
    for mod in [x for x in m.all_repo_modules(packages=('loki',)) if x.relpath.startswith('loki/transformations/')]:
        for fn in [x for x in ast.walk(mod.tree) if isinstance(x, (ast.FunctionDef, ast.AsyncFunctionDef))]:
            sites = [c for c in ast.walk(fn) if isinstance(c, ast.Call) and isinstance(c.func, ast.Attribute) and c.func.attr in ('clone', '_update')
                     and any(k.arg == 'arguments' for k in c.keywords) and not any(k.arg == 'kwarguments' for k in c.keywords)]
            if not sites:
                continue
            # names accumulated inside a loop / comprehension over all (positional + keyword) arguments
            tainted = {}
            for l in ast.walk(fn):
                it = None
                if isinstance(l, ast.For):
                    it, body = l.iter, l.body
                    if '.arg_map' in ast.unparse(it) or '.arg_iter()' in ast.unparse(it):
                        for st in [x for b in body for x in ast.walk(b)]:
                            if isinstance(st, ast.AugAssign) and isinstance(st.target, ast.Name):
                                tainted[st.target.id] = l.lineno
                            if isinstance(st, ast.Call) and isinstance(st.func, ast.Attribute) and st.func.attr in ('append', 'extend') \
                                    and isinstance(st.func.value, ast.Name):
                                tainted[st.func.value.id] = l.lineno
                if isinstance(l, ast.Assign) and isinstance(l.targets[0], ast.Name):
                    for c_ in ast.walk(l.value):
                        if isinstance(c_, (ast.ListComp, ast.GeneratorExp)) and any(
                                '.arg_map' in ast.unparse(g.iter) or '.arg_iter()' in ast.unparse(g.iter) for g in c_.generators):
                            tainted[l.targets[0].id] = l.lineno
            for c in sites:
                recv = ast.unparse(c.func.value)
                if 'call' not in recv.lower() and recv not in ('o', 'self'):
                    continue
                n += 1
                av = next(k.value for k in c.keywords if k.arg == 'arguments')
                used = {x.id for x in ast.walk(av) if isinstance(x, ast.Name)} & set(tainted)
                sliced = any(isinstance(x, ast.Subscript) and isinstance(x.slice, ast.Slice) and isinstance(x.value, ast.Name) and x.value.id in used
                             for x in ast.walk(av))
                inst = f'{mod.relpath}:{fn.name}:{recv}.{c.func.attr}(arguments=...)'
                if used and not sliced:
                    ctx.violation('R5', f'{fn.name}:positional-list-from-all-arguments', f'{mod.relpath}:{c.lineno}',
                                  f'`{ast.unparse(c)[:100]}` replaces the positional arguments by `{sorted(used)}`, which is accumulated over '
                                  f'call.arg_map / arg_iter() (positional *and* keyword arguments) while the keyword arguments of the call are '
                                  f'kept: every keyword argument is passed twice, e.g. call k(n, x(1, 2), b=y) -> call k(n, x(1:n, 2), y, b=y)',
                                  instance=inst)
                else:
                    ctx.judge('R5', inst, nontrivial=bool(used))
    ctx.floor('R5', 'positional-only call rewrites', n, 8)
    # ---- R7
    ctx.rule('R7', 'transform_subroutine: the renamed-import map iterates the imports of the routine and of its enclosing scope')
    T_ = m.get_class(DT, CLS)
    tsf = T_.function('transform_subroutine')
    rpar = [a.arg for a in tsf.node.args.args][1]
    maps = [c_ for c_ in ast.walk(tsf.node) if isinstance(c_, ast.DictComp) and 'use_name' in ast.unparse(c_)
            and any(k in ast.unparse(c_.generators[0].iter) for k in ('.imports', 'all_imports', 'import_map'))]
    if len(maps) != 1:
        raise AnalysisError('transform_subroutine: the map of use-renamed symbols was not found')
    outer = maps[0]
    it_txt = ast.unparse(outer.generators[0].iter)
    own = f'{rpar}.imports' in it_txt or f'{rpar}.all_imports' in it_txt
    enclosing = ('.parent' in it_txt and 'imports' in it_txt) or 'all_imports' in it_txt or 'get_all_import_map' in it_txt
    if own and enclosing:
        ctx.judge('R7', 'renamed-import map spans routine and enclosing scope', facts={'iter': it_txt})
    else:
        ctx.violation('R7', 'transform_subroutine:renamed-imports-scope', f'{tsf.module.relpath}:{outer.lineno}',
                      f'the map of use-renamed successors is built from `{it_txt}` only: a rename declared in the spec of the enclosing module '
                      f'(use m, only: fill => sub) is not seen, the call `call fill(t)` is not expanded although the callee\'s signature is')
    # ---- R6
    ctx.rule('R6', 'argument_shape.py / sequence_associations.py: no truth test of a range bound (.lower/.upper/.start/.stop)')
    nfun = 0
    hits = []
    for rel in ('loki/transformations/argument_shape.py', 'loki/transformations/sanitise/sequence_associations.py'):
        mod = m.module_by_path(rel)
        for fn_ in [x for x in ast.walk(mod.tree) if isinstance(x, (ast.FunctionDef, ast.AsyncFunctionDef))]:
            nfun += 1
            for o_, t_ in X.truthy_bound_uses(fn_):
                if not any(h[2] is o_ for h in hits):
                    hits.append((mod, fn_, o_, t_))
    ctx.floor('R6', 'functions judged', nfun, 6)
    if hits:
        for mod, fn_, o_, t_ in hits:
            ctx.violation('R6', f'{fn_.name}:bound-truthiness', f'{mod.relpath}:{o_.lineno}',
                          f'`{ast.unparse(t_)[:90]}` tests `{ast.unparse(o_)}` for truth: IntLiteral(0) is falsy, so for a passed section such '
                          f'as x(0:5) the explicit bound is replaced by the default and the derived size / shape of the dummy is wrong')
    else:
        ctx.judge('R6', 'no truthiness test of section bounds', facts={'functions': nfun})

    # ---- R8
    ctx.rule('R8', "argument_shape.py: a declared extent is adopted for a dimension of a passed section only where the subscript is the "
                   "full range `:` (the filter on the subscript implies it)")
    import itertools as _it
    from sa import boolfun as BF
    amod = m.module_by_path('loki/transformations/argument_shape.py')
    n8 = 0
    for comp in [c_ for c_ in ast.walk(amod.tree) if isinstance(c_, (ast.ListComp, ast.GeneratorExp))]:
        gen = comp.generators[0]
        it_ = gen.iter
        if not (isinstance(it_, ast.Call) and X.call_name_of(it_) == 'zip' and len(it_.args) == 2 and isinstance(gen.target, ast.Tuple)
                and len(gen.target.elts) == 2 and all(isinstance(t_, ast.Name) for t_ in gen.target.elts)):
            continue
        a0, a1 = it_.args
        if not (isinstance(a0, ast.Attribute) and a0.attr == 'shape' and isinstance(a1, ast.Attribute) and a1.attr == 'dimensions'
                and ast.unparse(a0.value) == ast.unparse(a1.value)):
            continue
        s_name, d_name = (t_.id for t_ in gen.target.elts)
        if not any(isinstance(n_, ast.Name) and n_.id == s_name for n_ in ast.walk(comp.elt)):
            continue
        n8 += 1
        where = f'{amod.relpath}:{comp.lineno}'
        inst = f'argument_shape:{ast.unparse(comp)[:70]}'
        if not gen.ifs:
            ctx.violation('R8', 'ArgumentArrayShapeAnalysis:extent-of-partial-section', where,
                          f'`{ast.unparse(comp)[:90]}` adopts the declared extent of every dimension of the passed section', instance=inst)
            continue
        test = gen.ifs[0] if len(gen.ifs) == 1 else ast.BoolOp(op=ast.And(), values=list(gen.ifs))
        atoms = BF.leaves(test)
        d = d_name

        def kind(a):
            a_ = a.replace(' ', '').replace('"', "'")
            if a_ in (f"{d}==':'", f"':'=={d}", f"str({d})==':'"):
                return 'full'
            if a_ in (f'{d}.lowerisNone', f'{d}.startisNone'):
                return 'lo'
            if a_ in (f'{d}.upperisNone', f'{d}.stopisNone'):
                return 'up'
            if a_ == f'{d}.stepisNone':
                return 'st'
            if a_.startswith(f'isinstance({d},') and 'RangeIndex' in a_:
                return 'isrange'
            return None
        kinds = {a: kind(a) for a in atoms}
        if any(k is None for k in kinds.values()):
            raise AnalysisError(f'C34 R8 ({where}): filter `{ast.unparse(test)}` has a condition outside the recognised ones')
        bad = None
        for vals in _it.product((False, True), repeat=len(atoms)):
            env = dict(zip(atoms, vals))
            if not BF.ev(test, env):
                continue
            k = {kinds[a] for a, v in env.items() if v}
            if 'full' in k or {'lo', 'up'} <= k:
                continue
            bad = sorted(a for a, v in env.items() if v)
            break
        if bad is None:
            ctx.judge('R8', inst, facts={'filter': ast.unparse(test)})
        else:
            ctx.violation('R8', 'ArgumentArrayShapeAnalysis:extent-of-partial-section', where,
                          f'the filter `{ast.unparse(test)}` also holds when only [{", ".join(bad) or "nothing"}] is true, i.e. for a bounded '
                          f'subscript such as `2:n`: the declared extent of that dimension becomes the shape of the dummy although the '
                          f'passed section is shorter', instance=inst)
    ctx.floor('R8', 'extents adopted from the dimensions of a passed section', n8, 1)

    # ---- R9
    ctx.rule('R9', "argument_shape.py: the declared shape of the actual is copied to a deferred-shape dummy (`shape=val.shape`) only under a "
                   "guard that makes the actual the whole array (no subscripts, or `:` in every dimension)")
    n9 = 0
    for fn_ in [x for x in ast.walk(amod.tree) if isinstance(x, (ast.FunctionDef, ast.AsyncFunctionDef))]:
        for a_, guards in X.nodes_with_guards(fn_, lambda x: isinstance(x, ast.Assign) and isinstance(x.targets[0], ast.Subscript), early=True):
            shp = [k_.value for c_ in ast.walk(a_.value) if isinstance(c_, ast.Call) for k_ in c_.keywords
                   if k_.arg == 'shape' and isinstance(k_.value, ast.Attribute) and k_.value.attr == 'shape' and isinstance(k_.value.value, ast.Name)]
            if not shp:
                continue
            v = shp[0].value.id
            if v == ast.unparse(a_.targets[0].slice):
                continue            # the dummy's own shape
            n9 += 1
            gs = [g.replace(' ', '').replace('"', "'") for g in guards]
            whole = any(g in (f"all((d==':'fordin{v}.dimensions))", f"all(d==':'fordin{v}.dimensions)", f'not{v}.dimensions',
                              f"not(any((d!=':'fordin{v}.dimensions)))", f'len({v}.dimensions)==0') for g in gs)
            if not whole:
                import re as _re9
                whole = any(_re9.fullmatch(rf"all\(\(?(\w+)==':'for\1in{v}\.dimensions\)?\)", g) for g in gs)
            inst = f'{fn_.name}:{ast.unparse(a_.targets[0])}:shape={v}.shape'
            if whole:
                ctx.judge('R9', inst, facts={'guards': guards})
            else:
                ctx.violation('R9', f'{fn_.name}:declared-shape-of-a-section', f'{amod.relpath}:{a_.lineno}',
                              f'`{ast.unparse(a_)[:90]}` gives the dummy the declared shape of `{v}` under [{"; ".join(guards)[:160]}], none of which '
                              f'makes `{v}` the whole array: for a bounded section of equal rank such as b(2:n, :) the dummy is declared with more '
                              f'elements than are passed', instance=inst)
    ctx.floor('R9', 'copies of the declared shape of an actual argument', n9, 1)


MUTANTS = [
    Mutant('declared-shape-for-any-same-rank-actual', 'loki/transformations/argument_shape.py',
           "                            if all(d == ':' for d in val.dimensions):\n                                vmap[arg] = arg.clone(type=arg.type.clone(shape=val.shape))",
           "                            if True:\n                                vmap[arg] = arg.clone(type=arg.type.clone(shape=val.shape))",
           expect=('R9', 'declared-shape-of-a-section')),
    Mutant('extent-of-any-range-subscript', 'loki/transformations/argument_shape.py', "                                         if d == ':']",
           "                                         if isinstance(d, sym.RangeIndex)]", expect=('R8', 'extent-of-partial-section')),
    Mutant('neutral-full-range-by-bounds', 'loki/transformations/argument_shape.py', "                                         if d == ':']",
           "                                         if isinstance(d, sym.RangeIndex) and d.lower is None and d.upper is None]", expect=None),
    Mutant('rename-only-second-dummy', RS, "combine_map = {routine_args[0]: as_tuple(routine_args[1:]) for routine_args in combine}",
           "combine_map = {routine_args[0]: as_tuple(routine_args[1]) for routine_args in combine}", expect=('R4', 'partial-group')),
    Mutant('renames-of-own-imports-only', DT, "            for import_ in routine.imports + getattr(routine.parent, 'imports', ())\n",
           "            for import_ in routine.imports\n", expect=('R7', 'renamed-imports-scope')),
    Mutant('passed-section-bound-by-truthiness', 'loki/transformations/argument_shape.py',
           "                                d.lower if d.lower is not None else getattr(val.shape, 'lower', sym.IntLiteral(1)),",
           "                                d.lower or getattr(val.shape, 'lower', sym.IntLiteral(1)),", expect=('R6', 'bound-truthiness')),
    Mutant('sequence-association-all-positional', 'loki/transformations/sanitise/sequence_associations.py',
           "            return call.clone(arguments=as_tuple(new_args[:n_args]), kwarguments=new_kwargs)", "            return call.clone(arguments = as_tuple(new_args))",
           expect=('R5', 'positional-list-from-all-arguments')),
    Mutant('groupby-adjacent-only', RS,
           "        unique_kwargs = {}\n        for kwarg in call.kwarguments:\n            unique_kwargs.setdefault(kwarg[1], kwarg)\n        _new_kwargs = as_tuple(unique_kwargs.values())\n",
           "        import itertools as it\n        _new_kwargs = as_tuple(list(kw_vals)[0] for g, kw_vals in it.groupby(call.kwarguments, key=lambda x: x[1]))\n",
           expect=('R4', 'adjacent-only'), quick=True),
    Mutant('kernel-order-resorted', DT, "                    for var in expansion_map[arg]\n", "                    for var in sorted(expansion_map[arg], key=lambda v: v.name)\n",
           expect=('R1', 'dummy-order')),
    Mutant('caller-order-reversed', DT, "            for member in expansion_list\n", "            for member in reversed(expansion_list)\n", expect=('R1', '_expand_call_argument:order')),
    Mutant('argnames-after-rewrite', DT, "        trafo_data = {'orig_argnames': routine.argnames}\n", "        trafo_data = {}\n",
           also=[(DT, "        trafo_data['expansion_map'] = expansion_map\n", "        trafo_data['expansion_map'] = expansion_map\n        trafo_data['orig_argnames'] = routine.argnames\n")],
           expect=('R2', 'orig_argnames')),
    Mutant('positional-dedup-set', RS, "arguments=as_tuple(dict.fromkeys(call.arguments))", "arguments=as_tuple(set(call.arguments))", expect=('R4', 'positional')),
    Mutant('keyword-vs-positional-kept', RS, "        new_kwargs = tuple(kwarg for kwarg in _new_kwargs if kwarg[1] not in call.arguments)\n",
           "        new_kwargs = tuple(_new_kwargs)\n", expect=('R4', 'keyword-vs-positional')),
]
