"""
C11  Expression equality is symmetric, case-insensitive and hash-consistent.

 R1  for each of the expression classes: the ``__eq__`` and ``__hash__`` selected
     along the MRO agree on their normal form -- an equality that compares
     case-folded canonical strings needs a hash of the same canonical string;
     an equality on a field tuple needs a hash over (a subset of) those fields.
 R2  a class that defines ``__eq__`` defines ``__hash__`` in the same class body
     (Python otherwise sets ``__hash__`` to None / inherits an inconsistent one).
 R3  every expression class resolves ``__eq__`` to a loki implementation (the
     mixin precedes the pymbolic bases in the MRO); ``_canonical`` lower-cases.
 R4  no raw-string comparison inside ``__eq__``: operands of ``==`` in an
     expression class' ``__eq__`` are expression objects / values, or strings that
     were lower-cased; ``str(a) == str(b)`` re-introduces case sensitivity.
 R5  the documented ``1:n == n`` shortcut is taken exactly when the lower bound
     is 1 and there is no stride (truth table of ``Range.__eq__`` /
     ``RangeIndex.__eq__``).
Not decided: symmetry across unrelated classes in general; case-sensitive mode.
"""
import ast

from sa import dispatch as D, exprs as X, boolfun as BF
from sa.model import AnalysisError, ClassInfo
from sa.mutate import Mutant

PROP = 'C11'

META = dict(
    technique='class-hierarchy analysis: (__eq__, __hash__) pair selected along the C3 MRO of each expression class, '
              'normal-form extraction (canonical string vs field tuple) and consistency comparison',
    level='Decides "equal nodes have equal hashes" structurally for all 36 expression classes: the data hashed is a function '
          'of the data compared under the same case folding; eq/hash are overridden together; case folding is applied by the '
          'canonicaliser. Does NOT decide symmetry across unrelated classes nor config[case-sensitive]=True.',
    note='Normal forms are recognised syntactically (hash(self._canonical(self)), hash(str(..).lower()..), hash((fields)), '
         'hash(self.__getinitargs__())); unknown forms fail closed.',
    ref='DESIGN.md section 3, C11',
)


def _form_hash(f, m=None, depth=0):
    """('canonical'|'fields'|'initargs'|'unknown', detail)"""
    rets = [n for n in ast.walk(f.node) if isinstance(n, ast.Return)]
    # explicit delegation: `return <Class>.__hash__(self)` / `return super().__hash__()`
    if m is not None and depth < 4 and len(rets) == 1 and isinstance(rets[0].value, ast.Call) and isinstance(rets[0].value.func, ast.Attribute) \
            and rets[0].value.func.attr == '__hash__':
        base = rets[0].value.func.value
        tgt = None
        if isinstance(base, ast.Name):
            from sa.model import ClassInfo
            got = m.resolve(f.module, base.id)
            if isinstance(got, ClassInfo):
                tgt = m.member_function(got, '__hash__')
        elif isinstance(base, ast.Call) and isinstance(base.func, ast.Name) and base.func.id == 'super' and f.cls is not None:
            tgt = m.member_function(f.cls, '__hash__', after=f.cls)
        if tgt is not None:
            return _form_hash(tgt, m, depth + 1)
    if f.module.name.startswith('pymbolic'):
        return 'initargs', 'pymbolic Expression.get_hash: (type name,) + __getinitargs__()'
    if len(rets) != 1 or not isinstance(rets[0].value, ast.Call) or X.call_name_of(rets[0].value) != 'hash':
        return 'unknown', ast.unparse(f.node)[:80]
    arg = rets[0].value.args[0]
    txt = ast.unparse(arg)
    if '_canonical' in txt or ('.lower()' in txt and ('__str__' in txt or 'str(' in txt)):
        return 'canonical', txt
    if '__getinitargs__' in txt:
        return 'initargs', txt
    if 'str(' in txt or '__str__' in txt:
        return 'rawstr', txt
    attrs = sorted(X._attrs_of_var(arg, 'self'))
    if attrs:
        return 'fields', attrs
    return 'unknown', txt


def _form_eq(f):
    txt = ast.unparse(f.node)
    if '_canonical(self) == self._canonical(other)' in txt:
        return 'canonical', None
    # same-class branch comparing fields
    for n in ast.walk(f.node):
        if isinstance(n, ast.If) and 'isinstance(other,' in ast.unparse(n.test):
            for r in n.body:
                if isinstance(r, ast.Return):
                    fields = sorted(X._attrs_of_var(r.value, 'self'))
                    if fields:
                        return 'fields', fields
    if 'super().__eq__(other)' in txt:
        return 'delegating', None
    return 'unknown', txt[:80]


def run(ctx):
    m = ctx.model
    ctx.rule('R1', 'per expression class: eq normal form vs hash normal form -- canonical-string equality requires a '
                   'canonical-string hash; field equality requires a hash over a subset of the compared fields')
    ctx.rule('R2', 'a class body defining __eq__ also defines __hash__')
    ctx.rule('R3', '__eq__ of every expression class resolves to a loki class; StrCompareMixin._canonical lower-cases '
                   'and strips blanks identically for both operands')
    classes = D.expression_classes(m)
    ctx.floor('R1', 'expression classes', len(classes), 36)
    for c in classes:
        eqm = m.lookup(c, '__eq__')
        hm = m.lookup(c, '__hash__')
        if eqm is None or hm is None or eqm.kind != 'func' or hm.kind != 'func':
            raise AnalysisError(f'{c.name}: __eq__/__hash__ not resolved to functions')
        eqf = m.member_function(c, '__eq__')
        hf = m.member_function(c, '__hash__')
        # follow delegating __eq__ (Range.__eq__ -> super().__eq__) to the decisive implementation
        eform, edet = _form_eq(eqf)
        chain = [eqf.qualname]
        cur = eqf
        while eform == 'delegating':
            nxt = m.member_function(c, '__eq__', after=cur.cls)
            if nxt is None:
                break
            cur = nxt
            chain.append(cur.qualname)
            eform, edet = _form_eq(cur)
        hform, hdet = _form_hash(hf, m)
        facts = {'eq': chain, 'eq_form': eform, 'eq_detail': edet, 'hash': hf.qualname, 'hash_form': hform, 'hash_detail': hdet}
        inst = c.name
        # R3: loki implementation selected
        if not eqf.module.name.startswith('loki.'):
            ctx.violation('R3', f'{c.name}:eq-owner', c.where, f'{c.name}.__eq__ resolves to {eqf.fqn}: string/case-insensitive '
                          'comparison mixin is not in front of the pymbolic bases', facts=facts)
        else:
            ctx.judge('R3', f'{c.name}:eq-owner', nontrivial=False)
        if not eqf.module.name.startswith('loki.'):
            continue
        if eform == 'unknown' or hform == 'unknown':
            raise AnalysisError(f'{c.name}: unrecognised eq/hash form {facts}')
        if eform == 'canonical':
            if hform == 'canonical':
                ctx.judge('R1', inst, facts=facts)
            else:
                ctx.violation('R1', inst, hf.where,
                              f'{c.name}: equality compares case-folded canonical strings ({chain[-1]}) but {hf.qualname} hashes '
                              f'{hdet}: raw (case-sensitive) components make equal nodes hash differently', facts=facts)
        elif eform == 'fields':
            if hform == 'fields' and set(hdet) <= set(edet):
                ctx.judge('R1', inst, facts=facts)
            else:
                ctx.violation('R1', inst, hf.where, f'{c.name}: equality on fields {edet} but hash over {hdet}', facts=facts)
        else:
            raise AnalysisError(f'{c.name}: eq form {eform}')
        # R2
        own_eq = '__eq__' in c.members
        own_hash = '__hash__' in c.members
        if own_eq and not own_hash:
            ctx.violation('R2', c.name, c.where, f'{c.name} defines __eq__ without __hash__ (Python sets __hash__ = None)')
        else:
            ctx.judge('R2', c.name, nontrivial=own_eq)
    # ---- R4 / R5
    ctx.rule('R4', 'no Compare(==) in an expression-class __eq__ has a str(...) operand that is not lower-cased')
    ctx.rule('R5', 'Range/RangeIndex.__eq__: the upper-bound shortcut is returned iff children[0] == 1 and children[2] is None')
    neq = 0
    for c in classes:
        mem = c.members.get('__eq__')
        if mem is None or mem.kind != 'func':
            continue
        neq += 1
        bad = []
        for n in ast.walk(mem.node):
            if isinstance(n, ast.Compare) and isinstance(n.ops[0], (ast.Eq, ast.NotEq)):
                for side in [n.left] + n.comparators:
                    t = ast.unparse(side)
                    if isinstance(side, ast.Call) and X.call_name_of(side) in ('str', 'repr') and '.lower()' not in t:
                        bad.append(ast.unparse(n))
        inst = f'{c.name}.__eq__:raw-str'
        if bad:
            ctx.violation('R4', inst, f'{c.module.relpath}:{mem.node.lineno}',
                          f'{c.name}.__eq__ compares `{bad[0]}`: str() keeps the letter case of names, so nodes differing only in '
                          f'case compare unequal (while their hashes, built from the case-insensitive parts, still agree)')
        else:
            ctx.judge('R4', inst)
    ctx.floor('R4', 'expression classes defining __eq__', neq, 5)
    for cn in ('Range', 'RangeIndex'):
        c = next(k for k in classes if k.name == cn)
        mem = c.members.get('__eq__')
        if mem is None:
            raise AnalysisError(f'{cn}.__eq__ vanished')
        body = X.body_nodoc(mem.node)
        is_short = lambda st: isinstance(st, ast.Return) and 'self.children[1] == other' in ast.unparse(st)   # noqa: E731
        rows = bad = 0
        for env, label, marks in BF.truth_table(body, is_mark=is_short, extra_atoms=['self.children[0] == 1', 'self.children[2] is None']):
            rows += 1
            want = env['self.children[0] == 1'] and env['self.children[2] is None']
            if bool(marks) != want:
                bad += 1
        (ctx.judge('R5', f'{cn}.__eq__ shortcut guard', facts={'rows': rows}) if not bad else
         ctx.violation('R5', f'{cn}.__eq__:shortcut-guard', f'{c.module.relpath}:{mem.node.lineno}',
                       f'the `1:n == n` shortcut of {cn} is taken outside the documented case (lower bound 1, no stride) on {bad}/{rows} '
                       f'rows: e.g. a strided range 1:n:2 compares equal to n (asymmetric and hash-inconsistent)'))

    # R3 canonicaliser
    mix = m.get_class('loki/expression/mixins.py', 'StrCompareMixin')
    can = mix.function('_canonical')
    rets = [ast.unparse(r.value) for r in ast.walk(can.node) if isinstance(r, ast.Return)]
    ok = any('.lower()' in r for r in rets) and all("replace(' ', '')" in r for r in rets)
    (ctx.judge('R3', '_canonical', facts={'returns': rets}) if ok else
     ctx.violation('R3', 'StrCompareMixin._canonical', can.where, f'canonical form is {rets}: no lower-casing / blank stripping'))
    eq = mix.function('__eq__')
    ok = '_canonical(self) == self._canonical(other)' in ast.unparse(eq.node)
    (ctx.judge('R3', 'StrCompareMixin.__eq__:both-sides') if ok else
     ctx.violation('R3', 'StrCompareMixin.__eq__', eq.where, 'the canonicaliser is not applied to both operands'))
    h = mix.function('__hash__')
    ok = _form_hash(h)[0] == 'canonical'
    (ctx.judge('R3', 'StrCompareMixin.__hash__') if ok else
     ctx.violation('R3', 'StrCompareMixin.__hash__', h.where, 'mixin hash is not the hash of the canonical string'))


MX = 'loki/expression/mixins.py'
SY = 'loki/expression/symbols.py'
MUTANTS = [
    Mutant('hash-raw-str', MX, "        return hash(self._canonical(self))", "        return hash(str(self))",
           expect=('R1', 'Sum'), quick=True),
    Mutant('canonical-no-lower', MX, "        return str(s).lower().replace(' ', '')", "        return str(s).replace(' ', '')",
           expect=('R3', '_canonical')),
    Mutant('range-drop-hash', SY,
           "    def __hash__(self):\n        \"\"\" Need custom hashing function if we specialise :meth:`__eq__` \"\"\"\n        return hash(super().__str__().lower().replace(' ', ''))\n\n    def __eq__(self, other):\n        \"\"\" Specialization to capture `a(1:n) == a(n)` \"\"\"",
           "    def __eq__(self, other):\n        \"\"\" Specialization to capture `a(1:n) == a(n)` \"\"\"",
           expect=('R2', 'RangeIndex')),
    Mutant('mixin-order', 'loki/expression/operations.py', "class Sum(StrCompareMixin, pmbl.Sum):", "class Sum(pmbl.Sum, StrCompareMixin):",
           expect=('R3', 'Sum:eq-owner')),
    Mutant('intliteral-hash-kind-only', 'loki/expression/literals.py',
           "    def __hash__(self):\n        return hash((self.value, self.kind))\n\n    def __eq__(self, other):\n        if isinstance(other, IntLiteral):",
           "    def __hash__(self):\n        return hash((self.value, self.kind, self.source))\n\n    def __eq__(self, other):\n        if isinstance(other, IntLiteral):",
           expect=('R1', 'IntLiteral')),
    Mutant('literal-kind-str-compare', 'loki/expression/literals.py',
           "        if isinstance(other, IntLiteral):\n            return self.value == other.value and self.kind == other.kind",
           "        if isinstance(other, IntLiteral):\n            return self.value == other.value and str(self.kind) == str(other.kind)",
           expect=('R4', 'IntLiteral.__eq__')),
    Mutant('range-shortcut-ignores-stride', SY, "        if self.children[0] == 1 and self.children[2] is None:\n            return self.children[1] == other or super().__eq__(other)\n        return super().__eq__(other)\n\n    @property\n    def lower",
           "        if self.children[0] == 1:\n            return self.children[1] == other or super().__eq__(other)\n        return super().__eq__(other)\n\n    @property\n    def lower",
           expect=('R5', 'Range.__eq__')),
    Mutant('inlinecall-hash-initargs', SY, "        return StrCompareMixin.__hash__(self)", "        return hash(self.__getinitargs__())", expect=('R1', 'InlineCall')),
    Mutant('neutral-inlinecall-hash-inline', SY, "        return StrCompareMixin.__hash__(self)", "        return hash(self._canonical(self))", expect=None),
]
