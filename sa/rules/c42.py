"""
C42  Lint results do not depend on parallelism or completion order.

 R1  the reporter is switched to manager-backed (process-shared) containers
     before any task is submitted (``init_parallel`` precedes the fan-out).
 R2  serial and parallel branches apply the same function with the same
     arguments to the same file list (each file exactly once per branch).
 R3  every submitted future is joined inside the work-queue context, and the
     final ``reporter.output()`` runs after the fan-in.
 R5  the per-file work (``Linter.check`` / ``Linter.fix`` / ``check_and_fix_file``)
     does not mutate the linter's persistent state: no store to ``self.<attr>``
     and no mutating operation on an alias of ``self.config`` (in serial mode one
     Linter sees every file, in parallel mode each task has a fresh copy, so any
     accumulated state makes the result depend on the worker count / order).
 R4  report handlers are stateless in ``handle`` (the per-file result does not
     depend on which files were handled before in the same process) and the
     reporter stores one result per handler per file report.
Not decided: content equality of messages, timing.
"""
import ast

from sa import exprs as X
from sa.model import AnalysisError
from sa.mutate import Mutant

PROP = 'C42'

META = dict(
    technique='sibling-branch comparison (serial vs parallel) after alpha-renaming, statement-order / dominance checks for '
              'init-before-fan-out and join-before-output, effect analysis (writes to self) of the handlers\' handle methods',
    level='Decides the structural conditions: identical work per file in both branches, shared-state initialisation before '
          'submission, all futures joined before output, handlers do not accumulate state in handle(). Does NOT decide '
          'message content or timing.',
    note='Trusts multiprocessing.Manager containers and concurrent.futures; as_completed order is irrelevant under R4.',
    ref='DESIGN.md section 3, C42',
)

LN = 'loki/lint/linter.py'
RP = 'loki/lint/reporter.py'


def _norm_call(call, loopvar, skip_first=False, drop=()):
    args = [ast.unparse(a) for a in call.args]
    if skip_first:
        args = args[1:]
    args = ['<file>' if a == loopvar else a for a in args]
    kws = {k.arg: ast.unparse(k.value) for k in call.keywords if k.arg not in drop}
    return args, kws


def run(ctx):
    m = ctx.model
    ctx.rule('R1', 'linter.reporter.init_parallel(manager) precedes the first q.call in the parallel branch')
    ctx.rule('R2', 'serial: check_and_fix_file(path, ...) for path in files == parallel: q.call(check_and_fix_file, f, ...) '
                   'for f in files (same callee, positional and keyword arguments; log_queue excepted)')
    ctx.rule('R3', 'all futures are consumed via .result() inside the `with workqueue` block; reporter.output() follows the '
                   'file loop in lint_files')
    ctx.rule('R4', 'handle() of every report handler does not assign to self / mutate self attributes; Reporter.add_file_report '
                   'appends exactly one handled result per handler')
    g = m.get_function(LN, 'lint_files_glob')
    top_if = [n for n in g.node.body if isinstance(n, ast.If)]
    if not top_if or 'max_workers == 1' not in ast.unparse(top_if[0].test):
        raise AnalysisError('lint_files_glob: serial/parallel branch not found')
    serial, par = top_if[0].body, top_if[0].orelse
    sloop = [n for n in serial if isinstance(n, ast.For)]
    if len(sloop) != 1:
        raise AnalysisError('lint_files_glob: serial loop not found')
    scall = [c for c in ast.walk(sloop[0]) if isinstance(c, ast.Call) and X.call_name_of(c) == 'check_and_fix_file']
    # the work queue is the name bound by `with workqueue(...) as <q>`
    qn = next((ast.unparse(i.optional_vars) for st in par if isinstance(st, ast.With) for i in st.items
               if i.optional_vars is not None and 'workqueue' in ast.unparse(i.context_expr)), 'q')
    pcalls = [c for st in par for c in ast.walk(st) if isinstance(c, ast.Call) and X.dotted_attr(c.func) == f'{qn}.call']
    if len(scall) != 1 or len(pcalls) != 1:
        raise AnalysisError('lint_files_glob: work calls not found')
    pcomp = [n for st in par for n in ast.walk(st) if isinstance(n, (ast.ListComp, ast.GeneratorExp)) and pcalls[0] in list(ast.walk(n))]
    if not pcomp:
        raise AnalysisError('lint_files_glob: parallel fan-out comprehension not found')
    pgen = pcomp[0].generators[0]
    s_args = _norm_call(scall[0], ast.unparse(sloop[0].target))
    p_args = _norm_call(pcalls[0], ast.unparse(pgen.target), skip_first=True, drop=('log_queue',))
    p_fn = ast.unparse(pcalls[0].args[0])
    facts = {'serial': s_args, 'parallel': p_args, 'parallel_callee': p_fn,
             'serial_iter': ast.unparse(sloop[0].iter), 'parallel_iter': ast.unparse(pgen.iter)}
    ok = p_fn == 'check_and_fix_file' and s_args == p_args
    (ctx.judge('R2', 'same work per file', facts=facts) if ok else
     ctx.violation('R2', 'lint_files_glob:branch-args', f'{g.module.relpath}:{pcalls[0].lineno}',
                   f'serial branch calls check_and_fix_file{s_args}, parallel branch calls {p_fn}{p_args}', facts=facts))
    fln = (X.names_assigned_from(g.node, 'find_paths(') or X.names_assigned_from(g.node, 'glob') or ['files'])[0]
    ok = ast.unparse(sloop[0].iter) == ast.unparse(pgen.iter) == fln and not pgen.ifs
    (ctx.judge('R2', 'same file list', facts=facts) if ok else
     ctx.violation('R2', 'lint_files_glob:file-list', g.where, f'serial iterates {facts["serial_iter"]}, parallel {facts["parallel_iter"]}'
                   f'{" with filter" if pgen.ifs else ""}'))
    files_assign = [n for n in g.node.body if isinstance(n, ast.Assign) and ast.unparse(n.targets[0]) == fln]
    (ctx.judge('R2', 'files computed once') if len(files_assign) == 1 and g.node.body.index(files_assign[0]) < g.node.body.index(top_if[0]) else
     ctx.violation('R2', 'lint_files_glob:files', g.where, 'the file list is not computed once before branching'))
    # R1
    initp = [c for st in par for c in ast.walk(st) if isinstance(c, ast.Call) and (X.dotted_attr(c.func) or '').endswith('reporter.init_parallel')]
    if initp and initp[0].lineno < pcalls[0].lineno and not any(isinstance(w, ast.With) and initp[0] in list(ast.walk(w)) and pcalls[0] in list(ast.walk(w)) and False for w in par):
        marg = ast.unparse(initp[0].args[0]) if initp[0].args else None
        wq = [w for w in par if isinstance(w, ast.With)]
        mkw = None
        if wq:
            for k in wq[0].items[0].context_expr.keywords:
                if k.arg == 'manager':
                    mkw = ast.unparse(k.value)
        (ctx.judge('R1', 'init_parallel before fan-out', facts={'manager': marg, 'workqueue_manager': mkw}) if marg == mkw else
         ctx.violation('R1', 'lint_files_glob:manager', g.where, f'reporter uses manager {marg!r}, workqueue uses {mkw!r}'))
    else:
        ctx.violation('R1', 'lint_files_glob:init_parallel', f'{g.module.relpath}:{pcalls[0].lineno}',
                      'tasks are submitted before (or without) linter.reporter.init_parallel(manager): reports appended in worker '
                      'processes are lost')
    # R3
    withs = [w for w in par if isinstance(w, ast.With)]
    joined = False
    if withs:
        for lp in [x for x in ast.walk(withs[0]) if isinstance(x, ast.For)]:
            tkn = (X.names_assigned_from(g.node, f'{qn}.call(') or ['q_tasks'])[0]
            if tkn in ast.unparse(lp.iter) and any(isinstance(c, ast.Call) and (X.dotted_attr(c.func) or '').endswith('.result')
                                                           for c in ast.walk(lp)):
                joined = not any(isinstance(x, (ast.Break,)) for x in ast.walk(lp))
    (ctx.judge('R3', 'futures joined in context') if joined else
     ctx.violation('R3', 'lint_files_glob:join', g.where, 'not every submitted future is waited for inside the workqueue context'))
    lf = m.get_function(LN, 'lint_files')
    out = [n.lineno for n in ast.walk(lf.node) if isinstance(n, ast.Call) and (X.dotted_attr(n.func) or '').endswith('reporter.output')]
    runs = [n.lineno for n in ast.walk(lf.node) if isinstance(n, ast.Call) and X.call_name_of(n) in ('lint_files_glob', 'lint_files_scheduler')]
    (ctx.judge('R3', 'output after fan-in') if out and runs and min(out) > max(runs) else
     ctx.violation('R3', 'lint_files:output-order', lf.where, 'reporter.output() does not follow the file processing'))
    kw = {}
    for n in ast.walk(lf.node):
        if isinstance(n, ast.Call) and X.call_name_of(n) == 'lint_files_glob':
            kw = {k.arg: ast.unparse(k.value) for k in n.keywords}
    (ctx.judge('R3', 'max_workers forwarded', facts=kw) if "config.get('max_workers'" in kw.get('max_workers', '') else
     ctx.violation('R3', 'lint_files:max_workers', lf.where, 'max_workers is not taken from the config'))
    # R4
    rmod = m.module_by_path(RP)
    gh = rmod.classes.get('GenericHandler')
    if gh is None:
        raise AnalysisError('GenericHandler vanished')
    nh = 0
    for c in rmod.classes.values():
        if gh in m.mro(c):
            f = c.function('handle')
            if f is None:
                continue
            nh += 1
            muts = []
            for n in ast.walk(f.node):
                if isinstance(n, (ast.Assign, ast.AugAssign)):
                    tgts = n.targets if isinstance(n, ast.Assign) else [n.target]
                    for t in tgts:
                        if (X.dotted_attr(t) or ast.unparse(t)).startswith('self.'):
                            muts.append(ast.unparse(n))
                if isinstance(n, ast.Call) and isinstance(n.func, ast.Attribute) and n.func.attr in ('append', 'extend', 'update', 'add') \
                        and (X.dotted_attr(n.func.value) or '').startswith('self.'):
                    muts.append(ast.unparse(n))
            (ctx.judge('R4', f'{c.name}.handle stateless') if not muts else
             ctx.violation('R4', f'{c.name}.handle:state', f.where,
                           f'{c.name}.handle mutates handler state ({muts[0]}): in parallel mode each worker has its own copy, so '
                           'results depend on the distribution of files over workers'))
    ctx.floor('R4', 'handler classes with handle()', nh, 4)
    R = m.get_class(RP, 'Reporter')
    afr = R.function('add_file_report')
    fpar = [a.arg for a in afr.node.args.args][1]
    hl = [l for l in ast.walk(afr.node) if isinstance(l, ast.For) and 'self.handlers_reports.items()' in ast.unparse(l.iter)
          and isinstance(l.target, ast.Tuple) and len(l.target.elts) == 2]
    ok = False
    if len(hl) == 1:
        hn_, rn_ = (ast.unparse(e) for e in hl[0].target.elts)
        apps = [c for c in ast.walk(hl[0]) if isinstance(c, ast.Call) and X.dotted_attr(c.func) == f'{rn_}.append']
        ok = len(apps) == 1 and f'{hn_}.handle({fpar})' in ast.unparse(apps[0])
    (ctx.judge('R4', 'one stored result per handler per report') if ok else
     ctx.violation('R4', 'Reporter.add_file_report', afr.where, 'add_file_report does not store exactly one handled result per handler'))
    ip = R.function('init_parallel')
    src = ast.unparse(ip.node)
    ctx.wired('R4', 'Reporter.init_parallel', ip.where, src, ['manager.dict()', 'manager.list(reports)', 'self.handlers_reports = parallel_reports'],
              'init_parallel does not move every handler list into manager containers')
    # ---- R5
    ctx.rule('R5', 'Linter.check / Linter.fix do not store to self.<attr> and do not mutate any alias of self.config; '
                   'check_and_fix_file passes no per-file overwrite_config')
    L = m.get_class(LN, 'Linter')
    MUT = {'pop', 'popitem', 'clear', 'update', 'setdefault', 'append', 'extend', 'remove', 'insert', 'add', 'discard', 'sort', 'reverse',
           '__setitem__', '__delitem__'}
    # idempotent caller-supplied override (same argument -> same state); check_and_fix_file must not pass it (checked below)
    R5_EXEMPT = {'config.update(overwrite_config)': 'explicit caller-supplied override, guarded by `if overwrite_config`; '
                                                    'not passed by the per-file driver'}
    n5 = 0
    for meth in ('check', 'fix'):
        f = L.function(meth)
        if f is None:
            raise AnalysisError(f'Linter.{meth} vanished')
        alias = set()
        changed = True
        def is_alias(e):
            if isinstance(e, ast.Attribute) and ast.unparse(e).startswith('self.config'):
                return True
            if isinstance(e, ast.Name):
                return e.id in alias
            if isinstance(e, ast.Subscript):
                return is_alias(e.value)
            if isinstance(e, ast.Call) and isinstance(e.func, ast.Attribute) and e.func.attr in ('get', 'setdefault', 'pop'):
                return is_alias(e.func.value)
            if isinstance(e, ast.IfExp):
                return is_alias(e.body) or is_alias(e.orelse)
            if isinstance(e, ast.BoolOp):
                return any(is_alias(v) for v in e.values)
            return False
        while changed:
            changed = False
            for n in ast.walk(f.node):
                pairs = []
                if isinstance(n, ast.Assign):
                    pairs = [(t, n.value) for t in n.targets]
                elif isinstance(n, ast.NamedExpr):
                    pairs = [(n.target, n.value)]
                elif isinstance(n, (ast.For, ast.comprehension)):
                    it = n.iter
                    if isinstance(it, ast.Call) and isinstance(it.func, ast.Attribute) and it.func.attr in ('items', 'values'):
                        it = it.func.value
                    if is_alias(it):
                        for t in ast.walk(n.target):
                            if isinstance(t, ast.Name) and t.id not in alias:
                                alias.add(t.id); changed = True
                for t, v in pairs:
                    if isinstance(t, ast.Name) and t.id not in alias and is_alias(v):
                        alias.add(t.id); changed = True
        bad = []
        for n in ast.walk(f.node):
            if isinstance(n, (ast.Assign, ast.AugAssign, ast.Delete)):
                tg = n.targets if not isinstance(n, ast.AugAssign) else [n.target]
                for t in tg:
                    if isinstance(t, ast.Attribute) and isinstance(t.value, ast.Name) and t.value.id == 'self':
                        bad.append((n, f'stores to {ast.unparse(t)}'))
                    elif isinstance(t, ast.Subscript) and is_alias(t.value):
                        bad.append((n, f'writes/deletes an entry of the persistent config ({ast.unparse(t)})'))
                    elif isinstance(n, ast.AugAssign) and is_alias(t):
                        bad.append((n, f'augments the persistent config object {ast.unparse(t)}'))
            elif isinstance(n, ast.Call) and isinstance(n.func, ast.Attribute) and n.func.attr in MUT and is_alias(n.func.value):
                shape = f'config.{n.func.attr}({", ".join(ast.unparse(a) for a in n.args)})' if isinstance(n.func.value, ast.Name) else ast.unparse(n)
                if shape in R5_EXEMPT and all(isinstance(a, ast.Name) and a.id in [p.arg for p in f.node.args.args + f.node.args.kwonlyargs]
                                              for a in n.args):
                    ctx.judge('R5', f'Linter.{meth}:{shape}', nontrivial=False, facts={'exempt': R5_EXEMPT[shape]})
                    continue
                bad.append((n, f'calls the mutating `{ast.unparse(n)[:70]}` on an alias of self.config'))
        n5 += 1
        if bad:
            for n, why in bad:
                ctx.violation('R5', f'Linter.{meth}:{ast.unparse(n)[:60]}', f'{f.module.relpath}:{n.lineno}',
                              f'Linter.{meth} {why}: one Linter object handles every file in serial mode but each parallel task '
                              f'works on a fresh copy, so what is reported for a file depends on the worker count and on the files '
                              f'handled before it', facts={'aliases_of_self_config': sorted(alias)})
        else:
            ctx.judge('R5', f'Linter.{meth} leaves self / self.config unchanged', facts={'aliases_of_self_config': sorted(alias)})
    cf = m.get_function(LN, 'check_and_fix_file')
    passes = [ast.unparse(c) for c in ast.walk(cf.node) if isinstance(c, ast.Call) and (X.dotted_attr(c.func) or '') in ('linter.check', 'linter.fix')
              and any(k.arg in ('overwrite_config', 'overwrite_rules', None) for k in c.keywords)]
    (ctx.judge('R5', 'check_and_fix_file passes no override') if not passes else
     ctx.violation('R5', 'check_and_fix_file:override', cf.where, f'{passes[0]} installs a per-file configuration override in the shared linter'))
    ctx.floor('R5', 'per-file Linter methods analysed', n5, 2)
    src = ast.unparse(cf.node)
    ctx.wired('R2', 'check_and_fix_file', cf.where, src, ['Sourcefile.from_file(path)', 'linter.check(source)'],
              'check_and_fix_file does not parse and check the given path')


MUTANTS = [
    Mutant('init-after-fanout', LN,
           "        manager = Manager()\n        linter.reporter.init_parallel(manager)\n\n        with workqueue(workers=max_workers, logger=logger, manager=manager) as q:\n",
           "        manager = Manager()\n\n        with workqueue(workers=max_workers, logger=logger, manager=manager) as q:\n",
           expect=('R1', 'init_parallel'), quick=True),
    Mutant('parallel-drops-fix', LN, "q.call(check_and_fix_file, f, linter, fix=fix, backup_suffix=backup_suffix, log_queue=log_queue)",
           "q.call(check_and_fix_file, f, linter, backup_suffix=backup_suffix, log_queue=log_queue)", expect=('R2', 'branch-args')),
    Mutant('parallel-skips-files', LN, "                for f in files\n            ]", "                for f in files[1:]\n            ]", expect=('R2', 'file-list')),
    Mutant('no-join', LN, "            for t in as_completed(q_tasks):\n                checked_count += t.result()\n", "            checked_count = len(q_tasks)\n",
           expect=('R3', 'join')),
    Mutant('handler-accumulates', RP, "    def handle(self, file_report):\n", "    def handle(self, file_report):\n        self.seen = getattr(self, 'seen', 0) + 1\n",
           count=3, expect=('R4', 'handle:state')),
    Mutant('disable-entry-consumed', LN, "            disable_file = disable_config[disable_file_key]\n", "            disable_file = disable_config.pop(disable_file_key)\n",
           expect=('R5', 'Linter.check'), quick=True),
    Mutant('check-counts-files', LN, "        # Store the file report\n        self.reporter.add_file_report(file_report)\n",
           "        self.checked = getattr(self, 'checked', 0) + 1\n        self.reporter.add_file_report(file_report)\n", expect=('R5', 'Linter.check')),
    Mutant('neutral-local-copy', LN, "        disabled_rules = CaseInsensitiveDict()\n", "        disabled_rules = CaseInsensitiveDict()\n        disabled_rules.update({})\n", expect=None),
    Mutant('output-before', LN, "    linter = Linter(reporter=Reporter(handlers), rules=rules, config=config)\n",
           "    linter = Linter(reporter=Reporter(handlers), rules=rules, config=config)\n    linter.reporter.output()\n", expect=('R3', 'output-order')),
]
