"""
C31  Loop transformations preserve behaviour where they apply.

 R1  unrolling: ``LoopUnrollTransformer.visit_Loop`` enumerates the iterations with
     ``get_pyrange`` on a LoopRange built from start, stop *and* step of the loop;
     the helper must therefore honour the sign of the step (C10 R1, re-evaluated
     here on the current tree).  A descending constant loop loses its last
     iteration otherwise.
 R2  range field coverage: a function that constructs a new ``LoopRange`` for a
     transformed loop either reads ``.step`` of the source ranges, or goes through a
     step-aware helper (``num_iterations`` / ``iteration_index`` /
     ``iteration_number``), or through ``Polyhedron.from_loop_ranges`` which rejects
     non-unit steps (assertion checked).
 R3  every unrolled copy substitutes the loop variable in the whole body.
 R4  loop fusion renames loop variables *simultaneously*: the substitution of the
     nest's variables by the fused variables is applied once, with one combined
     map, outside the loop over the nesting levels.  Applying one substitution per
     level inside that loop lets an earlier renaming capture a later one
     (j -> i followed by i -> j turns c(j,i) into c(j,j)).
 R5  loop fission merges the promotion dimensions at every fission site: the
     automatically detected variables are filtered against this pragma's explicit
     list only (a variable known from an earlier site must be registered again so
     that its dimensions are merged).
 R6  names are compared with both operands case-folded (or neither): a one-sided
     ``.lower()`` never matches an upper-case spelling.
Not decided: legality analysis (independence), body re-indexing arithmetic.
"""
import ast

from sa import exprs as X
from sa.model import AnalysisError
from sa.mutate import Mutant

PROP = 'C31'

META = dict(
    technique='call-graph fact (unroller -> get_pyrange) + re-evaluation of the range-construction rule; per-function field-coverage '
              'of LoopRange constructions (step read / step-aware helper / rejecting helper)',
    level='Decides two necessary conditions: the iteration set used for unrolling honours descending steps, and no loop '
          'transformation silently drops a stride when it builds new loop ranges. Does NOT decide dependence legality.',
    note='Step-aware helpers are a 4-entry table in the rule; the rejecting assertion in util_polyhedron is checked on every run.',
    ref='DESIGN.md section 3, C31',
)

TL = 'loki/transformations/transform_loop.py'
LB = 'loki/transformations/loop_blocking.py'
SYM = 'loki/expression/symbolic.py'
STEP_AWARE = ('num_iterations', 'iteration_index', 'iteration_number', 'normalized')


def run(ctx):
    m = ctx.model
    ctx.rule('R1', 'visit_Loop of the unroller builds LoopRange((start, stop, step)) for get_pyrange; get_pyrange\'s range(...) stop '
                   'adjustment depends on the sign of the step')
    ctx.rule('R2', 'functions constructing LoopRange read .step, use a step-aware helper, or use Polyhedron.from_loop_ranges '
                   '(which asserts unit steps)')
    ctx.rule('R3', 'unrolled copies are SubstituteExpressions({o.variable: IntLiteral(i)}).visit(o.body) for every i in the range')
    U = m.get_class(TL, 'LoopUnrollTransformer')
    vl = U.function('visit_Loop')
    src = ast.unparse(vl.node)
    calls = [c for c in ast.walk(vl.node) if isinstance(c, ast.Call) and X.call_name_of(c) == 'get_pyrange']
    if not calls:
        raise AnalysisError('LoopUnrollTransformer.visit_Loop no longer uses get_pyrange')
    # the three values handed to get_pyrange must be bound to o.bounds.start / .stop / .step (default 1)
    arg = calls[0].args[0] if calls[0].args else None
    elts = []
    if isinstance(arg, ast.Call) and X.call_name_of(arg) == 'LoopRange' and arg.args and isinstance(arg.args[0], ast.Tuple):
        elts = [ast.unparse(e) for e in arg.args[0].elts]
    binding = {}
    for n in ast.walk(vl.node):
        if isinstance(n, ast.Assign):
            t, v = n.targets[0], n.value
            if isinstance(t, ast.Tuple) and isinstance(v, ast.Tuple) and len(t.elts) == len(v.elts):
                for a, b in zip(t.elts, v.elts):
                    binding[ast.unparse(a)] = ast.unparse(b)
            elif isinstance(t, ast.Name):
                binding[t.id] = ast.unparse(v)
    ok = len(elts) == 3 and binding.get(elts[0]) == 'o.bounds.start' and binding.get(elts[1]) == 'o.bounds.stop' \
        and 'o.bounds.step' in binding.get(elts[2], '')
    (ctx.judge('R1', 'unroller passes start/stop/step') if ok else
     ctx.violation('R1', 'LoopUnrollTransformer.visit_Loop:range', vl.where, 'the range handed to get_pyrange is not built from '
                   'start, stop and step of the loop'))
    # re-evaluate the helper (same rule as C10 R1)
    gp = m.get_function(SYM, 'get_pyrange')
    from sa.rules.c10 import stop_adjustments
    bad = None
    for call, ok_, _facts in stop_adjustments(gp.node):
        if not ok_:
            bad = call
    sign_in_unroller = any(('step' in g and ('< 0' in g or '> 0' in g)) for _, gs in
                           X.nodes_with_guards(vl.node, lambda x: x is calls[0]) for g in gs)
    if bad is not None and not sign_in_unroller:
        ctx.violation('R1', 'LoopUnrollTransformer.visit_Loop:descending-step', vl.where,
                      f'the unroller enumerates iterations with get_pyrange, whose `{ast.unparse(bad)}` adds a constant to the upper '
                      f'bound whatever the sign of the step: unrolling DO i=10,1,-3 emits bodies for 10,7,4 and drops i=1',
                      facts={'helper': ast.unparse(bad)})
    else:
        ctx.judge('R1', 'iteration set honours the step sign')
    # ---- R3
    subs = [c for c in ast.walk(vl.node) if isinstance(c, ast.ListComp) and 'SubstituteExpressions' in ast.unparse(c)]
    rng = (X.names_assigned_from(vl.node, 'get_pyrange(') or ['unroll_range'])[0]

    def one_per_iteration(c):
        g = c.generators[0]
        return isinstance(g.target, ast.Name) and not g.ifs and ast.unparse(g.iter) == rng \
            and ast.unparse(c.elt) == f'SubstituteExpressions({{o.variable: sym.IntLiteral({g.target.id})}}).visit(o.body)'
    ok = subs and all(one_per_iteration(c) for c in subs)
    (ctx.judge('R3', 'one substituted body per iteration', facts={'sites': len(subs)}) if ok else
     ctx.violation('R3', 'LoopUnrollTransformer.visit_Loop:copies', vl.where, 'unrolled copies are not one substituted body per enumerated iteration'))
    # ---- R2
    n = 0
    for rel in (TL, LB):
        mod = m.module_by_path(rel)
        fns = list(mod.functions.values()) + [c.function(k) for c in mod.classes.values() for k in c.members if c.members[k].kind == 'func']
        for f in fns:
            if f is None:
                continue
            ctor = [c for c in ast.walk(f.node) if isinstance(c, ast.Call) and X.call_name_of(c) == 'LoopRange']
            if not ctor:
                continue
            n += 1
            txt = ast.unparse(f.node)
            reads_step = '.step' in txt
            helper = [h for h in STEP_AWARE if h in txt]
            poly = 'Polyhedron.from_loop_ranges' in txt or 'from_loop_ranges(' in txt
            literal_only = all(all(isinstance(e, ast.Call) and X.call_name_of(e) in ('IntLiteral', 'parse_expr') or
                                   (isinstance(e, ast.Attribute) and e.attr in ('num_blocks',))
                                   for e in (c.args[0].elts if c.args and isinstance(c.args[0], ast.Tuple) else [None])) for c in ctor)
            inst = f'{f.qualname}'
            facts = {'reads_step': reads_step, 'step_aware_helpers': helper, 'polyhedron': poly, 'fresh_unit_range': literal_only}
            from_source = any(a in txt for a in ('.start', '.stop', '.bounds', '.lower', '.upper'))
            facts['derives_from_existing_range'] = from_source
            if reads_step or helper or poly or literal_only or not from_source:
                ctx.judge('R2', inst, facts=facts)
            else:
                ctx.violation('R2', f'{f.qualname}:step-dropped', f.where,
                              f'{f.qualname} builds a new LoopRange without looking at the stride of the loops it transforms: a loop '
                              f'with a non-unit step is silently turned into a unit-step loop', facts=facts)
    ctx.floor('R2', 'functions constructing LoopRange', n, 4)
    pl = m.module_by_path('loki/analyse/util_polyhedron.py')
    flr = m.get_function('loki/analyse/util_polyhedron.py', 'Polyhedron.from_loop_ranges')
    ok = any(isinstance(a, ast.Assert) and '.step is None or' in ast.unparse(a.test) and '.step ==' in ast.unparse(a.test)
             for a in ast.walk(flr.node))
    (ctx.judge('R2', 'Polyhedron.from_loop_ranges rejects non-unit steps') if ok else
     ctx.violation('R2', 'Polyhedron.from_loop_ranges:step-assert', pl.relpath, 'the polyhedron construction no longer rejects non-unit steps: '
                   'fusion/interchange would drop strides'))

    # ---- R4
    ctx.rule('R4', 'do_loop_fusion: SubstituteExpressions(<map>).visit(<body>) for the loop-variable renaming is applied outside the loop '
                   'over zip(variables, fusion_variables) that fills the map')
    lf = m.get_function(TL, 'do_loop_fusion')
    n4 = 0
    for lp in [x for x in ast.walk(lf.node) if isinstance(x, ast.For) and isinstance(x.iter, ast.Call) and X.call_name_of(x.iter) == 'zip'
               and 'fusion_variables' in ast.unparse(x.iter) and isinstance(x.target, ast.Tuple) and len(x.target.elts) == 2]:
        maps = {ast.unparse(c.func.value) for c in ast.walk(lp) if isinstance(c, ast.Call) and isinstance(c.func, ast.Attribute)
                and c.func.attr == 'update' and isinstance(c.func.value, ast.Name)} | \
            {t.id for a_ in ast.walk(lp) if isinstance(a_, ast.Assign) and isinstance(a_.value, (ast.Dict, ast.DictComp)) for t in a_.targets
             if isinstance(t, ast.Name)}
        if not maps:
            continue
        n4 += 1
        inside = [c for c in ast.walk(lp) if isinstance(c, ast.Call) and X.call_name_of(c) == 'SubstituteExpressions' and c.args
                  and ast.unparse(c.args[0]) in maps]
        inst = f'do_loop_fusion:rename-map:{sorted(maps)[0]}'
        if inside:
            ctx.violation('R4', 'do_loop_fusion:sequential-renaming', f'{lf.module.relpath}:{inside[0].lineno}',
                          f'`{ast.unparse(inside[0])}` is applied inside the loop over the nesting levels: the variables of a nest are renamed '
                          f'one after the other, so a name introduced by an earlier level is renamed again by a later one '
                          f'(first nest i/j, later nest j/i: c(j,i) becomes c(j,j))', instance=inst)
        else:
            after = [c for c in ast.walk(lf.node) if isinstance(c, ast.Call) and X.call_name_of(c) == 'SubstituteExpressions' and c.args
                     and ast.unparse(c.args[0]) in maps and c.lineno > (lp.end_lineno or lp.lineno)]
            (ctx.judge('R4', inst, facts={'applied_at_line': after[0].lineno}) if after else
             ctx.violation('R4', 'do_loop_fusion:renaming-not-applied', f'{lf.module.relpath}:{lp.lineno}',
                           'the renaming map of the loop variables is never applied to the body', instance=inst))
    ctx.floor('R4', 'loop-variable renaming maps in do_loop_fusion', n4, 1)

    # ---- R5 fission: promotion dimensions are merged at every fission site
    ctx.rule('R5', 'do_loop_fission: the variables detected at a fission site are filtered against the explicit promote list of *this* pragma only, '
                   'never against the dimensions accumulated from earlier sites')
    fi = m.get_function(TL, 'do_loop_fission')
    acc = set()
    for a in ast.walk(fi.node):
        if isinstance(a, ast.Assign) and isinstance(a.value, ast.Call) and X.call_name_of(a.value) == 'promotion_dimensions_from_loop_nest':
            for t in a.targets:
                acc |= {n.id for n in ast.walk(t) if isinstance(n, ast.Name)}
    if not acc:
        raise AnalysisError('do_loop_fission: accumulation through promotion_dimensions_from_loop_nest not found')
    comps = [c for c in ast.walk(fi.node) if isinstance(c, (ast.ListComp, ast.GeneratorExp)) and 'read_after_write_vars' in ast.unparse(c.generators[0].iter)]
    if not comps:
        raise AnalysisError('do_loop_fission: automatic detection of promotion variables not found')
    for c in comps:
        names = {n.id for i_ in c.generators[0].ifs for n in ast.walk(i_) if isinstance(n, ast.Name)}
        # follow one level of locals
        for a in ast.walk(fi.node):
            if isinstance(a, ast.Assign) and any(isinstance(t, ast.Name) and t.id in names for t in a.targets):
                names |= {n.id for n in ast.walk(a.value) if isinstance(n, ast.Name)}
        bad = sorted(names & acc)
        if bad:
            ctx.violation('R5', 'do_loop_fission:auto-promotion-skipped-for-known-variables', f'{TL}:{c.lineno}',
                          f'the read-after-write variables of a fission site are filtered against `{bad[0]}`, the dimensions accumulated from '
                          f'earlier sites: a temporary already registered by an earlier pragma is not passed to '
                          f'promotion_dimensions_from_loop_nest again, its dimensions are not merged and it is under-promoted at the later site')
        else:
            ctx.judge('R5', 'auto-detected promotion variables are merged at every site', facts={'filter_names': sorted(names)})

    # ---- R6 name comparisons fold both sides
    ctx.rule('R6', 'transform_loop.py: a comparison of two symbol names folds the case of both operands or of neither')
    modl = m.module_by_path(TL)

    def _folded(e):
        return isinstance(e, ast.Call) and isinstance(e.func, ast.Attribute) and e.func.attr in ('lower', 'upper') and not e.args

    def _is_name(e):
        return isinstance(e, ast.Attribute) and e.attr in ('name', 'basename')
    n6 = 0
    for c in ast.walk(modl.tree):
        if isinstance(c, ast.Compare) and len(c.ops) == 1 and isinstance(c.ops[0], (ast.Eq, ast.NotEq)):
            a_, b_ = c.left, c.comparators[0]
            sides = [(_folded(x) and _is_name(x.func.value), _is_name(x)) for x in (a_, b_)]
            if any(s_[0] or s_[1] for s_ in sides) and all(s_[0] or s_[1] for s_ in sides):
                n6 += 1
                inst = f'{ast.unparse(c)[:70]}'
                if sides[0][0] != sides[1][0]:
                    ctx.violation('R6', 'transform_loop:one-sided-case-fold', f'{TL}:{c.lineno}',
                                  f'`{ast.unparse(c)}` lower-cases one operand only: Fortran names are case-insensitive, so with DO I / DO J (upper '
                                  f'case in the source) the names never compare equal and the loop variable is not renamed in the fused body',
                                  instance=inst)
                else:
                    ctx.judge('R6', inst)
    ctx.floor('R6', 'name-to-name comparisons in transform_loop.py', n6, 1)


MUTANTS = [
    Mutant('fusion-rename-one-sided-fold', TL, "                                        if var.name.lower() == loop_variable.name.lower()})",
           "                                        if var.name.lower() == loop_variable.name})", expect=('R6', 'one-sided-case-fold')),
    Mutant('fission-skips-known-promotions', TL,
           "                promote_vars += [v.name.lower() for v in read_after_write_vars(loops[-1].body, pragma)\n                                 if v.name.lower() not in promote_vars]",
           "                known_vars = set(promote_vars) | set(promotion_vars_dims)\n                promote_vars += [v.name.lower() for v in read_after_write_vars(loops[-1].body, pragma)\n                                 if v.name.lower() not in known_vars]",
           expect=('R5', 'auto-promotion-skipped')),
    Mutant('fusion-renames-level-by-level', TL,
           "                var_map = {}\n                for loop_variable, fusion_variable in zip(variables, fusion_variables):\n                    if loop_variable != fusion_variable:\n                        var_map.update({var: fusion_variable for var in FindVariables().visit(body)\n                                        if var.name.lower() == loop_variable.name.lower()})\n                if var_map:\n                    body = SubstituteExpressions(var_map).visit(body)\n",
           "                for loop_variable, fusion_variable in zip(variables, fusion_variables):\n                    if loop_variable != fusion_variable:\n                        var_map = {var: fusion_variable for var in FindVariables().visit(body)\n                                   if var.name.lower() == loop_variable.name}\n                        body = SubstituteExpressions(var_map).visit(body)\n",
           expect=('R4', 'sequential-renaming')),
    Mutant('unroller-drops-step', TL, "            unroll_range = get_pyrange(LoopRange((start, stop, step)))", "            unroll_range = get_pyrange(LoopRange((start, stop)))",
           expect=('R1', 'visit_Loop:range'), quick=True),
    Mutant('pyrange-descending-branch-removed', SYM,
           "    if step < 0:\n        # Descending loop: the (inclusive) bound is the smallest value\n        return range(LEM(loop_range.start), ceil(LEM(loop_range.stop))-1, step)\n",
           "", expect=('R1', 'descending-step')),
    Mutant('polyhedron-accepts-steps', 'loki/analyse/util_polyhedron.py', "            assert loop_range.step is None or loop_range.step == \"1\"\n", "",
           expect=('R2', 'step-assert')),
    Mutant('unroll-skips-last', TL, "[SubstituteExpressions({o.variable: sym.IntLiteral(i)}).visit(o.body) for i in unroll_range]",
           "[SubstituteExpressions({o.variable: sym.IntLiteral(i)}).visit(o.body) for i in unroll_range[:-1]]", count=2, expect=('R3', 'copies')),
]
