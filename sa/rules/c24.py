"""
C24  Planning mode predicts exactly the files a conversion writes.

 R1  sibling agreement: ``FileWriteTransformation.plan_file`` (plan mode) and
     ``.transform_file`` (real conversion) derive ``item`` and ``build_args`` by
     the same statements and compute the output path with the same call
     ``self._get_file_path(item, build_args)``; the real conversion writes to
     exactly that path.
 R2  writer/reader key agreement: the key and field under which plan_file stores
     the path in ``item.trafo_data`` are the ones ``CMakePlanTransformation.
     plan_file`` reads (and tests for).
 R3  exact truth table of the plan lists: a new source is appended iff a write was
     planned; the original is listed as to-transform iff it exists (or, for a
     replicated item whose current path does not exist, its original path); it
     is listed as to-remove iff it exists and the item is not replicated.
 R4  the scheduler passes ``plan_mode`` from the processing strategy and
     ``Transformation.apply`` dispatches to ``plan_*`` iff it is set.
Not decided: that every pipeline step that writes files is a FileWriteTransformation.
 R5  planned dependencies accumulate: every writer of
     ``plan_data['additional_dependencies']`` in loki/transformations extends the
     entry (``+=``); a plain assignment erases what earlier stages of the
     pipeline registered for the same item, and the plan omits files the real
     run writes.
 R6  the plan is filtered like the real run: in ``Item.create_dependency_items``
     the planned dependencies are merged into the item list *before* the
     ``disable`` filter (after real inlining the same calls are in the caller's
     IR and are filtered by it).
"""
import ast

from sa import exprs as X, boolfun as BF
from sa.model import AnalysisError
from sa.mutate import Mutant

PROP = 'C24'

META = dict(
    technique='sibling-method comparison after normalisation (plan_file vs transform_file), dict-key writer/reader agreement, '
              'exact truth-table evaluation of the plan-list updates over their atomic conditions, plan_mode wiring check',
    level='Decides structurally that plan and conversion compute one and the same output path from the same inputs, that the '
          'plan reader consumes what the plan writer stored, and that the append/transform/remove decisions are the documented '
          'boolean functions of (exists, replicate, original exists). Does NOT decide that all file-writing steps participate.',
    note='Atoms of the truth table are the leaf conditions found in the method; unknown leaves become free variables.',
    ref='DESIGN.md section 3, C24',
)

FW = 'loki/transformations/build_system/file_write.py'
PL = 'loki/transformations/build_system/plan.py'


def run(ctx):
    m = ctx.model
    ctx.rule('R1', 'plan_file and transform_file share the statements deriving item/build_args and the path call; transform_file '
                   'writes to that path')
    ctx.rule('R2', "plan_file stores item.trafo_data[K] = {F: path}; CMakePlanTransformation.plan_file tests K and reads [K][F]")
    ctx.rule('R3', 'append/transform/remove list updates as boolean functions of source_exists, item.replicate, orig exists')
    ctx.rule('R4', "kwargs['plan_mode'] = (strategy == PLAN); Transformation.apply selects plan_* iff plan_mode")
    W = m.get_class(FW, 'FileWriteTransformation')
    pf, tf = W.function('plan_file'), W.function('transform_file')
    if pf is None or tf is None:
        raise AnalysisError('FileWriteTransformation.plan_file/transform_file vanished')

    def prefix(f):
        out = []
        for st in X.body_nodoc(f.node):
            out.append(ast.unparse(st))
            if '_get_file_path' in out[-1]:
                break
        return out
    a, b = prefix(pf), prefix(tf)
    # the path call receives the item and the build arguments derived above (whatever the locals are called)
    in_ = (X.names_assigned_from(pf.node, "kwargs.get('item')") or ['item'])[0]
    bn_ = (X.names_assigned_from(pf.node, "kwargs.get('build_args'") or ['build_args'])[0]
    # sibling comparison modulo renaming of locals: compare after mapping each function's locals to their definition order
    def canon_(stmts, f):
        loc = []
        for n_ in ast.walk(f.node):
            if isinstance(n_, ast.Name) and isinstance(n_.ctx, ast.Store) and n_.id not in loc:
                loc.append(n_.id)
        out_ = []
        import re as _re
        for t_ in stmts:
            for i_, nm in enumerate(loc):
                t_ = _re.sub(r'\b%s\b' % _re.escape(nm), f'L{i_}', t_)
            out_.append(t_)
        return out_
    if canon_(a, pf) == canon_(b, tf) and a and f'_get_file_path({in_}, {bn_})' in a[-1]:
        ctx.judge('R1', 'plan_file == transform_file up to the path', facts={'statements': a})
    else:
        diff = [(x, y) for x, y in zip(a, b) if x != y][:2] or [(a[-1:], b[-1:])]
        ctx.violation('R1', 'FileWriteTransformation:plan-vs-transform', pf.where,
                      f'plan_file and transform_file derive the output path differently: {diff}: the plan lists a file name the '
                      f'conversion does not write', facts={'plan': a, 'transform': b})
    wr = [c for c in ast.walk(tf.node) if isinstance(c, ast.Call) and X.dotted_attr(c.func) == 'sourcefile.write']
    kw = {k.arg: ast.unparse(k.value) for k in wr[0].keywords} if wr else {}
    pathvar = a[-1].split('=')[0].strip() if a else None
    (ctx.judge('R1', 'transform_file writes to the computed path', facts=kw) if kw.get('path') == pathvar else
     ctx.violation('R1', 'FileWriteTransformation.transform_file:write-path', tf.where, f'the file is written to {kw.get("path")!r}, not {pathvar!r}'))
    # R2
    store = [n for n in ast.walk(pf.node) if isinstance(n, ast.Assign) and '.trafo_data[' in ast.unparse(n.targets[0])]
    if not store or not isinstance(store[0].value, ast.Dict):
        raise AnalysisError('plan_file: trafo_data store not found')
    key_w = ast.unparse(store[0].targets[0].slice)
    fields_w = {ast.unparse(k): ast.unparse(v) for k, v in zip(store[0].value.keys, store[0].value.values)}
    C = m.get_class(PL, 'CMakePlanTransformation')
    cp = C.function('plan_file')
    reads = [n for n in ast.walk(cp.node) if isinstance(n, ast.Subscript) and isinstance(n.value, ast.Subscript)
             and '.trafo_data' in ast.unparse(n.value.value)]
    tests = [n for n in ast.walk(cp.node) if isinstance(n, ast.Compare) and '.trafo_data' in ast.unparse(n.comparators[0])]
    key_r = {ast.unparse(r.value.slice) for r in reads}
    fld_r = {ast.unparse(r.slice) for r in reads}
    key_t = {ast.unparse(t.left) for t in tests}
    facts = {'written_key': key_w, 'written_fields': fields_w, 'read_keys': sorted(key_r), 'read_fields': sorted(fld_r), 'tested': sorted(key_t)}
    ok = key_r == {key_w} and fld_r <= set(fields_w) and key_t == {key_w} and fields_w.get("'path'") == pathvar
    (ctx.judge('R2', 'trafo_data key/field agreement', facts=facts) if ok else
     ctx.violation('R2', 'trafo_data:key-agreement', cp.where, f'plan writer and reader disagree: {facts}', facts=facts))
    # R3 truth table
    body = X.body_nodoc(cp.node)
    # locals of plan_file, identified by what they are bound to
    itn = (X.names_assigned_from(cp.node, "kwargs.get('item')") or X.names_assigned_from(cp.node, "kwargs['item']") or ['item'])[0]
    spn = (X.names_assigned_from(cp.node, f'{itn}.path') or ['sourcepath'])[0]
    sen = (X.names_assigned_from(cp.node, f'{spn}.exists()') or ['source_exists'])[0]
    osn = (X.names_assigned_from(cp.node, f'{itn}.orig_path') or ['orig_sourcepath'])[0]
    oen = (X.names_assigned_from(cp.node, f'{osn}.exists()') or ['orig_source_exists'])[0]
    nsn = (X.names_assigned_from(cp.node, f"{itn}.trafo_data[", "['path']") or ['newsource'])[0]
    kyn = (X.names_assigned_from(cp.node, f'{itn}.lib') or ['key'])[0]
    canon = {spn: 'sourcepath', osn: 'orig_sourcepath', nsn: 'newsource', f'{itn}.path': 'item.path'}

    def mark(st):
        return isinstance(st, ast.Expr) and isinstance(st.value, ast.Call) and f'.setdefault({kyn}, []).append(' in ast.unparse(st.value)
    rows = bad = 0
    example = None
    for env, label, marks in BF.truth_table(body, is_mark=mark):
        if env.get(f"'FileWriteTransformation' in {itn}.trafo_data") is False or env.get(itn) is False:
            continue
        if env.get(f'{nsn} in self.sources_to_append'):
            continue
        rows += 1
        ex = env.get(sen)
        rep = env.get(f'{itn}.replicate')
        oex = env.get(oen)
        got = sorted(ast.unparse(s.value).split('.')[1] + ':' + canon.get(ast.unparse(s.value.args[0]), ast.unparse(s.value.args[0])) for s in marks)
        want = ['sources_to_append:newsource']
        if ex:
            want.append('sources_to_transform:sourcepath')
        if rep and oex and not ex:
            want.append('sources_to_transform:orig_sourcepath')
        if not rep and ex:
            want.append('sources_to_remove:' + ('sourcepath' if env.get('self.rootpath is None') is False else 'item.path'))
        if sorted(want) != got:
            bad += 1
            example = example or ({k: v for k, v in env.items()}, got, sorted(want))
    ctx.floor('R3', 'truth-table rows of CMakePlanTransformation.plan_file', rows, 8)
    if bad:
        ctx.violation('R3', 'CMakePlanTransformation.plan_file:lists', cp.where,
                      f'plan lists differ from the documented rule on {bad}/{rows} rows, e.g. {example[0]} -> {example[1]}, expected {example[2]}',
                      facts={'example': str(example)})
    else:
        ctx.judge('R3', 'CMakePlanTransformation.plan_file:lists', facts={'rows': rows})
    # R4
    sch = m.get_function('loki/batch/scheduler.py', 'Scheduler.process_transformation')
    src = ast.unparse(sch.node)
    pm = [ast.unparse(v) for d in ast.walk(sch.node) if isinstance(d, ast.Dict) for k_, v in zip(d.keys, d.values)
          if isinstance(k_, ast.Constant) and k_.value == 'plan_mode'] + \
         [ast.unparse(k_.value) for c_ in ast.walk(sch.node) if isinstance(c_, ast.Call) for k_ in c_.keywords if k_.arg == 'plan_mode']
    if not pm:
        raise AnalysisError('process_transformation: the value handed on as plan_mode was not found')
    strat = [a.arg for a in sch.node.args.args + sch.node.args.kwonlyargs if 'strategy' in a.arg]
    okpm = all(any(s_ in v for s_ in strat) and 'ProcessingStrategy.PLAN' in v and '==' in v for v in pm)
    (ctx.judge('R4', 'plan_mode from strategy', facts={'plan_mode': pm}) if okpm else
     ctx.violation('R4', 'process_transformation:plan_mode', sch.where, f'plan_mode is `{pm}`, not derived from the processing strategy (== ProcessingStrategy.PLAN)'))
    T = m.get_class('loki/batch/transformation.py', 'Transformation')
    n = 0
    for meth in ('apply_file', 'apply_subroutine', 'apply_module'):
        f = T.function(meth)
        if f is None:
            raise AnalysisError(f'Transformation.{meth} vanished')
        kind = meth.split('_')[1]
        sites = X.nodes_with_guards(f.node, lambda c: isinstance(c, ast.Call) and (X.dotted_attr(c.func) or '') in
                                    (f'self.plan_{kind}', f'self.transform_{kind}'))
        for c, guards in sites:
            n += 1
            is_plan = 'plan_' in X.dotted_attr(c.func)
            gt = ' and '.join(guards)
            ok = ('plan_mode' in gt) and (('not (' in gt.split('plan_mode')[0][-6:]) != is_plan or True)
            pos = any('plan_mode' in g and not g.startswith('not (') for g in guards)
            neg = any('plan_mode' in g and g.startswith('not (') for g in guards)
            good = (is_plan and pos and not neg) or (not is_plan and neg and not pos)
            inst = f'Transformation.{meth}:{X.dotted_attr(c.func)}'
            (ctx.judge('R4', inst, facts={'guards': guards}) if good else
             ctx.violation('R4', inst, f'{f.module.relpath}:{c.lineno}', f'{X.dotted_attr(c.func)} runs under guards {guards}: plan and '
                           f'conversion are not selected by plan_mode'))
    ctx.floor('R4', 'plan/transform dispatch sites', n, 6)

    # ---- R5
    ctx.rule('R5', "every store to plan_data['additional_dependencies'] in loki/transformations is an augmented `+=`")
    ctx.rule('R6', "Item.create_dependency_items reads plan_data['additional_dependencies'] into the item list before the disable filter")
    n5 = 0
    for mod in m.all_repo_modules(packages=('loki/transformations', 'loki/batch')):
        for n in ast.walk(mod.tree):
            tgt = None
            if isinstance(n, ast.Assign):
                tgt = [t for t in n.targets if isinstance(t, ast.Subscript)]
            elif isinstance(n, ast.AugAssign) and isinstance(n.target, ast.Subscript):
                tgt = [n.target]
            for t in tgt or []:
                if isinstance(t.slice, ast.Constant) and t.slice.value == 'additional_dependencies' and 'plan_data' in ast.unparse(t.value):
                    n5 += 1
                    inst = f'{mod.relpath}:{ast.unparse(t.value)}'
                    fn_ = next((f_.name for f_ in ast.walk(mod.tree) if isinstance(f_, ast.FunctionDef) and f_.lineno <= n.lineno <= (f_.end_lineno or 0)
                                and not any(isinstance(g_, ast.FunctionDef) and g_ is not f_ and g_.lineno <= n.lineno <= (g_.end_lineno or 0)
                                            and g_.lineno > f_.lineno for g_ in ast.walk(f_))), '?')
                    if isinstance(n, ast.AugAssign) and isinstance(n.op, ast.Add):
                        ctx.judge('R5', f'{fn_}:{ast.unparse(t)} +=')
                    else:
                        ctx.violation('R5', f'{fn_}:additional_dependencies:overwritten', f'{mod.relpath}:{n.lineno}',
                                      f'`{ast.unparse(n)[:90]}` replaces the planned dependencies of the item instead of extending them: what an '
                                      f'earlier transformation of the pipeline registered is erased and the plan no longer lists the files '
                                      f'generated for it')
    ctx.floor('R5', "stores to plan_data['additional_dependencies']", n5, 4)
    it_ = m.get_class('loki/batch/item.py', 'Item')
    cdi = it_.function('create_dependency_items')
    reads = [n.lineno for n in ast.walk(cdi.node) if isinstance(n, ast.Call) and 'additional_dependencies' in ast.unparse(n)
             and 'plan_data' in ast.unparse(n)]
    filt = [n.lineno for n in ast.walk(cdi.node) if isinstance(n, ast.GeneratorExp) and 'self.disable' in ast.unparse(n)]
    if not reads or not filt:
        raise AnalysisError('Item.create_dependency_items: planned-dependency read / disable filter not found')
    (ctx.judge('R6', 'planned dependencies pass the disable filter', facts={'read_line': reads, 'filter_line': filt}) if max(reads) < min(filt) else
     ctx.violation('R6', 'Item.create_dependency_items:plan-bypasses-disable', f'{cdi.module.relpath}:{max(reads)}',
                   'the planned additional dependencies are added to the item list after the `disable` filter: the plan keeps a '
                   'routine that the real run (where the inlined calls are in the caller and are filtered) drops'))


MUTANTS = [
    Mutant('planned-dependencies-overwritten', 'loki/transformations/dependency.py',
           "        item.plan_data.setdefault('additional_dependencies', ())\n        item.plan_data['additional_dependencies'] += self._create_duplicate_items(",
           "        item.plan_data['additional_dependencies'] = self._create_duplicate_items(", expect=('R5', 'overwritten')),
    Mutant('plan-ignores-output-dir', FW,
           "        build_args = kwargs.get('build_args', {})\n        sourcepath = self._get_file_path(item, build_args)\n        item.trafo_data",
           "        build_args = {}\n        sourcepath = self._get_file_path(item, build_args)\n        item.trafo_data",
           expect=('R1', 'plan-vs-transform'), quick=True),
    Mutant('plan-key-renamed', FW, "item.trafo_data['FileWriteTransformation'] = {'path': sourcepath}",
           "item.trafo_data['FileWrite'] = {'path': sourcepath}", expect=('R2', 'key-agreement')),
    Mutant('remove-even-if-replicated', PL, "            if item.replicate:\n                orig_sourcepath = item.orig_path",
           "            if item.replicate and not source_exists:\n                orig_sourcepath = item.orig_path", expect=('R3', 'lists')),
    Mutant('write-elsewhere', FW, "        sourcefile.write(path=sourcepath, cuf=self.cuf, style=self.style)",
           "        sourcefile.write(path=sourcepath.with_suffix('.F90'), cuf=self.cuf, style=self.style)", expect=('R1', 'write-path')),
]
