"""
C04  Generated Fortran respects free-form line limits without altering tokens.

Clause decided: every statement line the Fortran backend emits is produced by
the wrapping primitive, and nothing lengthens a line after wrapping.
 R1  emission discipline: in every ``visit_<node class / program unit>`` and
     ``_construct_*`` method of ``FortranCodegen`` each returned value is the
     result of ``self.format_line`` / ``self.join_lines`` / a recursive visit /
     ``apply_label``, a name bound only to such values, or one of the verbatim
     kinds the property exempts (raw source text, original source string).
     A returned f-string / concatenation is raw text that bypasses the wrapper.
 R2  no post-wrap growth: a function that receives an already formatted line and
     returns it with text inserted (``apply_label``) must re-wrap or bound the
     inserted text by the space it replaces.
 R3  the quoted-string chunker is escape-aware: the pattern that keeps string
     literals in one piece must treat a doubled quote as part of the literal
     (regex AST: the lazy-dot idiom ``'.*?'`` splits ``'it''s'`` into two chunks
     between which a continuation may be inserted).
 R4  the wrapping primitive is wired to the style's line width; only comments,
     pragmas and preprocessor lines use ``no_wrap``.
 R5  comment text never enters the wrapper as an item: a value derived from a
     node's in-line ``comment`` reaches ``format_line`` only through the
     ``comment=`` keyword (items are split at blanks and continued with ``&``,
     which turns the tail of a long comment into code tokens).
 R6  every fit test reserves room for the continuation marker: in
     ``JoinableStringList._add_item_to_line`` each comparison with ``self.width``
     has, on the other side, ``len(<text>) + len(self.cont[0])`` as a linear form,
     for every alternative of a conditional expression -- a line may always have
     to be continued after the item just added (an inner list is followed by
     ``)``, `` :: ``, ...), so an item admitted without that reserve produces a
     line of width + 2 once `` &`` is appended.
Not decided: the arithmetic of JoinableStringList itself.
"""
import ast
import re._parser as sre_parse      # pylint: disable=import-error,no-name-in-module

from sa import dispatch as D, exprs as X
from sa.model import AnalysisError, NOFOLD
from sa.mutate import Mutant

PROP = 'C04'

META = dict(
    technique='return-value provenance analysis of all FortranCodegen emit methods (wrapped vs raw text), taint from formatted '
              'lines into string-building expressions, regex-AST check of the literal chunker, wiring check of width/no_wrap',
    level='Decides the structural discipline behind the line limit: all statement text leaves the backend through the wrapping '
          'primitive, nothing is appended to a line after wrapping, string literals are chunked atomically incl. doubled quotes, '
          'the width comes from the style. Does NOT decide the wrapping arithmetic itself.',
    note='Methods that only build fragments (types, attribute lists, expressions) are outside the domain.',
    ref='DESIGN.md section 3, C04',
)

FG = 'loki/backend/fgen.py'
PP = 'loki/backend/pprint.py'
ST = 'loki/tools/strings.py'
WRAPPERS = {'format_line', 'join_lines', 'visit', 'apply_label', 'format_node', 'visit_all'}
VERBATIM = {'o.text', 'o.source.string'}
NOWRAP_OK = {'visit_Comment', 'visit_Pragma', 'visit_PreprocessorDirective', 'visit_CommentBlock', 'visit_RawSource', 'visit_Import'}


def _wrapped(expr, fn, depth=0):
    """(ok, reason) -- is this expression a wrapped line (or a join of wrapped lines)?"""
    if expr is None or (isinstance(expr, ast.Constant) and expr.value in (None, '')):
        return True, ''
    if isinstance(expr, ast.Call):
        d = X.dotted_attr(expr.func) or ''
        name = d.split('.')[-1]
        if d.startswith('self.') and (name in WRAPPERS or name.startswith(('visit_', '_construct_'))):
            return True, ''
        if d.startswith('super().') and name.startswith('visit_'):
            return True, ''
        if name == 'str' and expr.args and isinstance(expr.args[0], ast.Call) and X.call_name_of(expr.args[0]) == 'JoinableStringList' \
                and any(k.arg == 'width' and ast.unparse(k.value) == 'self.style.linewidth' for k in expr.args[0].keywords):
            return True, ''
        if name in ('lstrip', 'rstrip', 'strip') and isinstance(expr.func, ast.Attribute):
            return _wrapped(expr.func.value, fn, depth)
        return False, f'call {d or ast.unparse(expr.func)}(...)'
    if isinstance(expr, ast.Attribute) and ast.unparse(expr) in VERBATIM:
        return True, ''
    if isinstance(expr, ast.IfExp):
        a, ra = _wrapped(expr.body, fn, depth)
        b, rb = _wrapped(expr.orelse, fn, depth)
        return a and b, ra or rb
    if isinstance(expr, ast.BinOp) and isinstance(expr.op, ast.Add):
        # joining wrapped lines with newlines keeps each line as wrapped
        parts = []

        def flat(e):
            if isinstance(e, ast.BinOp) and isinstance(e.op, ast.Add):
                flat(e.left)
                flat(e.right)
            else:
                parts.append(e)
        flat(expr)
        for p in parts:
            if isinstance(p, ast.Constant) and isinstance(p.value, str) and p.value.strip('\n') == '':
                continue
            ok, r = _wrapped(p, fn, depth)
            if not ok:
                return False, r
        return True, ''
    if isinstance(expr, ast.Name) and depth < 4:
        vals = []
        for n in ast.walk(fn):
            if isinstance(n, ast.Assign) and any(isinstance(t, ast.Name) and t.id == expr.id for t in n.targets):
                vals.append(n.value)
            elif isinstance(n, ast.AugAssign) and isinstance(n.target, ast.Name) and n.target.id == expr.id:
                vals.append(n.value)
        if not vals:
            return False, f'name {expr.id} of unknown origin'
        for v in vals:
            ok, r = _wrapped(v, fn, depth + 1)
            if not ok:
                return False, f'{expr.id} = {ast.unparse(v)[:60]} ({r})'
        return True, ''
    if isinstance(expr, ast.JoinedStr):
        if expr.values and isinstance(expr.values[0], ast.Constant) and str(expr.values[0].value).startswith('#include'):
            return True, ''        # C-preprocessor line: not a Fortran statement, cannot carry a continuation
        return False, 'f-string built outside format_line'
    return False, f'{type(expr).__name__} {ast.unparse(expr)[:50]}'


def run(ctx):
    m = ctx.model
    ctx.rule('R1', 'every return of FortranCodegen.visit_<node/unit> and _construct_* is format_line/join_lines/visit/apply_label output, '
                   'a join of such lines, or exempt verbatim text')
    ctx.rule('R2', 'apply_label (takes a formatted line, returns a modified one) does not insert text longer than what it removes '
                   'without re-wrapping')
    ctx.rule('R3', '_pattern_quoted_string handles doubled quotes (no lazy-dot between the delimiters)')
    ctx.rule('R4', 'join_items passes width=self.style.linewidth; no_wrap=True only in comment/pragma/preprocessor handlers')
    G = m.get_class(FG, 'FortranCodegen')
    names = {c.name for c in D.ir_node_classes(m)} | {'Subroutine', 'Function', 'Module', 'Sourcefile'}
    nmeth = 0
    for mem in G.members.values():
        if mem.kind != 'func':
            continue
        nm = mem.name
        if not ((nm.startswith('visit_') and nm[6:] in names) or (nm.startswith('_construct_') and nm.endswith(('header', 'footer')))):
            continue
        nmeth += 1
        fn = mem.node
        bad = []
        for r in (n for n in ast.walk(fn) if isinstance(n, ast.Return)):
            ok, why = _wrapped(r.value, fn)
            if not ok:
                bad.append((r, why))
        inst = f'FortranCodegen.{nm}'
        if bad:
            r, why = bad[0]
            ctx.violation('R1', f'{inst}:raw-return', f'{G.module.relpath}:{r.lineno}',
                          f'{inst} returns `{ast.unparse(r.value)[:70]}` ({why}): text assembled after/around the wrapping '
                          f'primitive can exceed the line width without a continuation', facts={'returns': len(bad)})
        else:
            ctx.judge('R1', inst)
    ctx.floor('R1', 'FortranCodegen emit methods', nmeth, 40)
    # ---- R2
    al = G.function('apply_label')
    if al is None:
        raise AnalysisError('FortranCodegen.apply_label vanished')
    par = [a.arg for a in al.node.args.args][1]
    grows = [n for n in ast.walk(al.node) if isinstance(n, ast.Assign) and isinstance(n.value, ast.JoinedStr)
             and par in {x.id for x in ast.walk(n.value) if isinstance(x, ast.Name)}]
    rewraps = any(isinstance(n, ast.Call) and X.dotted_attr(n.func) == 'self.format_line' for n in ast.walk(al.node))
    bounded = 'len(label)' in ast.unparse(al.node) or 'min(' in ast.unparse(al.node)
    if grows and not rewraps and not bounded:
        ctx.violation('R2', 'FortranCodegen.apply_label:post-wrap-growth', al.where,
                      f'apply_label rebuilds an already wrapped line as `{ast.unparse(grows[0].value)}`: a label longer than the '
                      f'indentation it replaces lengthens the first line after wrapping (no re-wrap, no bound on the label width)')
    else:
        ctx.judge('R2', 'apply_label')
    # ---- R3
    J = m.get_class(ST, 'JoinableStringList')
    v, owner = m.class_attr(J, '_pattern_quoted_string')
    if v is None or not isinstance(v, ast.Call):
        raise AnalysisError('_pattern_quoted_string not found')
    pat = m.const(owner.module, v.args[0], owner)
    if pat is NOFOLD:
        raise AnalysisError('cannot fold _pattern_quoted_string')
    parsed = sre_parse.parse(pat)
    lazy = []

    def scan(items):
        items = list(items)
        for i, (op, arg) in enumerate(items):
            nm = str(op)
            if nm in ('MIN_REPEAT', 'MAX_REPEAT'):
                sub = list(arg[2])
                if len(sub) == 1 and str(sub[0][0]) == 'ANY' and i > 0 and i + 1 < len(items) \
                        and str(items[i - 1][0]) == 'LITERAL' and str(items[i + 1][0]) == 'LITERAL' and items[i - 1][1] == items[i + 1][1]:
                    lazy.append(chr(items[i - 1][1]))
                scan(sub)
            elif nm == 'SUBPATTERN':
                scan(arg[3])
            elif nm == 'BRANCH':
                for b in arg[1]:
                    scan(b)
    scan(parsed)
    if lazy:
        ctx.violation('R3', 'JoinableStringList._pattern_quoted_string', f'{J.module.relpath}:{v.lineno}',
                      f'pattern {pat!r} matches a literal as <quote> any-chars <quote> for {lazy}: a doubled quote inside a literal '
                      f'(\'it\'\'s\') ends the match early, the literal is cut into two chunks and a line continuation can be '
                      f'inserted between them', facts={'pattern': pat})
    else:
        ctx.judge('R3', '_pattern_quoted_string', facts={'pattern': pat})
    # ---- R4
    S = m.get_class(PP, 'Stringifier')
    ji = S.function('join_items')
    call = [c for c in ast.walk(ji.node) if isinstance(c, ast.Call) and X.call_name_of(c) == 'JoinableStringList']
    kw = {k.arg: ast.unparse(k.value) for k in call[0].keywords} if call else {}
    (ctx.judge('R4', 'join_items width', facts=kw) if kw.get('width') == 'self.style.linewidth' and 'cont' in kw else
     ctx.violation('R4', 'Stringifier.join_items:width', ji.where, f'JoinableStringList is built with {kw}'))
    fl = S.function('format_line')
    src = ast.unparse(fl.node)
    ctx.wired('R4', 'Stringifier.format_line', fl.where, src, ["line = str(self.join_items(items, sep=''))", 'if no_wrap:'],
              'format_line does not route its items through join_items')
    for mem in G.members.values():
        if mem.kind != 'func':
            continue
        for c in ast.walk(mem.node):
            if isinstance(c, ast.Call) and any(k.arg == 'no_wrap' and ast.unparse(k.value) == 'True' for k in c.keywords):
                inst = f'no_wrap in {mem.name}'
                (ctx.judge('R4', inst) if mem.name in NOWRAP_OK else
                 ctx.violation('R4', f'FortranCodegen.{mem.name}:no_wrap', f'{G.module.relpath}:{c.lineno}',
                               f'{mem.name} emits a statement line with no_wrap=True (only comments, pragmas and preprocessor lines may)'))
    # ---- R5
    ctx.rule('R5', 'values derived from `o.comment` are passed to format_line only as comment=..., never as a positional item')
    n5 = 0
    for mem in G.members.values():
        if mem.kind != 'func':
            continue
        tainted = set()
        for n in ast.walk(mem.node):
            if isinstance(n, ast.Assign) and len(n.targets) == 1 and isinstance(n.targets[0], ast.Name) \
                    and any(isinstance(a, ast.Attribute) and a.attr == 'comment' for a in ast.walk(n.value)):
                tainted.add(n.targets[0].id)
        if not tainted:
            continue
        for c in ast.walk(mem.node):
            if isinstance(c, ast.Call) and (X.dotted_attr(c.func) or '') == 'self.format_line':
                n5 += 1
                pos = [ast.unparse(a) for a in c.args if any(isinstance(x, ast.Name) and x.id in tainted for x in ast.walk(a))
                       or any(isinstance(x, ast.Attribute) and x.attr == 'comment' for x in ast.walk(a))]
                inst = f'FortranCodegen.{mem.name}:format_line'
                if pos:
                    ctx.violation('R5', f'FortranCodegen.{mem.name}:comment-as-item', f'{G.module.relpath}:{c.lineno}',
                                  f'{mem.name} passes the in-line comment `{pos[0]}` to format_line as a positional item: it is wrapped like '
                                  f'code, so a long comment is continued with `&` and its tail is read as statement text',
                                  facts={'call': ast.unparse(c)[:120]}, instance=inst)
                else:
                    ctx.judge('R5', inst, facts={'comment_names': sorted(tainted)})
    ctx.floor('R5', 'format_line calls in handlers that render an in-line comment', n5, 3)
    style = m.get_class('loki/backend/style.py', 'FortranStyle')
    lw, o2 = m.class_attr(style, 'linewidth')
    val = m.const(o2.module, lw, o2) if lw is not None else None
    (ctx.judge('R4', 'FortranStyle.linewidth', facts={'value': val}) if val == 132 else
     ctx.violation('R4', 'FortranStyle.linewidth', style.where, f'default Fortran line width is {val}, free-form limit is 132'))

    run_r6(ctx)


def run_r6(ctx):
    import copy
    import itertools
    from sa.linform import lin_py, NotLinear
    m = ctx.model
    ctx.rule('R6', 'JoinableStringList._add_item_to_line: every comparison with self.width reserves len(self.cont[0]) on the other side '
                   '(all alternatives of conditional expressions)')
    J = m.get_class('loki/tools/strings.py', 'JoinableStringList')
    f = J.function('_add_item_to_line')
    if f is None:
        raise AnalysisError('JoinableStringList._add_item_to_line vanished')
    RES = 'len(self.cont[0])'

    def alternatives(e):
        ifs = [n for n in ast.walk(e) if isinstance(n, ast.IfExp)]
        if not ifs:
            return [e]
        out = []
        for choice in itertools.product((0, 1), repeat=len(ifs)):
            e2 = copy.deepcopy(e)
            k = [0]

            class S(ast.NodeTransformer):
                def visit_IfExp(self, n):
                    c = choice[k[0]]; k[0] += 1
                    n = self.generic_visit(n)
                    return n.body if c == 0 else n.orelse
            out.append(S().visit(e2))
        return out
    n = 0
    for c in ast.walk(f.node):
        if isinstance(c, ast.Compare) and len(c.ops) == 1 and isinstance(c.ops[0], (ast.LtE, ast.Lt, ast.Gt, ast.GtE)):
            sides = [c.left, c.comparators[0]]
            if not any(ast.unparse(x) == 'self.width' for x in sides):
                continue
            other = sides[1] if ast.unparse(sides[0]) == 'self.width' else sides[0]
            n += 1
            inst = f'_add_item_to_line:{ast.unparse(c)}'
            bad = None
            for alt in alternatives(other):
                try:
                    lf = lin_py(alt)
                except NotLinear as u:
                    raise AnalysisError(f'_add_item_to_line: `{u}` in a width comparison is outside the linear fragment')
                if lf.get(RES, 0) < 1:
                    bad = ast.unparse(alt)
            if bad is None:
                ctx.judge('R6', inst)
            else:
                ctx.violation('R6', '_add_item_to_line:no-room-for-continuation', f'{f.module.relpath}:{c.lineno}',
                              f'`{ast.unparse(c)}` can compare `{bad}` with the width, i.e. without the {RES} columns of the continuation '
                              f'marker: an item that fills the line is admitted, and when the statement continues (`)`, ` :: ` after an inner '
                              f'list) ` &` is appended to a full line -- 133 or 134 columns', instance=inst)
    ctx.floor('R6', 'width comparisons', n, 4)


MUTANTS = [
    Mutant('last-item-without-reserve', 'loki/tools/strings.py', "        if len(new_line) + len(self.cont[0]) <= self.width:\n            return new_line, []",
           "        if len(new_line) + (0 if item is self.items[-1] else len(self.cont[0])) <= self.width:\n            return new_line, []",
           expect=('R6', 'no-room-for-continuation')),
    Mutant('neutral-reserve-reordered', 'loki/tools/strings.py', "        if len(new_line) + len(self.cont[0]) <= self.width:\n            return new_line, []",
           "        if len(self.cont[0]) + len(new_line) <= self.width:\n            return new_line, []", expect=None),
    Mutant('assignment-comment-positional', FG, "        return self.format_line(lhs, ' = ', rhs, comment=comment)", "        return self.format_line(lhs, ' = ', rhs, comment)",
           expect=('R5', 'visit_Assignment:comment-as-item')),
    Mutant('assignment-raw-fstring', FG, "        return self.format_line(lhs, ' = ', rhs, comment=comment)", "        return f'{self.indent}{lhs} = {rhs}'",
           expect=('R1', 'visit_Assignment'), quick=True),
    Mutant('statement-no-wrap', FG, "        return self.format_line(keyword, str(text).lstrip())", "        return self.format_line(keyword, str(text).lstrip(), no_wrap=True)",
           expect=('R4', 'visit_GenericStmt:no_wrap')),
    Mutant('width-constant', PP, "            items, sep=sep, width=self.style.linewidth,", "            items, sep=sep, width=200,", expect=('R4', 'join_items:width')),
    Mutant('quoted-pattern-lazy-dot', ST, "    _pattern_quoted_string = re.compile(r'(?:\\'(?:[^\\']|\\'\\')*\\')|(?:\"(?:[^\"]|\"\")*\")')",
           "    _pattern_quoted_string = re.compile(r'(?:\\'.*?\\')|(?:\".*?\")')", expect=('R3', '_pattern_quoted_string')),
]
