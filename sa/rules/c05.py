"""
C05  Frontend input sanitisation leaves untargeted text untouched.

For each rule of ``sanitize_registry[FP]`` that the property names
(preprocessor-macro tokens, IBM directives, CONVERT= / NEWUNIT= in OPEN):
 R1  context awareness: the rule is applied line by line with ``re.sub`` /
     ``str.replace`` on the raw text, so it can only be confined to the targeted
     construct if every alternative of its pattern is anchored at the start of
     the line up to the targeted keyword (regex AST, ``re._parser``).  An
     unanchored alternative or a plain string match also fires inside a string
     literal or after ``!``.
 R2  restore pairing: a rule whose replacement alters the matched text has a
     ``postprocess`` callback that re-inserts the stored match; the callback
     re-assembles the text from *all* named groups it stored.
 R3  the rule application loop feeds every line exactly once and keeps the
     per-line record (``pp_info``) that postprocessing relies on.
 R4  the record handed out is owned by the caller: ``sanitize_input`` returns the
     rules' own ``info`` objects and the rules are module-level singletons, so
     ``PPRule.reset`` must *rebind* ``self._info`` to a fresh container; an
     in-place ``clear()`` (or any other mutation outside ``filter``) empties /
     refills the ``pp_info`` of a source sanitised earlier and its stripped text
     is re-inserted into the wrong statements or not at all.
 R5  the alternative that *protects* preprocessor directives from the string-macro
     rule (the ``pp`` group of ``STRING_PP_DIRECTIVES``, returned unchanged by the
     replacement) admits leading blanks: ``^`` is followed by an optional
     whitespace repeat before ``#`` -- cpp and fparser accept indented
     directives, and a directive that is not recognised is rewritten like a
     Fortran line.
 R6  the re-insertion callbacks locate the continuation lines independently of
     the removed text: an index into ``source.string`` is never derived from the
     length of the *restored* text (which contains the group the sanitiser
     removed, so it is longer than the first line of a sanitised source).
 R7  the test whether the re-assembled first line is continued (``.endswith('&')``)
     is made on stripped text, or on a regex group that cannot end in blanks
     (regex AST): blanks after the ampersand must not lose the continuation lines.
Not decided: correctness of the text surgery inside the re-insertion callbacks.
"""
import ast
import re
import re._parser as sre_parse      # pylint: disable=import-error,no-name-in-module

from sa import exprs as X
from sa.model import AnalysisError, NOFOLD
from sa.mutate import Mutant

PROP = 'C05'

META = dict(
    technique='regex-AST analysis (re._parser) of the sanitising patterns: per-alternative line anchoring; rule-table analysis of '
              'replacement vs postprocess pairing; named-group coverage of the re-insertion callbacks',
    level='Decides for each targeted sanitising rule whether its pattern can match outside the construct it targets (unanchored '
          'alternative / plain substring) and whether whatever it removes has a re-insertion step that uses every stored group. '
          'Does NOT decide the text surgery of the callbacks.',
    note='Patterns are obtained by constant folding of the registry literal; re._parser is CPython\'s own regex parser.',
    ref='DESIGN.md section 3, C05',
)

FILE = 'loki/frontend/preprocessing.py'
TARGETED = ['IBM_DIRECTIVES', 'STRING_PP_DIRECTIVES', 'INTEGER_PP_DIRECTIVES', 'CONVERT_ENDIAN', 'OPEN_NEWUNIT']


def _registry(m, mod):
    reg = mod.assigns.get('sanitize_registry')
    if not isinstance(reg, ast.Dict):
        raise AnalysisError('sanitize_registry literal not found')
    for k, v in zip(reg.keys, reg.values):
        if ast.unparse(k) == 'FP':
            if not isinstance(v, ast.Dict):
                raise AnalysisError('sanitize_registry[FP] is not a dict literal')
            out = {}
            for kk, vv in zip(v.keys, v.values):
                name = m.const(mod, kk)
                if not (isinstance(vv, ast.Call) and X.call_name_of(vv) == 'PPRule'):
                    raise AnalysisError(f'rule {name}: not a PPRule(...) literal')
                kw = {k2.arg: k2.value for k2 in vv.keywords}
                out[name] = (vv, kw)
            return out
    raise AnalysisError('sanitize_registry[FP] not found')


def _pattern(m, mod, node):
    """('regex', pattern, flags) | ('str', text)"""
    if isinstance(node, ast.Call) and (X.dotted_attr(node.func) or '') == 're.compile':
        pat = m.const(mod, node.args[0])
        if pat is NOFOLD:
            raise AnalysisError(f'cannot fold pattern {ast.unparse(node.args[0])[:60]}')
        flags = 0
        if len(node.args) > 1:
            ftxt = ast.unparse(node.args[1])
            if 're.I' in ftxt or 'IGNORECASE' in ftxt:
                flags |= re.I
            if 're.M' in ftxt or 'MULTILINE' in ftxt:
                flags |= re.M
        return 'regex', pat, flags
    val = m.const(mod, node)
    if isinstance(val, str):
        return 'str', val, 0
    raise AnalysisError(f'unrecognised match argument {ast.unparse(node)[:60]}')


def _alternatives(parsed):
    """top-level alternatives of a parsed pattern as lists of (op, arg)"""
    items = list(parsed)
    # unwrap a single outer group
    while len(items) == 1 and str(items[0][0]) == 'SUBPATTERN':
        items = list(items[0][1][3])
    if len(items) == 1 and str(items[0][0]) == 'BRANCH':
        return [list(b) for b in items[0][1][1]]
    return [items]


def _anchored(alt):
    """alternative starts with '^' (possibly inside leading groups)"""
    items = list(alt)
    while items:
        op, arg = items[0]
        name = str(op)
        if name == 'AT' and str(arg) in ('AT_BEGINNING', 'AT_BEGINNING_STRING'):
            return True
        if name == 'SUBPATTERN':
            items = list(arg[3]) + items[1:]
            continue
        return False
    return False


def _can_end_blank(items):
    """can the text matched by this sequence of regex items end in a blank?  (line-end anchors are skipped)"""
    items = list(items)
    while items and str(items[-1][0]) == 'AT':
        items.pop()
    if not items:
        return False
    op, arg = items[-1]
    op = str(op)
    if op in ('MAX_REPEAT', 'MIN_REPEAT', 'POSSESSIVE_REPEAT'):
        lo, _hi, sub = arg
        return _can_end_blank(sub) or (lo == 0 and _can_end_blank(items[:-1]))
    if op == 'SUBPATTERN':
        return _can_end_blank(arg[3]) or (not list(arg[3]) and _can_end_blank(items[:-1]))
    if op == 'BRANCH':
        return any(_can_end_blank(alt) for alt in arg[1])
    if op == 'ANY':
        return True
    if op == 'LITERAL':
        return chr(arg) in ' \t'
    if op == 'NOT_LITERAL':
        return chr(arg) not in ' \t' or True
    if op == 'IN':
        neg = any(str(o) == 'NEGATE' for o, _ in arg)
        hit = False
        for o, v in arg:
            o = str(o)
            if o == 'LITERAL' and chr(v) in ' \t':
                hit = True
            elif o == 'RANGE' and v[0] <= ord(' ') <= v[1]:
                hit = True
            elif o == 'CATEGORY' and str(v) in ('CATEGORY_SPACE',):
                hit = True
            elif o == 'CATEGORY' and str(v) in ('CATEGORY_NOT_WORD', 'CATEGORY_NOT_DIGIT'):
                hit = True
        return hit != neg
    if op in ('ASSERT', 'ASSERT_NOT', 'GROUPREF'):
        raise AnalysisError(f'regex item {op} at the end of a group: cannot decide whether the group may end in a blank')
    raise AnalysisError(f'regex item {op}: cannot decide whether the group may end in a blank')


def continued_line_tests(ctx, rid, m, mod, reg):
    """In a reinsert_* callback the first line of the statement is re-assembled from the match groups and the continuation
    lines are appended when that line ends in `&`.  A group that can end in blanks must be stripped before the test --
    otherwise `... , &   ` (blanks after the ampersand) is taken as not continued and the node keeps a multi-line span with
    one line of text."""
    n = 0
    by_cb = {}
    for name, (call, kw) in reg.items():
        cb = kw.get('postprocess')
        if isinstance(cb, ast.Name):
            by_cb.setdefault(cb.id, []).append((name, call, kw))
    for fname, f in mod.functions.items():
        if not fname.startswith('reinsert_'):
            continue
        for c in ast.walk(f.node):
            if not (isinstance(c, ast.Call) and isinstance(c.func, ast.Attribute) and c.func.attr == 'endswith' and c.args
                    and isinstance(c.args[0], ast.Constant) and c.args[0].value == '&'):
                continue
            n += 1
            recv = c.func.value
            inst = f'{fname}:{ast.unparse(c)[:60]}'
            where = f'{mod.relpath}:{c.lineno}'
            if isinstance(recv, ast.Call) and isinstance(recv.func, ast.Attribute) and recv.func.attr in ('rstrip', 'strip') and not recv.args:
                ctx.judge(rid, inst, facts={'stripped': True})
                continue
            if not (isinstance(recv, ast.Subscript) and isinstance(recv.slice, ast.Constant) and isinstance(recv.slice.value, str)):
                raise AnalysisError(f'{fname} ({where}): receiver of .endswith("&") is neither stripped nor a match group')
            g = recv.slice.value
            rules = by_cb.get(fname)
            if not rules:
                raise AnalysisError(f'{fname}: no sanitising rule names it as postprocess callback')
            for name, call, kw in rules:
                kind, pat, flags = _pattern(m, mod, kw.get('match') or call.args[0])
                if kind != 'regex':
                    raise AnalysisError(f'rule {name}: not a regular expression')
                parsed = sre_parse.parse(pat, flags)
                gid = parsed.state.groupdict.get(g)
                sub = None
                stack = [parsed]
                while stack:
                    seq = stack.pop()
                    for op, arg in seq:
                        o = str(op)
                        if o == 'SUBPATTERN':
                            if arg[0] == gid:
                                sub = arg[3]
                            stack.append(arg[3])
                        elif o in ('MAX_REPEAT', 'MIN_REPEAT'):
                            stack.append(arg[2])
                        elif o == 'BRANCH':
                            stack.extend(arg[1])
                if gid is None or sub is None:
                    raise AnalysisError(f'rule {name}: group {g} not found in the pattern')
                if _can_end_blank(sub):
                    ctx.violation(rid, f'{fname}:continuation-test-sees-blanks', where,
                                  f"`{ast.unparse(c)}` tests the raw group `{g}` of rule {name}, which can end in blanks: for `..., &   ` "
                                  f'(blanks after the ampersand) the continuation lines are not appended, the statement keeps its multi-line span '
                                  f'but only the text of its first line', instance=inst)
                else:
                    ctx.judge(rid, inst, facts={'group_cannot_end_blank': g})
    ctx.floor(rid, 'continued-line tests in reinsert_* callbacks', n, 2)


def run(ctx):
    m = ctx.model
    mod = m.module_by_path(FILE)
    ctx.rule('R1', 'every alternative of a targeted rule pattern starts with a line anchor (^ ...keyword); plain-string rules and '
                   'unanchored alternatives can fire inside string literals and comments')
    ctx.rule('R2', 'a rule that alters the matched text has a postprocess callback; the callback reads every named group the '
                   'pattern stores')
    ctx.rule('R3', 'sanitize_input applies each rule to every line once, in registry order, and stores rule.info under the rule name')
    reg = _registry(m, mod)
    missing = [t for t in TARGETED if t not in reg]
    if missing:
        raise AnalysisError(f'targeted rules vanished from the registry: {missing}')
    ctx.floor('R1', 'targeted sanitising rules', len(TARGETED), 5)
    for name in TARGETED:
        call, kw = reg[name]
        kind, pat, flags = _pattern(m, mod, kw.get('match') or call.args[0])
        where = f'{mod.relpath}:{call.lineno}'
        # R1
        if kind == 'str':
            ctx.violation('R1', f'{name}:plain-substring', where,
                          f'rule {name} replaces the plain substring {pat!r} anywhere in a line: it also rewrites string literals, '
                          f'comments and identifiers that merely contain it', facts={'match': pat})
            groups = set()
        else:
            parsed = sre_parse.parse(pat, flags)
            alts = _alternatives(parsed)
            groups = set(parsed.state.groupdict)
            for i, alt in enumerate(alts):
                inst = f'{name}:alt{i}'
                txt = pat if len(alts) == 1 else f'alternative #{i} of {pat[:50]}...'
                if _anchored(alt):
                    ctx.judge('R1', inst, facts={'pattern': pat})
                else:
                    ctx.violation('R1', inst, where,
                                  f'rule {name}: {txt} is not anchored at the start of the line, so it matches the token wherever it '
                                  f'occurs -- including inside a quoted string literal or a comment', facts={'pattern': pat})
        # R2
        repl = kw.get('replace') or (call.args[1] if len(call.args) > 1 else None)
        post = kw.get('postprocess')
        rtxt = ast.unparse(repl) if repl is not None else None
        if post is None:
            ctx.violation('R2', f'{name}:no-restore', where,
                          f'rule {name} rewrites the matched text (replace={rtxt}) and has no postprocess step: the original text is '
                          f'never put back', facts={'replace': rtxt})
        else:
            cb = m.resolve(mod, post.id) if isinstance(post, ast.Name) else None
            if cb is None or not hasattr(cb, 'node'):
                raise AnalysisError(f'{name}: postprocess callback not resolved')
            used = {n.slice.value for n in ast.walk(cb.node) if isinstance(n, ast.Subscript) and isinstance(n.slice, ast.Constant)
                    and isinstance(n.slice.value, str)}
            unused = sorted(g for g in groups if g not in used)
            inst = f'{name}:restore-groups'
            if unused:
                ctx.violation('R2', inst, cb.where, f'{cb.name} re-assembles the statement without the stored group(s) {unused}: '
                              f'that part of the original text is lost', facts={'groups': sorted(groups), 'used': sorted(used)})
            else:
                ctx.judge('R2', inst, facts={'groups': sorted(groups), 'callback': cb.name})
    # ---- R3
    si = mod.functions.get('sanitize_input')
    if si is None:
        raise AnalysisError('sanitize_input vanished')
    src = ast.unparse(si.node)
    loops = [n for n in ast.walk(si.node) if isinstance(n, ast.For)]
    ok = any('sanitize_registry[frontend].items()' in ast.unparse(l.iter) for l in loops) and \
        any('source.splitlines(keepends=True)' in ast.unparse(l.iter) for l in loops) and \
        True
    (ctx.judge('R3', 'sanitize_input loop') if ok else
     ctx.violation('R3', 'sanitize_input', si.where, 'rule application loop altered (not every line / rule, or info not stored)'))
    ctx.wired('R3', 'sanitize_input:steps', si.where, src, ['new_source += rule.filter(line, lineno=ll)', 'pp_info[name] = rule.info', 'rule.reset()'],
              'rule application loop altered (filter result not accumulated, info not stored, or rule not reset)')
    inner = [l for l in loops if 'splitlines' in ast.unparse(l.iter)]
    if inner and any(isinstance(n, (ast.Break, ast.Continue)) for n in ast.walk(inner[0])):
        ctx.violation('R3', 'sanitize_input:skip', si.where, 'some lines are skipped by the rule application loop')
    flt = m.get_function(FILE, 'PPRule.filter')
    fsrc = ast.unparse(flt.node)
    ctx.wired('R3', 'PPRule.filter', flt.where, fsrc, ['self._info[lineno] += [info.groupdict()]', 'self.match.sub(self.replace, line)'],
              'filter does not record the group dict of every match before substituting')

    # ---- R4
    ctx.rule('R4', 'PPRule: the attribute returned by `info` is rebound to a fresh container in reset() and mutated only by filter()')
    PP = m.get_class(FILE, 'PPRule')
    info = PP.members.get('info')
    rets = [ast.unparse(r.value) for r in ast.walk(info.node) if isinstance(r, ast.Return)] if info is not None else []
    if len(rets) != 1 or not rets[0].startswith('self.'):
        raise AnalysisError(f'PPRule.info returns {rets}: unrecognised')
    attr = rets[0]
    rs = PP.function('reset')
    if rs is None:
        raise AnalysisError('PPRule.reset vanished')
    rebinds = [n for n in ast.walk(rs.node) if isinstance(n, ast.Assign) and ast.unparse(n.targets[0]) == attr and isinstance(n.value, ast.Call)]
    if rebinds:
        ctx.judge('R4', 'PPRule.reset rebinds the record', facts={'attribute': attr, 'value': ast.unparse(rebinds[0].value)})
    else:
        ctx.violation('R4', 'PPRule.reset:rebind', rs.where,
                      f'reset() does not bind a fresh container to `{attr}` (`{ast.unparse(rs.node.body[-1])}`): the pp_info dict returned for an '
                      f'earlier source is the same object and is emptied / refilled by the next sanitize_input call')
    MUT = {'clear', 'pop', 'popitem', 'update', 'setdefault', '__setitem__', '__delitem__'}
    for mem in PP.members.values():
        if mem.kind != 'func' or mem.name in ('filter', '__init__'):
            continue
        for n in ast.walk(mem.node):
            hit = None
            if isinstance(n, ast.Call) and isinstance(n.func, ast.Attribute) and n.func.attr in MUT and ast.unparse(n.func.value) == attr:
                hit = ast.unparse(n)
            elif isinstance(n, (ast.Assign, ast.AugAssign, ast.Delete)):
                tg = n.targets if not isinstance(n, ast.AugAssign) else [n.target]
                if any(isinstance(t, ast.Subscript) and ast.unparse(t.value) == attr for t in tg):
                    hit = ast.unparse(n)
            if hit:
                ctx.violation('R4', f'PPRule.{mem.name}:mutates-shared-record', f'{PP.module.relpath}:{n.lineno}',
                              f'`{hit}` mutates the record object that sanitize_input has already handed out as pp_info of an earlier source')
    si_src = ast.unparse(m.get_function(FILE, 'sanitize_input').node)
    ctx.judge('R4', 'sanitize_input hands out rule.info', nontrivial=X.has(si_src, 'pp_info[name] = rule.info'))

    run_r56(ctx, m, mod, reg)


def run_r56(ctx, m, mod, reg):
    import re._parser as sre
    ctx.rule('R5', 'STRING_PP_DIRECTIVES: the protecting alternative is ^ <optional blanks> # ...')
    ctx.rule('R6', 'reinsert_* callbacks: no index into source.string is computed from len(<restored text>)')
    call, kw = reg['STRING_PP_DIRECTIVES']
    kind, pat, flags = _pattern(m, mod, kw.get('match') or call.args[0])
    where = f'{mod.relpath}:{call.lineno}'
    if kind != 'regex':
        raise AnalysisError('STRING_PP_DIRECTIVES is no longer a regular expression')
    alts = _alternatives(sre.parse(pat, flags))
    prot = None
    for alt in alts:
        items = list(alt)
        if len(items) == 1 and str(items[0][0]) == 'SUBPATTERN' and items[0][1][0] is not None:
            gname = {v: k for k, v in sre.parse(pat, flags).state.groupdict.items()}.get(items[0][1][0])
            if gname == 'pp':
                prot = list(items[0][1][3])
    if prot is None:
        raise AnalysisError('STRING_PP_DIRECTIVES: the directive-protecting alternative (group pp) was not found')
    ok = len(prot) >= 3 and str(prot[0][0]) == 'AT' and str(prot[1][0]) in ('MAX_REPEAT', 'MIN_REPEAT') and prot[1][1][0] == 0 \
        and prot[1][1][1] is sre.MAXREPEAT and any(str(o) == 'IN' and any(str(c) == 'CATEGORY' and 'SPACE' in str(v) for c, v in a) for o, a in prot[1][1][2]) \
        and str(prot[2][0]) == 'LITERAL' and prot[2][1] == ord('#')
    if ok:
        ctx.judge('R5', 'STRING_PP_DIRECTIVES:pp admits leading blanks', facts={'pattern': pat[:60]})
    else:
        ctx.violation('R5', 'STRING_PP_DIRECTIVES:pp:no-leading-blanks', where,
                      f'the alternative that protects directives ({pat[:50]!r}...) does not start with ^\\\\s*#: an indented directive such as '
                      f'`  #define STAMP __DATE__` is treated as a Fortran line and its macro is enquoted')
    n6 = 0
    for fname, f in mod.functions.items():
        if not fname.startswith('reinsert_'):
            continue
        # names bound to text assembled from match groups
        built = {}
        for a in ast.walk(f.node):
            if isinstance(a, (ast.Assign, ast.AugAssign)):
                t = a.targets[0] if isinstance(a, ast.Assign) else a.target
                if isinstance(t, ast.Name) and any(isinstance(x, ast.Subscript) and isinstance(x.value, ast.Name) and x.value.id == 'match'
                                                   for x in ast.walk(a.value)):
                    built.setdefault(t.id, []).append(a)
        mvar = 'match'
        for sl in ast.walk(f.node):
            if isinstance(sl, ast.Subscript) and ast.unparse(sl.value).endswith('.string') and isinstance(sl.slice, ast.Slice):
                n6 += 1
                bounds = [b for b in (sl.slice.lower, sl.slice.upper) if b is not None]
                names = set()
                for b in bounds:
                    for e in [b] + [a.value for a in ast.walk(f.node) if isinstance(a, ast.Assign) and isinstance(b, ast.Name)
                                    and any(isinstance(t, ast.Name) and t.id == b.id for t in a.targets)]:
                        for c in ast.walk(e):
                            if isinstance(c, ast.Call) and isinstance(c.func, ast.Name) and c.func.id == 'len' and c.args and isinstance(c.args[0], ast.Name):
                                names.add(c.args[0].id)
                bad = sorted(n_ for n_ in names if len(built.get(n_, [])) >= 1 and sum(
                    1 for a in built[n_] for x in ast.walk(a.value) if isinstance(x, ast.Subscript) and isinstance(x.value, ast.Name) and x.value.id == mvar) >= 3)
                inst = f'{fname}:{ast.unparse(sl)[:50]}'
                if bad:
                    ctx.violation('R6', f'{fname}:offset-from-restored-text', f'{mod.relpath}:{sl.lineno}',
                                  f'`{ast.unparse(sl)}` indexes the stored source by the length of `{bad[0]}`, the *restored* text, which contains the '
                                  f'group the sanitiser removed: when the stored source is the sanitised text (ProgramUnit.from_source) the slice '
                                  f'starts inside the continuation lines and chops untargeted arguments', instance=inst)
                else:
                    ctx.judge('R6', inst)
    ctx.floor('R6', 'slices of the stored source in reinsert_* callbacks', n6, 2)
    ctx.rule('R7', 'reinsert_* callbacks: the test for a continued first line strips the group (or the group cannot end in blanks)')
    continued_line_tests(ctx, 'R7', m, mod, reg)


MUTANTS = [
    Mutant('continuation-test-on-raw-group', FILE, "                if match['post'].rstrip().endswith('&'):", "                if match['post'].endswith('&'):",
           expect=('R7', 'continuation-test-sees-blanks')),
    Mutant('protected-directive-column-one', FILE, "r'(?P<pp>^\\s*#.*__(?:FILE|FILENAME|DATE|VERSION)__)|'", "r'(?P<pp>^#.*__(?:FILE|FILENAME|DATE|VERSION)__)|'",
           expect=('R5', 'no-leading-blanks')),
    Mutant('continuation-offset-from-restored-text', FILE,
           "                    cont_line_index = source.string.find(match['post']) + len(match['post'])\n                    text += source.string[cont_line_index:].rstrip()",
           "                    text += source.string[len(text):].rstrip()", expect=('R6', 'offset-from-restored-text')),
    Mutant('reset-clears-in-place', FILE, "    def reset(self):\n        self._info = defaultdict(list)\n", "    def reset(self):\n        self._info.clear()\n",
           expect=('R4', 'PPRule.reset')),
    Mutant('open-rule-unanchored', FILE, "match=re.compile((r'(?P<ws>^\\s*)(?P<pre>OPEN\\s*\\(.*?)'",
           "match=re.compile((r'(?P<ws>\\s*)(?P<pre>OPEN\\s*\\(.*?)'", expect=('R1', 'CONVERT_ENDIAN:alt0'), quick=True),
    Mutant('convert-not-restored', FILE, "replace=r'\\g<ws>\\g<pre>\\g<post>', postprocess=reinsert_convert_endian),",
           "replace=r'\\g<ws>\\g<pre>\\g<post>'),", expect=('R2', 'CONVERT_ENDIAN:no-restore')),
    Mutant('restore-drops-group', FILE, "text = match['ws'] + match['pre'] + match['convert'] + match['post']",
           "text = match['ws'] + match['pre'] + match['post']", expect=('R2', 'CONVERT_ENDIAN:restore-groups')),
    Mutant('filter-skips-info', FILE, "                self._info[lineno] += [info.groupdict()]\n", "                pass\n", expect=('R3', 'PPRule.filter')),
]
