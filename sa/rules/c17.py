"""
C17  Cloning a program unit yields an independent, correctly scoped copy.

 R1  constructor-parameter forwarding: for Subroutine, Function, Module and
     Sourcefile every named parameter of ``__init__`` / ``__initialize__`` along
     the MRO is forwarded by the ``clone`` chain (a ``kwargs['p'] = ...`` /
     ``kwargs.setdefault('p', ...)`` in some ``clone`` on the MRO), except those
     handled by ``Scope.clone`` -- a parameter that is not forwarded silently
     resets that aspect of the clone to its default.
 R2  IR is rebuilt, not shared: every IR-valued constructor argument taken over
     from ``self`` (docstring, spec, body, contains; Sourcefile.ir) passes through
     a rebuilding ``Transformer(...).visit`` / node ``clone`` on every path before
     the clone is returned.
 R3  rescoping and re-parenting: the clone path defaults ``rescope_symbols`` to
     True, clones the symbol table with the new parent, re-parents contained
     units to the clone and registers it in the parent scope.
 R4  rescope after re-parenting: on every path of ``ProgramUnit.clone`` that
     re-parents contained units (``node._reset_parent(obj)`` or clones them with
     ``parent=obj``) a later ``obj.rescope_symbols()`` is executed (its guards
     are implied by those of the re-parenting statement) -- otherwise host
     associated symbols inside the contained procedures keep the scope of the
     original host.
 R5  rebuilt scoped nodes never keep the original parent: ``clone`` rebuilds the
     IR with ``Transformer({}, rebuild_scopes=True)``; in ``visit_ScopedNode``
     the ``parent=`` handed to ``_rebuild`` under ``self.rebuild_scopes`` must not
     be derived from ``o.parent`` (a ``TypeDef`` registers itself in its parent's
     symbol table on construction, so the copy would overwrite the original's
     entries).
Not decided: aliasing through objects reachable from symbol attributes.
"""
import ast

from sa import exprs as X
from sa.model import AnalysisError, ClassInfo
from sa.mutate import Mutant

PROP = 'C17'

META = dict(
    technique='constructor-signature vs clone-forwarding table along the MRO; must-pass-through (rebuild) check for IR-valued '
              'arguments; call-presence/ordering checks for rescoping and re-parenting',
    level='Decides structural necessary conditions of clone independence/equivalence: all constructor parameters are carried '
          'over, every IR component is rebuilt before use, symbols are rescoped and contained units re-parented. Does NOT decide '
          'deep aliasing through symbol attributes.',
    note='Forwarding is recognised as constant-key stores into the kwargs dict of clone methods.',
    ref='DESIGN.md section 3, C17',
)

UNITS = [('loki/subroutine.py', 'Subroutine'), ('loki/function.py', 'Function'), ('loki/module.py', 'Module')]
HANDLED_BY_SCOPE = {'parent': 'Scope.clone forwards the parent', 'symbol_attrs': 'Scope.clone clones the symbol table',
                    'rescope_symbols': 'set by ProgramUnit.clone / Scope.clone'}
IR_KEYS = ('docstring', 'spec', 'contains', 'body')


def _ctor_params(m, cls):
    out = {}
    for c in m.mro(cls):
        if not isinstance(c, ClassInfo):
            continue
        for fn in ('__init__', '__initialize__'):
            f = c.function(fn)
            if f is None:
                continue
            a = f.node.args
            for arg in a.args[1:] + a.kwonlyargs:
                out.setdefault(arg.arg, f'{c.name}.{fn}')
    return out


def _forwarded(m, cls):
    keys = {}
    for c in m.mro(cls):
        if not isinstance(c, ClassInfo):
            continue
        f = c.function('clone')
        if f is None:
            continue
        for n in ast.walk(f.node):
            if isinstance(n, ast.Assign) and isinstance(n.targets[0], ast.Subscript) and ast.unparse(n.targets[0].value) == 'kwargs' \
                    and isinstance(n.targets[0].slice, ast.Constant):
                keys.setdefault(n.targets[0].slice.value, f'{c.name}.clone')
            if isinstance(n, ast.Call) and X.dotted_attr(n.func) == 'kwargs.setdefault' and n.args and isinstance(n.args[0], ast.Constant):
                keys.setdefault(n.args[0].value, f'{c.name}.clone')
    return keys


def run(ctx):
    m = ctx.model
    ctx.rule('R1', 'ctor params (MRO) minus Scope-handled ones are a subset of the kwargs keys set by the clone chain')
    ctx.rule('R2', 'kwargs[K] taken from self.K for K in docstring/spec/contains/body is re-assigned from a Transformer visit; '
                   'Sourcefile.clone clones every node of the carried-over ir')
    ctx.rule('R3', 'rescope_symbols defaults to True; symbol table cloned with the new parent; contained units re-parented; '
                   'register_in_parent_scope called')
    npar = 0
    for rel, cn in UNITS:
        cls = m.get_class(rel, cn)
        params = _ctor_params(m, cls)
        fwd = _forwarded(m, cls)
        alias = {'args': 'args', 'ast': 'ast', 'source': 'source'}
        for p, where in sorted(params.items()):
            npar += 1
            inst = f'{cn}.{p}'
            if p in HANDLED_BY_SCOPE:
                ctx.judge('R1', inst, nontrivial=False, facts={'handled': HANDLED_BY_SCOPE[p]})
            elif p in fwd:
                ctx.judge('R1', inst, facts={'declared_in': where, 'forwarded_by': fwd[p]})
            else:
                ctx.violation('R1', inst, cls.where, f'constructor parameter {p!r} ({where}) is not forwarded by any clone() on the MRO of '
                              f'{cn}: the clone silently falls back to the default for it', facts={'forwarded': sorted(fwd)})
    ctx.floor('R1', 'constructor parameters', npar, 30)
    # Sourcefile
    sf = m.get_class('loki/sourcefile.py', 'Sourcefile')
    params = _ctor_params(m, sf)
    fwd = _forwarded(m, sf)
    for p in sorted(params):
        inst = f'Sourcefile.{p}'
        (ctx.judge('R1', inst, facts={'forwarded_by': fwd.get(p)}) if p in fwd else
         ctx.violation('R1', inst, sf.where, f'Sourcefile constructor parameter {p!r} is not forwarded by Sourcefile.clone'))

    # ---- R2
    for rel, cn, keys in (('loki/program_unit.py', 'ProgramUnit', ('docstring', 'spec', 'contains')), ('loki/subroutine.py', 'Subroutine', ('body',))):
        f = m.get_function(rel, f'{cn}.clone')
        for k in keys:
            taken = [n for n in ast.walk(f.node) if isinstance(n, ast.Assign) and ast.unparse(n.targets[0]) == f"kwargs['{k}']"
                     and ast.unparse(n.value) == f'self.{k}']
            rebuilt = X.nodes_with_guards(f.node, lambda n, k=k: isinstance(n, ast.Assign) and ast.unparse(n.targets[0]) == f"kwargs['{k}']"
                                          and '.visit(' in ast.unparse(n.value) and f"kwargs['{k}']" in ast.unparse(n.value))
            inst = f'{cn}.clone:{k}'
            if not taken:
                raise AnalysisError(f'{cn}.clone: kwargs[{k!r}] = self.{k} not found')
            ok = False
            for asg, guards in rebuilt:
                if asg.lineno > taken[0].lineno and guards in ([f"'{k}' in kwargs"], []):
                    # the visitor must be a rebuilding Transformer
                    recv = ast.unparse(asg.value.func.value)
                    defs = [n for n in ast.walk(f.node) if isinstance(n, ast.Assign) and ast.unparse(n.targets[0]) == recv]
                    txt = ast.unparse(defs[0].value) if defs else recv
                    if 'Transformer(' in txt and 'inplace=True' not in txt:
                        ok = True
            (ctx.judge('R2', inst) if ok else
             ctx.violation('R2', inst, f.where, f'{cn}.clone hands self.{k} to the new unit without rebuilding it through a Transformer on '
                           f'every path: original and clone share IR nodes (modifying one changes the other)'))
    sc = m.get_function('loki/sourcefile.py', 'Sourcefile.clone')
    src = ast.unparse(sc.node)
    objn = (X.names_assigned_from(sc.node, 'type(self)(') or ['obj'])[0]
    comps = [c for c in ast.walk(sc.node) if isinstance(c, (ast.GeneratorExp, ast.ListComp)) and len(c.generators) == 1
             and ast.unparse(c.generators[0].iter) == f'{objn}.ir.body' and isinstance(c.generators[0].target, ast.Name)]
    ok = False
    for c in comps:
        v = c.generators[0].target.id
        if ast.unparse(c.elt) == f'{v}.clone(rescope_symbols=True) if isinstance({v}, ProgramUnit) else {v}.clone()' and not c.generators[0].ifs:
            ok = True
    irb = X.names_assigned_from(sc.node, f'{objn}.ir.body')
    ok = ok and bool(irb) and any(isinstance(n, ast.Assign) and ast.unparse(n.targets[0]) == f'{objn}.ir'
                                  and ast.unparse(n.value) == f'{objn}.ir.clone(body={irb[0]})' for n in ast.walk(sc.node))
    (ctx.judge('R2', 'Sourcefile.clone:ir') if ok else
     ctx.violation('R2', 'Sourcefile.clone:ir', sc.where, 'the carried-over IR of a cloned Sourcefile is not deep-copied node by node'))
    g = X.nodes_with_guards(sc.node, lambda n: isinstance(n, ast.Assign) and ast.unparse(n.targets[0]) == f'{objn}.ir')
    flags = [n.targets[0].id for n in ast.walk(sc.node) if isinstance(n, ast.Assign) and isinstance(n.targets[0], ast.Name)
             and isinstance(n.value, ast.Constant) and isinstance(n.value.value, bool)]
    flag = flags[0] if flags else 'ir_needs_clone'
    ok = g and all(any(flag in x for x in gs) for _, gs in g)
    need = [n for n in ast.walk(sc.node) if isinstance(n, ast.Assign) and ast.unparse(n.targets[0]) == flag]
    vals = sorted(ast.unparse(n.value) for n in need)
    (ctx.judge('R2', 'Sourcefile.clone:ir_needs_clone', facts={'values': vals}) if ok and vals == ['False', 'True'] else
     ctx.violation('R2', 'Sourcefile.clone:ir_needs_clone', sc.where, 'deep copy of the IR is not tied to "IR taken over from self"'))

    # ---- R3
    pc = m.get_function('loki/program_unit.py', 'ProgramUnit.clone')
    src = ast.unparse(pc.node)
    objn = (X.names_assigned_from(pc.node, 'super().clone(') or ['obj'])[0]
    checks = {
        'rescope default': ["kwargs.setdefault('rescope_symbols', True)"],
        'escalates to Scope.clone': ['obj = super().clone(**kwargs)'],
        'contained units cloned with new parent': ["node.clone(parent=obj, rescope_symbols=kwargs['rescope_symbols'])"],
        'contained units re-parented': ['node._reset_parent(obj)'],
        'registered in parent scope': ['obj.register_in_parent_scope()'],
    }
    def stores_key(key):
        def test(tree):
            for n in ast.walk(tree):
                if isinstance(n, ast.Subscript) and isinstance(n.ctx, ast.Store) and isinstance(n.slice, ast.Constant) and n.slice.value == key:
                    return True
                if isinstance(n, ast.Call) and isinstance(n.func, ast.Attribute) and n.func.attr in ('setdefault', 'update') and (
                        any(isinstance(a, ast.Constant) and a.value == key for a in n.args) or any(k_.arg == key for k_ in n.keywords)
                        or any(isinstance(d, ast.Dict) and any(isinstance(kk, ast.Constant) and kk.value == key for kk in d.keys) for d in n.args)):
                    return True
            return False
        return test
    for k, v in checks.items():
        ctx.wired('R3', f'ProgramUnit.clone:{k}', pc.where, src, v, f'clone path lost: {k}',
                  reshaped_if=stores_key('rescope_symbols') if k == 'rescope default' else None)
    (ctx.judge('R3', 'ProgramUnit.clone:returns the clone') if src.rstrip().endswith(f'return {objn}') else
     ctx.violation('R3', 'ProgramUnit.clone:returns the clone', pc.where, 'clone does not return the object built by Scope.clone'))
    scl = m.get_function('loki/types/scope.py', 'Scope.clone')
    src = ast.unparse(scl.node)
    ctx.wired('R3', 'Scope.clone:symbol_attrs', scl.where, src,
              ["kwargs['symbol_attrs'] = self.symbol_attrs.clone(parent=kwargs.get('parent'))", "kwargs['rescope_symbols'] = True"],
              'the symbol table is shared with / not re-parented for the clone')

    # ---- R4
    ctx.rule('R4', 'ProgramUnit.clone: every re-parenting statement is followed by obj.rescope_symbols() under guards it implies')
    objn = (X.names_assigned_from(pc.node, 'super().clone(') or ['obj'])[0]
    rep = X.nodes_with_guards(pc.node, lambda x: isinstance(x, ast.Call) and ((X.dotted_attr(x.func) or '').endswith('._reset_parent')
                                                                               or (isinstance(x.func, ast.Attribute) and x.func.attr == 'clone'
                                                                                   and any(k.arg == 'parent' and ast.unparse(k.value) == objn for k in x.keywords))))
    resc = X.nodes_with_guards(pc.node, lambda x: isinstance(x, ast.Call) and X.dotted_attr(x.func) == f'{objn}.rescope_symbols')
    ctx.floor('R4', 're-parenting statements in ProgramUnit.clone', len(rep), 2)
    for call, guards in rep:
        later = [(c, g) for c, g in resc if c.lineno > call.lineno and all(x in guards for x in g)]
        inst = f'ProgramUnit.clone:{ast.unparse(call)[:50]}'
        if later:
            ctx.judge('R4', inst, facts={'guards': guards, 'rescope_guards': later[0][1]})
        else:
            ctx.violation('R4', inst, f'{pc.module.relpath}:{call.lineno}',
                          f'`{ast.unparse(call)[:70]}` (under {guards}) is not followed by obj.rescope_symbols() on the same path '
                          f'(rescope calls are under {[g for _, g in resc]}): symbols inside the re-parented procedures that refer to host '
                          f'variables keep pointing to the scope of the original unit', facts={'guards': guards})
    # ---- R5
    ctx.rule('R5', 'Transformer.visit_ScopedNode: under self.rebuild_scopes the parent= of the rebuilt node is not derived from o.parent')
    vs = m.get_function('loki/ir/transformer.py', 'Transformer.visit_ScopedNode')
    n5 = 0
    for call, guards in X.nodes_with_guards(vs.node, lambda x: isinstance(x, ast.Call) and X.dotted_attr(x.func) == 'self._rebuild'):
        if 'self.rebuild_scopes' not in guards:
            continue
        n5 += 1
        pk = [k for k in call.keywords if k.arg == 'parent']
        inst = f'Transformer.visit_ScopedNode:{ast.unparse(call)[:60]}'
        if pk and any(isinstance(a, ast.Attribute) and a.attr == 'parent' and ast.unparse(a.value) == 'o' for a in ast.walk(pk[0].value)):
            ctx.violation('R5', 'Transformer.visit_ScopedNode:rebuilt-with-original-parent', f'{vs.module.relpath}:{call.lineno}',
                          f'`{ast.unparse(call)}` may construct the copy with the parent of the original node: constructing a TypeDef '
                          f'registers it in that parent\'s symbol table, so cloning a unit overwrites the original\'s derived-type entries '
                          f'with the clone\'s nodes', instance=inst)
        else:
            ctx.judge('R5', inst, facts={'parent': ast.unparse(pk[0].value) if pk else 'not passed (no parent)'})
    ctx.floor('R5', 'rebuilds under rebuild_scopes', n5, 1)


MUTANTS = [
    Mutant('rescope-only-when-cloned', 'loki/program_unit.py',
           "                obj.contains = obj.contains.clone(body=as_tuple(contains))\n            else:",
           "                obj.contains = obj.contains.clone(body=as_tuple(contains))\n                obj.rescope_symbols()\n            else:",
           expect=('R4', '_reset_parent'), also=[('loki/program_unit.py', "            # Rescope to ensure that symbol references are up to date\n            obj.rescope_symbols()\n\n        obj.register_in_parent_scope()", "        obj.register_in_parent_scope()")]),
    Mutant('rebuilt-scope-keeps-parent', 'loki/ir/transformer.py',
           "            if 'scope' in kwargs:\n                o = self._rebuild(o, o.children, parent=kwargs['scope'])\n            else:\n                o = self._rebuild(o, o.children)\n        elif",
           "            o = self._rebuild(o, o.children, parent=kwargs.get('scope', o.parent))\n        elif", count=2, expect=('R5', 'rebuilt-with-original-parent')),
    Mutant('prefix-not-forwarded', 'loki/subroutine.py', "        if self.prefix and 'prefix' not in kwargs:\n            kwargs['prefix'] = self.prefix\n", "",
           expect=('R1', 'Subroutine.prefix'), quick=True),
    Mutant('spec-shared', 'loki/program_unit.py', "        if 'spec' in kwargs:\n            kwargs['spec'] = rebuild.visit(kwargs['spec'])\n", "",
           expect=('R2', 'ProgramUnit.clone:spec')),
    Mutant('body-rebuilt-inplace', 'loki/subroutine.py', "kwargs['body'] = Transformer({}, rebuild_scopes=True).visit(kwargs['body'])",
           "kwargs['body'] = Transformer({}, inplace=True).visit(kwargs['body'])", expect=('R2', 'Subroutine.clone:body')),
    Mutant('no-rescope-default', 'loki/program_unit.py', "        kwargs.setdefault('rescope_symbols', True)\n", "", expect=('R3', 'rescope default')),
    Mutant('table-shared', 'loki/types/scope.py', "            kwargs['symbol_attrs'] = self.symbol_attrs.clone(parent=kwargs.get('parent'))",
           "            kwargs['symbol_attrs'] = self.symbol_attrs", expect=('R3', 'Scope.clone')),
    Mutant('sourcefile-shallow', 'loki/sourcefile.py', "                else node.clone() for node in obj.ir.body", "                else node for node in obj.ir.body",
           expect=('R2', 'Sourcefile.clone:ir')),
]
