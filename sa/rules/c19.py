"""
C19  Fast regex discovery finds what the full parser finds.

Clause decided (2nd sentence): "the result does not depend on which parser
classes were requested first or how they were combined in incremental re-parses".
 R1  monotone join (exact evaluation over the flag lattice): in
     ``ProgramUnit.make_complete`` the early exit is taken iff the requested
     classes are already contained in the parsed ones, the classes used for a
     REGEX re-parse are ``requested | already_parsed`` and they are what is
     handed to the re-parse (which stores them); ``Sourcefile.make_complete``
     stores the same join.
 R2  registry agreement: every ``RegexParserClass`` flag named by an ``Item``
     subclass (``_parser_class`` / ``_depends_class``) is the ``parser_class`` of
     at least one ``Pattern``; every Pattern class is reachable from a candidate
     list starting at ``parse_regex_source``; candidate names resolve.
 R3  candidate filtering uses the active-class mask (``parser_class &
     parser_classes``) for block and statement candidates alike.
 R6  ``Sourcefile.make_complete`` never skips the parse because of the file-level
     record of requested classes (that record is not a record of what has been
     matched inside the program units).
 R7  the CALL and USE patterns are evaluated against a table of statement spellings
     (``use, intrinsic :: m``, ``use :: m``, ...) that they must match and of
     identifiers starting with the keyword (``call_count = 1``) that they must not.
Not decided: the 1st sentence (regex language vs Fortran grammar).
 R4  re-use of an already created unit is scope-local: ``ModulePattern.match`` and
     ``SubroutineFunctionPattern.match`` retrieve an existing ``Module`` /
     ``Subroutine`` object from the symbol table of the *current* scope only
     (``symbol_attrs[name]`` / ``.get`` / ``lookup(.., recursive=False)``); a
     recursive ``lookup(name)`` finds a homonymous procedure of an enclosing scope
     and re-initialises that object (an internal procedure and a module procedure
     of the same name become one object).
 R5  per-entry state does not leak across the entries of one statement: inside a
     loop over the matched entries, a variable defined before the loop is not
     re-bound to a clone of itself (``type_ = type_.clone(use_name=...)`` makes a
     rename's ``use_name`` stick to every following plain entry).
"""
import ast
import itertools

from sa import exprs as X
from sa.model import AnalysisError, NOFOLD, ClassInfo
from sa.mutate import Mutant

PROP = 'C19'

META = dict(
    technique='exact evaluation of the flag-set expressions (early-exit condition and join) over all pairs of subsets of a '
              '3-flag lattice with a small expression interpreter; registry/table agreement between Item classes, Pattern '
              'classes and candidate lists',
    level='Decides the order-independence clause structurally: incremental REGEX re-parses always use and store the union of '
          'requested and already-parsed classes and skip work only when nothing new is requested; every flag an Item relies on '
          'has a Pattern and every Pattern can be reached. Does NOT decide that the patterns recognise the Fortran grammar.',
    note='The interpreter handles | & == on names only; any other construct in those expressions fails closed.',
    ref='DESIGN.md section 3, C19',
)

PU = 'loki/program_unit.py'
SF = 'loki/sourcefile.py'
RX = 'loki/frontend/regex.py'
IT = 'loki/batch/item.py'


def _ev(node, env):
    if isinstance(node, ast.Name):
        return env[node.id]
    if isinstance(node, ast.Attribute):
        return env[ast.unparse(node)]
    if isinstance(node, ast.BinOp):
        l, r = _ev(node.left, env), _ev(node.right, env)
        if isinstance(node.op, ast.BitOr):
            return l | r
        if isinstance(node.op, ast.BitAnd):
            return l & r
    if isinstance(node, ast.Compare) and len(node.ops) == 1 and isinstance(node.ops[0], ast.Eq):
        return _ev(node.left, env) == _ev(node.comparators[0], env)
    raise AnalysisError(f'flag expression not interpretable: {ast.unparse(node)}')


def run(ctx):
    m = ctx.model
    ctx.rule('R1', 'for all subsets (already, requested): early-exit condition == (requested subset of already); join == '
                   'already | requested; the join is what from_source / _parser_classes receives')
    ctx.rule('R2', 'Item._parser_class/_depends_class flags all have a Pattern; every Pattern is reachable from parse_regex_source '
                   'through candidate lists; candidate names are registered')
    ctx.rule('R3', 'candidates are filtered with `candidate.parser_class & parser_classes`')
    mc = m.get_function(PU, 'ProgramUnit.make_complete')
    regex_if = [n for n in ast.walk(mc.node) if isinstance(n, ast.If) and 'REGEX' in ast.unparse(n.test) and '_parser_classes' in ast.unparse(n.test)]
    if not regex_if:
        raise AnalysisError('ProgramUnit.make_complete: REGEX incremental branch not found')
    blk = regex_if[0]
    inner = [n for n in blk.body if isinstance(n, ast.If)]
    # the local holding the requested classes (taken from frontend_args)
    pcn = (X.names_assigned_from(mc.node, 'frontend_args.get(', 'parser_classes') or ['parser_classes'])[0]
    joins = [n for n in blk.body if isinstance(n, ast.Assign) and ast.unparse(n.targets[0]) == pcn]
    if len(inner) == 1 and not joins:
        ctx.violation('R1', 'ProgramUnit.make_complete:join', f'{mc.module.relpath}:{blk.lineno}',
                      'the classes used for a REGEX re-parse are not joined with the already parsed ones: a later narrower request '
                      'drops what an earlier request discovered')
        joins = [ast.parse(f'{pcn} = {pcn}').body[0]]
        joins[0].lineno = inner[0].lineno + 1
    if len(inner) != 1 or len(joins) != 1 or not any(isinstance(s, ast.Return) for s in inner[0].body):
        raise AnalysisError('ProgramUnit.make_complete: early-exit / join statements not recognised')
    subsets = range(8)
    rows = bad_exit = bad_join = 0
    for already, req in itertools.product(subsets, subsets):
        if already == 0:
            continue        # branch is only entered when something was parsed before
        env = {'self._parser_classes': already, pcn: req}
        rows += 1
        if bool(_ev(inner[0].test, env)) != ((req | already) == already):
            bad_exit += 1
        if _ev(joins[0].value, env) != (already | req):
            bad_join += 1
    facts = {'exit_condition': ast.unparse(inner[0].test), 'join': ast.unparse(joins[0].value), 'rows': rows}
    (ctx.judge('R1', 'ProgramUnit.make_complete:early-exit', facts=facts) if not bad_exit else
     ctx.violation('R1', 'ProgramUnit.make_complete:early-exit', f'{mc.module.relpath}:{inner[0].lineno}',
                   f'the re-parse is skipped under `{ast.unparse(inner[0].test)}`, which differs from "requested classes already parsed" '
                   f'on {bad_exit}/{rows} (already, requested) pairs: what is discovered depends on the request order', facts=facts))
    (ctx.judge('R1', 'ProgramUnit.make_complete:join', facts=facts) if not bad_join else
     ctx.violation('R1', 'ProgramUnit.make_complete:join', f'{mc.module.relpath}:{joins[0].lineno}',
                   f'classes used for the re-parse are `{ast.unparse(joins[0].value)}`, not requested | already parsed '
                   f'({bad_join}/{rows} pairs differ): earlier results are dropped by a later, narrower request', facts=facts))
    if inner[0].lineno > joins[0].lineno:
        ctx.violation('R1', 'ProgramUnit.make_complete:order', mc.where, 'join is computed before the early-exit test')
    fs = [c for c in ast.walk(mc.node) if isinstance(c, ast.Call) and X.dotted_attr(c.func) == 'self.from_source']
    kw = {k.arg: ast.unparse(k.value) for k in fs[0].keywords} if fs else {}
    (ctx.judge('R1', 'join handed to from_source', facts=kw) if kw.get('parser_classes') == pcn and fs[0].lineno > joins[0].lineno else
     ctx.violation('R1', 'ProgramUnit.make_complete:from_source', mc.where, f'from_source receives parser_classes={kw.get("parser_classes")!r}'))
    init = m.get_function(PU, 'ProgramUnit.__initialize__')
    (ctx.judge('R1', '__initialize__ stores parser_classes') if 'self._parser_classes = parser_classes' in ast.unparse(init.node) else
     ctx.violation('R1', 'ProgramUnit.__initialize__', init.where, 'the classes used for parsing are not recorded on the unit'))
    dflt = [n for n in ast.walk(mc.node) if isinstance(n, ast.Assign) and ast.unparse(n.targets[0]) == pcn and 'frontend_args.get' in ast.unparse(n.value)]
    (ctx.judge('R1', 'default request is AllClasses') if dflt and 'RegexParserClass.AllClasses' in ast.unparse(dflt[0].value) else
     ctx.violation('R1', 'ProgramUnit.make_complete:default', mc.where, 'default request is not AllClasses'))
    smc = m.get_function(SF, 'Sourcefile.make_complete')
    st = [n for n in ast.walk(smc.node) if isinstance(n, ast.Assign) and ast.unparse(n.targets[0]) == 'self._parser_classes']
    spn = (X.names_assigned_from(smc.node, 'frontend_args.get(', 'parser_classes') or ['parser_classes'])[0]
    jn = [n for n in ast.walk(smc.node) if isinstance(n, ast.Assign) and ast.unparse(n.targets[0]) == spn and '|' in ast.unparse(n.value)]
    ok = st and jn and ast.unparse(st[0].value) == spn
    if ok:
        bad = 0
        for already, req in itertools.product(range(1, 8), range(8)):
            if _ev(jn[0].value, {'self._parser_classes': already, spn: req}) != (already | req):
                bad += 1
        ok = not bad
    (ctx.judge('R1', 'Sourcefile.make_complete stores the join') if ok else
     ctx.violation('R1', 'Sourcefile.make_complete:join', smc.where, 'Sourcefile does not store requested | already parsed classes'))

    # ---- R2
    rx = m.module_by_path(RX)
    base = rx.classes.get('Pattern')
    patterns = {c.name: c for c in rx.classes.values() if base in m.mro(c) and c is not base}
    flag_of = {}
    for name, c in patterns.items():
        v, owner = m.class_attr(c, 'parser_class')
        if v is None:
            raise AnalysisError(f'{name} has no parser_class')
        flag_of[name] = {ast.unparse(x).split('.')[-1] for x in ast.walk(v) if isinstance(x, ast.Attribute)}
    ctx.floor('R2', 'Pattern classes', len(patterns), 10)
    provided = set().union(*flag_of.values())
    itm = m.module_by_path(IT)
    item_base = itm.classes['Item']
    nflags = 0
    for c in itm.classes.values():
        if item_base not in m.mro(c):
            continue
        for attr in ('_parser_class', '_depends_class'):
            mem = c.members.get(attr)
            if mem is None or mem.kind != 'attr':
                continue
            flags = {x.attr for x in ast.walk(mem.node) if isinstance(x, ast.Attribute) and ast.unparse(x.value).endswith('RegexParserClass')}
            for fl in sorted(flags):
                nflags += 1
                inst = f'{c.name}.{attr}:{fl}'
                (ctx.judge('R2', inst) if fl in provided else
                 ctx.violation('R2', inst, c.where, f'{c.name} relies on RegexParserClass.{fl} but no Pattern has that parser_class: '
                               f'requesting it discovers nothing'))
    ctx.floor('R2', 'flags named by Item classes', nflags, 8)
    # reachability through candidate lists
    reach, work = set(), []
    prs = rx.functions.get('parse_regex_source')
    if prs is None:
        raise AnalysisError('parse_regex_source vanished')

    def names_in(fnode):
        out = set()
        for n in ast.walk(fnode):
            if isinstance(n, ast.Constant) and isinstance(n.value, str) and n.value.endswith('Pattern'):
                out.add(n.value)
        return out
    work = list(names_in(prs.node))
    unresolved = set()
    while work:
        nm = work.pop()
        if nm in reach:
            continue
        if nm not in patterns:
            unresolved.add(nm)
            continue
        reach.add(nm)
        work += list(names_in(patterns[nm].node))
    for nm in sorted(patterns):
        (ctx.judge('R2', f'reachable:{nm}') if nm in reach else
         ctx.violation('R2', f'unreachable:{nm}', patterns[nm].where, f'{nm} is not listed in any candidate list reachable from '
                       f'parse_regex_source: its constructs are never discovered'))
    for nm in sorted(unresolved):
        ctx.violation('R2', f'candidate:{nm}', rx.relpath, f'candidate name {nm!r} does not name a Pattern class')
    reg = rx.assigns.get('PATTERN_REGISTRY')
    (ctx.judge('R2', 'PATTERN_REGISTRY is built from all Pattern subclasses', facts={'expr': ast.unparse(reg)[:120] if reg is not None else None})
     if reg is not None and ('__subclasses__' in ast.unparse(reg) or 'globals()' in ast.unparse(reg) or all(p in ast.unparse(reg) for p in patterns))
     else ctx.violation('R2', 'PATTERN_REGISTRY', rx.relpath, 'registry does not cover all Pattern classes'))

    # ---- R3
    for meth in ('match_block_candidates', 'match_statement_candidates', 'match_block_statement_candidates'):
        f = base.function(meth)
        if f is None:
            raise AnalysisError(f'Pattern.{meth} vanished')
        src = ast.unparse(f.node)
        ok = X.has(src, '.parser_class & parser_classes') or X.has(src, 'match_block_candidates(') or X.has(src, 'match_statement_candidates(')
        direct = X.has(src, '.parser_class & parser_classes')
        (ctx.judge('R3', f'Pattern.{meth}', facts={'filters_directly': direct}) if ok else
         ctx.violation('R3', f'Pattern.{meth}', f.where, 'candidates are not filtered by the active parser classes'))

    # ---- R4
    ctx.rule('R4', 'ModulePattern.match / SubroutineFunctionPattern.match fetch the existing unit through a non-recursive symbol-table access')
    ctx.rule('R5', 'no variable defined before a loop over matched entries is re-bound to a clone of itself inside that loop (regex.py match methods)')
    rmod = m.module_by_path(RX) if 'RX' in globals() else m.module_by_path('loki/frontend/regex.py')
    n4 = 0
    for cn, attr in (('ModulePattern', 'module'), ('SubroutineFunctionPattern', 'procedure')):
        C_ = rmod.classes.get(cn)
        fm = C_.function('match') if C_ is not None else None
        if fm is None:
            raise AnalysisError(f'{cn}.match vanished')
        # the local whose .dtype.<attr> yields the existing unit
        holders = set()
        for a_ in ast.walk(fm.node):
            if isinstance(a_, ast.Attribute) and a_.attr == 'dtype' and isinstance(a_.value, ast.Name):
                holders.add(a_.value.id)
        got = False
        for n_ in ast.walk(fm.node):
            if isinstance(n_, ast.Assign) and isinstance(n_.targets[0], ast.Name) and n_.targets[0].id in holders \
                    and 'symbol_attrs' in ast.unparse(n_.value):
                got = True
                n4 += 1
                v = n_.value
                local = isinstance(v, ast.Subscript) or (isinstance(v, ast.Call) and isinstance(v.func, ast.Attribute) and (
                    v.func.attr == 'get' or (v.func.attr == 'lookup' and any(k.arg == 'recursive' and ast.unparse(k.value) == 'False'
                                                                              for k in v.keywords))))
                inst = f'{cn}.match:existing-unit'
                if local:
                    ctx.judge('R4', inst, facts={'access': ast.unparse(v)})
                else:
                    ctx.violation('R4', inst, f'{rmod.relpath}:{n_.lineno}',
                                  f'the already created unit is looked up with `{ast.unparse(v)}`, which also searches the enclosing scopes: a '
                                  f'{attr} of the same name in a parent scope is taken for this one and re-initialised (an internal '
                                  f'procedure X and a module procedure X share one object and one set of dependencies)')
        if not got:
            raise AnalysisError(f'{cn}.match: retrieval of the existing unit from symbol_attrs not found')
    ctx.floor('R4', 'existing-unit retrievals', n4, 2)
    n5 = 0
    for C_ in rmod.classes.values():
        fm = C_.function('match') if 'match' in C_.members else None
        if fm is None or fm.cls is not C_:
            continue
        for lp in [x for x in ast.walk(fm.node) if isinstance(x, ast.For)]:
            n5 += 1
            before = {t.id for n_ in ast.walk(fm.node) if isinstance(n_, ast.Assign) and n_.lineno < lp.lineno
                      for t in n_.targets if isinstance(t, ast.Name)}
            for a_ in ast.walk(lp):
                if isinstance(a_, ast.Assign) and isinstance(a_.targets[0], ast.Name) and a_.targets[0].id in before \
                        and isinstance(a_.value, ast.Call) and isinstance(a_.value.func, ast.Attribute) and a_.value.func.attr == 'clone' \
                        and ast.unparse(a_.value.func.value) == a_.targets[0].id:
                    ctx.violation('R5', f'{C_.name}.match:{a_.targets[0].id}:loop-carried-clone', f'{rmod.relpath}:{a_.lineno}',
                                  f'`{ast.unparse(a_)}` re-binds `{a_.targets[0].id}` (defined before the loop over the matched entries) to a '
                                  f'modified clone of itself: the modification made for one entry stays in force for all following '
                                  f'entries (use consts, only: rpi => pi, rg gives rg the use_name of pi)')
    ctx.floor('R5', 'loops in match methods', n5, 3)
    ctx.judge('R5', 'no loop-carried self-clone in match methods', nontrivial=True)

    # ---- R6 the file-level record of requested classes is no evidence of a completed match
    ctx.rule('R6', 'Sourcefile.make_complete: no early exit depends on self._parser_classes (only the program units know what they were parsed with)')
    SFC = m.get_class('loki/sourcefile.py', 'Sourcefile')
    mc = SFC.function('make_complete')
    if mc is None:
        raise AnalysisError('Sourcefile.make_complete vanished')
    rets = X.nodes_with_guards(mc.node, lambda x: isinstance(x, ast.Return), early=False)
    pcl = set(X.names_assigned_from(mc.node, 'self._parser_classes'))
    n6 = 0
    for r, guards in rets:
        n6 += 1
        dep = [g for g in guards if '_parser_classes' in g or any(nm in {x.id for x in ast.walk(ast.parse(g, mode='eval')) if isinstance(x, ast.Name)} for nm in pcl)]
        inst = f'Sourcefile.make_complete:return@{";".join(guards)[:40]}'
        if dep:
            ctx.violation('R6', 'Sourcefile.make_complete:skip-on-requested-classes', f'{mc.module.relpath}:{r.lineno}',
                          f'make_complete returns early under `{dep[0]}`: the file-level `_parser_classes` only records which classes were '
                          f'*requested* -- classes requested before a program unit existed were never matched inside it, so a later '
                          f'make_complete(REGEX, ImportClass) is skipped and imports / typedefs are never discovered')
        else:
            ctx.judge('R6', inst, nontrivial=False)
    ctx.floor('R6', 'return statements of Sourcefile.make_complete', n6, 1)

    # ---- R7 statement spellings
    import re as _re
    ctx.rule('R7', 'the CALL and USE patterns of the regex frontend accept every spelling of the statement head the grammar allows (R1109, R1220) '
                   'and reject identifiers that merely start with the keyword')
    RXF = 'loki/frontend/regex.py'
    TABLE = {
        'CallPattern': (['call foo(a)', 'call foo', 'CALL  obj%proc(x)', 'if (a > 0) call bar(a)'],
                        ['call_count = 1', 'callback_count = callback_count + 1', 'callfoo = 2']),
        'ImportPattern': (['use m', 'use m, only: a', 'use :: m', 'use, intrinsic :: iso_c_binding, only: c_int', 'use, non_intrinsic :: m',
                           'use m, only: a => b'], ['user_var = 1', 'used = .true.']),
        'InterfacePattern': (['interface\n subroutine i(x)\n end subroutine i\nend interface', 'interface\n subroutine i(x)\n end subroutine i\nendinterface',
                              'abstract interface\n subroutine i(x)\n end subroutine i\nEND INTERFACE', 'interface gen\n module procedure a\nend interface gen'],
                             ['interface_count = 1']),
    }
    for cn, (accept, reject) in TABLE.items():
        C_ = m.get_class(RXF, cn)
        init = C_.function('__init__')
        if init is None:
            raise AnalysisError(f'{cn}.__init__ vanished')
        sup = [c_ for c_ in ast.walk(init.node) if isinstance(c_, ast.Call) and (X.dotted_attr(c_.func) or '').endswith('__init__') and c_.args]
        if not sup:
            raise AnalysisError(f'{cn}: pattern literal not found')
        pat = m.const(C_.module, sup[0].args[0], C_)
        from sa.model import NOFOLD
        if pat is NOFOLD or not isinstance(pat, str):
            raise AnalysisError(f'{cn}: pattern does not fold to a string')
        flags = 0
        for a_ in sup[0].args[1:]:
            for fn_ in ast.walk(a_):
                if isinstance(fn_, ast.Attribute) and fn_.attr.isupper() and hasattr(_re, fn_.attr):
                    flags |= getattr(_re, fn_.attr)
        rx = _re.compile(pat, flags)
        where_ = f'{RXF}:{sup[0].lineno}'
        for sp in accept:
            inst = f'{cn}:accepts:{sp}'
            (ctx.judge('R7', inst) if rx.search(sp) else
             ctx.violation('R7', f'{cn}:spelling-not-matched', where_,
                           f'the pattern {pat[:60]!r}... does not match `{sp}`: the statement is found by the full parser but not by the regex '
                           f'frontend', instance=inst))
        for sp in reject:
            inst = f'{cn}:rejects:{sp}'
            (ctx.judge('R7', inst) if not rx.search(sp) else
             ctx.violation('R7', f'{cn}:identifier-matched', where_,
                           f'the pattern {pat[:60]!r}... matches `{sp}`, an assignment to a variable whose name starts with the keyword: the regex '
                           f'frontend reports a statement the full parser does not see', instance=inst))
    # ---- R8 (C31-style) is in c31


MUTANTS = [
    Mutant('endinterface-needs-blank', 'loki/frontend/regex.py', "            r'^end[ \\t]*interface\\b[ \\t]*(?P=spec)?',", "            r'^end[ \\t]+interface\\b[ \\t]*(?P=spec)?',",
           expect=('R7', 'spelling-not-matched')),
    Mutant('call-keyword-without-blank', 'loki/frontend/regex.py', "            r'call[ \\t]+',  # Call keyword", "            r'call',  # Call keyword", expect=('R7', 'identifier-matched')),
    Mutant('file-level-shortcut', 'loki/sourcefile.py', "            if frontend == REGEX:\n                frontend_argnames = ['parser_classes']\n",
           "            if frontend == REGEX:\n                frontend_argnames = ['parser_classes']\n                if self._parser_classes and (self._parser_classes | frontend_args.get('parser_classes', RegexParserClass.AllClasses)) == self._parser_classes:\n                    return\n",
           expect=('R6', 'skip-on-requested-classes')),
    Mutant('existing-routine-recursive-lookup', 'loki/frontend/regex.py',
           "        if scope is not None and name in scope.symbol_attrs:\n            proc_type = scope.symbol_attrs[name]  # Look-up only in current scope!",
           "        if scope is not None:\n            proc_type = scope.symbol_attrs.lookup(name)", expect=('R4', 'SubroutineFunctionPattern.match')),
    Mutant('import-use-name-leaks', 'loki/frontend/regex.py',
           "                    if len(s) == 1:\n                        symbols += [sym.Variable(name=s[0], type=type_, scope=scope)]\n                    else:\n                        symbols += [sym.Variable(name=s[0], type=type_.clone(use_name=s[1]), scope=scope)]",
           "                    if len(s) > 1:\n                        type_ = type_.clone(use_name=s[1])\n                    symbols += [sym.Variable(name=s[0], type=type_, scope=scope)]",
           expect=('R5', 'loop-carried-clone')),
    Mutant('join-dropped', PU, "            parser_classes = parser_classes | self._parser_classes\n", "", expect=('R1', 'join'), quick=False),
    Mutant('join-is-intersection', PU, "            parser_classes = parser_classes | self._parser_classes\n",
           "            parser_classes = parser_classes & self._parser_classes\n", expect=('R1', 'join'), quick=True),
    Mutant('early-exit-any-overlap', PU, "            if self._parser_classes == (self._parser_classes | parser_classes):",
           "            if self._parser_classes == (self._parser_classes & parser_classes) | self._parser_classes:", expect=('R1', 'early-exit')),
    Mutant('sourcefile-overwrites', SF, "                    parser_classes = self._parser_classes | parser_classes\n",
           "                    parser_classes = parser_classes\n", expect=('R1', 'Sourcefile.make_complete')),
    Mutant('pattern-unreachable', RX, "            statement_candidates = ('ProcedureBindingPattern', 'GenericBindingPattern')",
           "            statement_candidates = ('ProcedureBindingPattern',)", expect=('R2', 'unreachable:GenericBindingPattern')),
    Mutant('item-flag-without-pattern', RX, "    parser_class = RegexParserClass.PragmaClass\n", "    parser_class = RegexParserClass.CallClass\n",
           expect=('R2', 'PragmaClass')),
]
