"""
C14  The tree transformer applies exactly the requested node mapping.

 R1  member resolution: every ``self.<name>(...)`` / ``super().<name>(...)`` call
     made in the four transformer classes resolves on the class MRO (a name
     defined nowhere raises AttributeError on the path that reaches it).
 R2  non-in-place purity: a call ``<input node>._update(...)`` is guarded by
     ``self.inplace`` (``_rebuild`` is the only place allowed to update in place,
     under that flag).  An unguarded ``o._update`` mutates the caller's tree
     although "without in-place mode the original tree is left unchanged".
 R3  rebuilt record: ``Transformer.visit`` records ``self.rebuilt[o] = obj`` and
     every ``visit`` override funnels into it through ``super().visit``.
 R4  identity-keyed mapping: ``self.mapper`` / ``self.rebuilt`` are dicts keyed by
     IR nodes and queried with ``o in self.mapper``; "exactly the mapped nodes"
     needs identity semantics, but the node dataclasses are declared with
     structural equality (no ``eq=False``), so two distinct equal statements are
     one key.
 R5  every IR node class is dispatched, in each transformer, to a handler that
     consults the mapper.
 R6  replacement guard: in ``visit_Node`` / ``visit_ScopedNode`` of ``Transformer``
     a mapped node is replaced by ``mapper[o]`` unless it was put there by a
     one-to-many mapping that contains it; the guard in front of ``return
     handle._rebuild(...)`` is evaluated for the four shapes of a handle (another
     node, a node equal to ``o``, a tuple without ``o``, a tuple with ``o``).
 R7  tuple filter: ``visit_tuple`` (in ``Transformer`` and every re-implementation
     in a subclass, 7 sites) drops only entries mapped to ``None`` or replaced by an
     empty tuple; the filter expression is evaluated over pairs (original entry,
     visited entry): plain nodes, block nodes that define ``__len__`` (``Section`` /
     ``Associate``) with empty and non-empty body, and the entries of *nested* tuple
     fields (bodies of a multi-conditional), which must be kept even when empty.
     (``as_tuple`` / ``is_iterable`` are modelled: nodes are atomic, tuples are
     iterated; the model is tied to ``_is_atomic_iterable_ir_node`` in their source.)
 R8  drop guard: a mapped node is dropped exactly when ``mapper[o] is None`` --
     the guard in front of ``return None`` is evaluated for None, a plain node, a
     block node that is *falsy* because its body is empty (``Section`` defines
     ``__len__``), and tuples: only ``None`` may drop.
 R9  one-to-many splicing reaches every occurrence: the loop condition that
     repeats the splice in ``_inject_tuple_mapping`` is evaluated for "occurrence
     left in the tail" x "replacement contains the node itself": it must depend
     on the tail only.
Not decided: that the result equals a reference rebuild.
"""
import ast

from sa import dispatch as D, exprs as X
from sa.model import AnalysisError, ClassInfo
from sa.mutate import Mutant

PROP = 'C14'

META = dict(
    technique='MRO member resolution of self-calls, guard (control-dependence) analysis of in-place updates on input nodes, '
              'visit-override chain analysis, dataclass-decorator fact extraction, static dispatch totality',
    level='Decides structural necessary conditions: no transformer path calls a non-existent method; the input tree is updated '
          'in place only under the inplace flag; the rebuilt record is written for every visited node by every subclass; node '
          'keys have identity semantics (or structural keys are reported); every node class reaches a mapper-aware handler. '
          'Does NOT decide equality with a reference rebuild.',
    note='Input-node aliasing is tracked for the handler parameter `o` only (all handlers use that name).',
    ref='DESIGN.md section 3, C14',
)

FILE = 'loki/ir/transformer.py'
CLASSES = ['Transformer', 'NestedTransformer', 'MaskedTransformer', 'NestedMaskedTransformer']


class _N:                      # abstract plain node (no __len__)
    def __init__(self, tag):
        self.tag = tag

    def __eq__(self, other):       # IR nodes compare structurally
        return isinstance(other, _N) and self.tag == other.tag

    def __hash__(self):
        return hash(self.tag)

    def __repr__(self):
        return f'<node {self.tag}>'


class _Block(_N):                  # Section / Associate: __len__ is the length of the body
    def __init__(self, tag, n):
        super().__init__(tag)
        self.n = n

    def __len__(self):
        return self.n


def _as_tuple(x):
    return () if x is None else (tuple(x) if isinstance(x, (tuple, list)) else (x,))


def _is_iterable(x):
    return isinstance(x, (tuple, list))


def _r8_r9(ctx):
    from sa.miniev import ev_ext, Unknown
    m = ctx.model
    ctx.rule('R8', 'visit_Node / visit_ScopedNode (Transformer, NestedTransformer): the guard of the dropping `return None` holds for '
                   'mapper[o] = None only (not for falsy replacement nodes such as an empty Section)')
    ctx.rule('R9', '_inject_tuple_mapping: the splice is repeated while the mapped node occurs in the rest of the tuple, whatever the '
                   'replacement contains')
    shapes = {'None': (None, True), 'a plain node': (_N('h'), False), 'an empty Section (falsy)': (_Block('s', 0), False),
              'a non-empty Section': (_Block('s', 2), False), 'a non-empty tuple': ((_N('a'), _N('b')), False)}
    n8 = 0
    for cn in ('Transformer', 'NestedTransformer'):
        C = m.get_class(FILE, cn)
        for hn in ('visit_Node', 'visit_ScopedNode'):
            f = C.function(hn)
            if f is None:
                continue
            hnames = X.names_assigned_from(f.node, 'self.mapper[') + X.names_assigned_from(f.node, 'self.mapper.get(')
            if not hnames:
                continue
            hname = hnames[0]
            drops = [(n, g) for n, g in X.nodes_with_guards(f.node, lambda x: isinstance(x, ast.Return) and (
                x.value is None or (isinstance(x.value, ast.Constant) and x.value.value is None)), early=True)]
            drops = [(n, [g for g in gs if hname in g and 'self.mapper' not in g]) for n, gs in drops]
            drops = [(n, gs) for n, gs in drops if gs]
            if not drops:
                raise AnalysisError(f'{cn}.{hn}: the dropping `return None` for a node mapped to None was not found')
            for node, gs in drops:
                n8 += 1
                for name, (h, want) in shapes.items():
                    env = {hname: h, 'o': _N('o'), 'as_tuple': _as_tuple, 'is_iterable': _is_iterable}
                    try:
                        got = all(ev_ext(ast.parse(g, mode='eval').body, env) for g in gs)
                    except Unknown as u:
                        raise AnalysisError(f'{cn}.{hn}: drop guard uses `{u}`, outside the evaluated fragment')
                    inst = f'{cn}.{hn}:drop:{name}'
                    if bool(got) == want:
                        ctx.judge('R8', inst, facts={'guard': gs})
                    else:
                        ctx.violation('R8', inst, f'{f.module.relpath}:{node.lineno}',
                                      f'with mapper[o] = {name} the guard `{" and ".join(gs)}` is {bool(got)}: the node is '
                                      f'{"dropped instead of being replaced" if got else "kept although it is mapped to None"}')
    ctx.floor('R8', 'drop guards', n8, 3)
    T = m.get_class(FILE, 'Transformer')
    f = T.function('_inject_tuple_mapping')
    if f is None:
        raise AnalysisError('Transformer._inject_tuple_mapping vanished')
    loops = [w for w in ast.walk(f.node) if isinstance(w, ast.While)]
    fors = [l for l in ast.walk(f.node) if isinstance(l, ast.For) and '.items()' in ast.unparse(l.iter) and isinstance(l.target, ast.Tuple)]
    if len(loops) != 1 or len(fors) != 1:
        raise AnalysisError('_inject_tuple_mapping: repetition loop / mapper loop not found')
    kn, hn_ = (e.id for e in fors[0].target.elts)
    seq = [a.arg for a in f.node.args.args][1]
    idx = next((t.elts[1].id for a in ast.walk(fors[0]) if isinstance(a, ast.Assign) for t in a.targets
                if isinstance(t, ast.Tuple) and len(t.elts) == 2 and isinstance(t.elts[1], ast.Name)), None)
    if idx is None:
        raise AnalysisError('_inject_tuple_mapping: position variable of the splice not found')
    k = _N('k')
    rows = 0
    for tail_has in (True, False):
        for handle_has in (True, False):
            handle = (k, _N('x')) if handle_has else (_N('x'), _N('y'))
            o_ = (_N('p'),) + handle + ((_N('q'), k) if tail_has else (_N('q'),))
            env = {kn: k, hn_: handle, seq: o_, idx: 1 + len(handle), 'is_iterable': _is_iterable, 'as_tuple': _as_tuple}
            try:
                got = bool(ev_ext(loops[0].test, env))
            except Unknown as u:
                raise AnalysisError(f'_inject_tuple_mapping: loop condition uses `{u}`, outside the evaluated fragment')
            rows += 1
            inst = f'_inject_tuple_mapping:repeat:tail={tail_has},handle-contains-node={handle_has}'
            if got == tail_has:
                ctx.judge('R9', inst)
            else:
                ctx.violation('R9', 'Transformer._inject_tuple_mapping:repeat', f'{f.module.relpath}:{loops[0].lineno}',
                              f'`while {ast.unparse(loops[0].test)}` is {got} when the mapped node '
                              f'{"still occurs" if tail_has else "no longer occurs"} in the rest of the tuple and the replacement '
                              f'{"contains" if handle_has else "does not contain"} the node: '
                              f'{"later occurrences are not spliced, the inserted nodes are silently missing there" if tail_has else "the splice is attempted with nothing left"}',
                              instance=inst)
    ctx.floor('R9', 'loop-condition rows', rows, 4)


def _r6_r7(ctx):
    from sa.miniev import ev_ext, Unknown
    m = ctx.model
    ctx.rule('R6', 'Transformer.visit_Node / visit_ScopedNode: the guard of `return handle._rebuild(**handle.args)` is true for every handle '
                   'shape except a tuple that contains the visited node')
    ctx.rule('R7', 'visit_tuple (Transformer, NestedTransformer): the final filter keeps every node (also empty Section/Associate) and '
                   'drops exactly None and empty tuples')
    util = m.module_by_path('loki/tools/util.py')
    for fn in ('as_tuple', 'is_iterable'):
        f = util.functions.get(fn)
        if f is None or '_is_atomic_iterable_ir_node' not in ast.unparse(f.node):
            raise AnalysisError(f'loki.tools.util.{fn} no longer treats iterable IR nodes as atomic: the model used by R6/R7 is stale')
    T = m.get_class(FILE, 'Transformer')
    o = _N('o')
    shapes = {'another node': (_N('h'), True), 'a node equal to o': (_N('o'), True),
              'a tuple without o': ((_N('a'), _N('b')), True), 'a tuple with o': ((_N('a'), _N('o')), False)}
    n6 = 0
    for hn in ('visit_Node', 'visit_ScopedNode'):
        f = T.function(hn)
        hname = (X.names_assigned_from(f.node, 'self.mapper[') or ['handle'])[0]
        rets = [(n, g) for n, g in X.nodes_with_guards(f.node, lambda x: isinstance(x, ast.Return) and x.value is not None
                                                       and f'{hname}._rebuild' in ast.unparse(x.value), early=True)]
        if len(rets) != 1:
            raise AnalysisError(f'Transformer.{hn}: replacement return not found')
        node, guards = rets[0]
        # only the guards that talk about the handle shape
        gs = [g for g in guards if hname in g and 'is None' not in g and 'self.mapper' not in g]
        n6 += 1
        for name, (h, want) in shapes.items():
            env = {hname: h, 'o': o, 'as_tuple': _as_tuple, 'is_iterable': _is_iterable}
            try:
                got = all(ev_ext(ast.parse(g, mode='eval').body, env) for g in gs)
            except Unknown as u:
                raise AnalysisError(f'Transformer.{hn}: replacement guard uses `{u}`, outside the evaluated fragment')
            inst = f'Transformer.{hn}:replace:{name}'
            if bool(got) == want:
                ctx.judge('R6', inst, facts={'guard': gs, 'replaced': bool(got)})
            else:
                ctx.violation('R6', inst, f'{f.module.relpath}:{node.lineno}',
                              f'with mapper[o] = {name} the guard `{" and ".join(gs)}` is {bool(got)}: the mapped node is '
                              f'{"replaced again" if got else "not replaced but traversed, and the mapper is applied to its children"} '
                              f'(e.g. {{loop: loop_clone, stmt_in_loop: None}} must insert loop_clone as it is)', facts={'guard': gs})
    ctx.floor('R6', 'replacement guards', n6, 2)
    n7 = 0
    # (original entry, visited entry) -> kept?   An entry of a *nested* tuple field (the body of one branch of a
    # multi-conditional) stays, even when empty: dropping it shifts the remaining bodies to the wrong branch.
    NESTED = (_N('stmt'),)
    items = {'node mapped to None': (_N('a'), None, False), 'node replaced by an empty tuple': (_N('a'), (), False),
             'node replaced by a non-empty tuple': (_N('a'), (_N('b'),), True), 'plain node': (_N('a'), _N('a'), True),
             'Section/Associate with empty body': (_Block('s', 0), _Block('s', 0), True),
             'Section/Associate with body': (_Block('s', 2), _Block('s', 2), True),
             'non-empty entry of a nested tuple': (NESTED, NESTED, True),
             'empty entry of a nested tuple (branch without statements)': ((), (), True)}
    sites = []
    for mod in m.all_repo_modules(packages=('loki',)):
        for cls_ in mod.classes.values():
            fvt = cls_.function('visit_tuple')
            if fvt is None or m.get_class(FILE, 'Transformer') not in m.mro(cls_):
                continue
            rets = [r for r in ast.walk(fvt.node) if isinstance(r, (ast.Return, ast.Assign)) and isinstance(r.value, ast.Call) and r.value.args
                    and isinstance(r.value.args[0], ast.GeneratorExp) and r.value.args[0].generators[0].ifs
                    and any('is not None' in ast.unparse(i_) for i_ in r.value.args[0].generators[0].ifs)]
            if rets:
                sites.append((cls_, fvt, rets))
    for cls_, f, rets in sites:
        cn = cls_.name
        n7 += 1
        for name, (orig, vis, want) in items.items():
            got = True
            for ret in rets:                   # an entry survives iff every filtering pass of the function keeps it
                gen = ret.value.args[0]
                tgt = gen.generators[0].target
                env = {'as_tuple': _as_tuple, 'is_iterable': _is_iterable, 'isinstance': isinstance, 'tuple': tuple, 'list': list}
                if isinstance(tgt, ast.Tuple) and len(tgt.elts) == 2:
                    env[tgt.elts[0].id], env[tgt.elts[1].id] = orig, vis
                elif isinstance(tgt, ast.Name):
                    env[tgt.id] = vis
                else:
                    raise AnalysisError(f'{cn}.visit_tuple: filter target `{ast.unparse(tgt)}` not recognised')
                try:
                    got = got and all(bool(ev_ext(c, env)) for c in gen.generators[0].ifs)
                except Unknown as u:
                    raise AnalysisError(f'{cn}.visit_tuple: filter uses `{u}`, outside the evaluated fragment')
            inst = f'{cn}.visit_tuple:filter:{name}'
            filt = ' ; then '.join(" and ".join(ast.unparse(c) for c in r_.value.args[0].generators[0].ifs) for r_ in rets)
            if got == want:
                ctx.judge('R7', inst)
            else:
                ctx.violation('R7', inst, f'{f.module.relpath}:{rets[-1].lineno}',
                              f'the filter `{filt}` {"keeps" if got else "drops"} '
                              f'{name}: ' + ('None / empty replacements stay in the body' if got else
                                             ('the body of a branch without statements disappears and the remaining bodies shift to the wrong '
                                              'CASE / ELSEWHERE' if 'nested' in name else 'an unmapped node disappears from its parent')))
    ctx.floor('R7', 'visit_tuple filters of Transformer classes', n7, 6)


def run(ctx):
    m = ctx.model
    ctx.rule('R1', 'self./super(). method calls inside the transformer classes resolve on the MRO')
    ctx.rule('R2', 'o._update(...) on the visited (input) node is control-dependent on self.inplace, except when o was just '
                   're-bound to a rebuilt copy')
    ctx.rule('R3', 'Transformer.visit stores self.rebuilt[o]; each visit override ends in super().visit(...)')
    ctx.rule('R4', 'IR node dataclasses have identity equality (eq=False) or the transformer keys its maps by id()')
    ctx.rule('R5', 'each IR node class dispatches, in every transformer class, to a handler that tests `o in self.mapper` / '
                   'self.mapper.get(o')
    classes = [m.get_class(FILE, c) for c in CLASSES]
    ncalls = 0
    for c in classes:
        for mem in c.members.values():
            if mem.kind != 'func':
                continue
            fn = mem.node
            for n in ast.walk(fn):
                if isinstance(n, ast.Call) and isinstance(n.func, ast.Attribute):
                    d = X.dotted_attr(n.func) or ''
                    if d.startswith('self.') and d.count('.') == 1:
                        ncalls += 1
                        name = n.func.attr
                        found = m.lookup(c, name) is not None
                        # instance attributes set in __init__ (callables such as self.rule) count as resolved
                        if not found:
                            for k in m.mro(c):
                                init = k.function('__init__') if isinstance(k, ClassInfo) else None
                                if init and any(isinstance(a, ast.Assign) and X.dotted_attr(a.targets[0]) == f'self.{name}'
                                                for a in ast.walk(init.node)):
                                    found = True
                        inst = f'{c.name}.{mem.name}:self.{name}'
                        if found:
                            ctx.judge('R1', inst, nontrivial=False)
                        else:
                            ctx.violation('R1', inst, f'{c.module.relpath}:{n.lineno}',
                                          f'{c.name}.{mem.name} calls self.{name}(...) but no class on the MRO '
                                          f'{[k.name for k in m.mro(c)][:-1]} defines {name}: AttributeError when this path runs')
                    elif d.startswith('super().'):
                        ncalls += 1
                        name = n.func.attr
                        found = m.lookup(c, name, after=c) is not None
                        inst = f'{c.name}.{mem.name}:super().{name}'
                        (ctx.judge('R1', inst, nontrivial=False) if found else
                         ctx.violation('R1', inst, f'{c.module.relpath}:{n.lineno}', f'super().{name} does not resolve above {c.name}'))
    ctx.floor('R1', 'self/super method calls', ncalls, 40)

    # ---- R2
    nup = 0
    for c in classes:
        for mem in c.members.values():
            if mem.kind != 'func' or not mem.name.startswith('visit'):
                continue
            fn = mem.node
            par = [a.arg for a in fn.args.args][1] if len(fn.args.args) > 1 else None
            if par is None:
                continue
            # lines where the parameter is re-bound to a rebuilt copy (o = self._rebuild(...)) under some guard
            sites = X.nodes_with_guards(fn, lambda n: isinstance(n, ast.Call) and X.dotted_attr(n.func) == f'{par}._update')
            rebinds = X.nodes_with_guards(fn, lambda n: isinstance(n, ast.Assign) and ast.unparse(n.targets[0]) == par)
            for call, guards in sites:
                nup += 1
                structural = bool(call.args) or any(k.arg not in ('parent',) for k in call.keywords)
                inplace_guard = any('self.inplace' in g and not g.startswith('not (') for g in guards)
                # o re-bound unconditionally to a fresh copy earlier in the function?
                fresh = any(not gs for _, gs in rebinds if _.lineno < call.lineno)
                inst = f'{c.name}.{mem.name}:{ast.unparse(call)}'
                facts = {'guards': guards, 'rebinds': [(a.lineno, g) for a, g in rebinds]}
                if not structural:
                    ctx.judge('R2', inst, nontrivial=False, facts={**facts, 'note': 'scope parent link only'})
                elif inplace_guard or fresh:
                    ctx.judge('R2', inst, facts=facts)
                else:
                    ctx.violation('R2', f'{c.name}.{mem.name}:inplace-update', f'{c.module.relpath}:{call.lineno}',
                                  f'`{ast.unparse(call)}` replaces the children of the visited node in place on a path that is not '
                                  f'guarded by self.inplace (o is re-bound to a rebuilt copy only under {[g for _, g in rebinds]}): the '
                                  f'caller\'s original tree is modified', facts=facts, instance=inst)
    ctx.floor('R2', 'in-place updates on visited nodes', nup, 3)
    rb = classes[0].function('_rebuild')
    ups = X.nodes_with_guards(rb.node, lambda n: isinstance(n, ast.Call) and X.dotted_attr(n.func) == 'o._update')
    ok = ups and all(any(g == 'self.inplace' for g in gs) for _, gs in ups)
    (ctx.judge('R2', 'Transformer._rebuild updates only under self.inplace') if ok else
     ctx.violation('R2', 'Transformer._rebuild:inplace', rb.where, '_rebuild updates the node in place without the inplace flag'))

    # ---- R3
    tv = classes[0].function('visit')
    src = ast.unparse(tv.node)
    ctx.wired('R3', 'Transformer.visit', tv.where, src, ['self.rebuilt[o] = obj', 'obj = super().visit(o, *args, **kwargs)'],
              'Transformer.visit does not record self.rebuilt[o] = obj for the visited node')
    guard = [n for n in ast.walk(tv.node) if isinstance(n, ast.If) and 'self.rebuilt' in ast.unparse(n)]
    if guard:
        t = ast.unparse(guard[0].test)
        on = (X.names_assigned_from(tv.node, 'super().visit(') or ['obj'])[0]
        (ctx.judge('R3', 'record guard', facts={'test': t}) if t == f'isinstance(o, Node) and {on} is not o' else
         ctx.violation('R3', 'Transformer.visit:guard', tv.where, f'rebuilt is recorded under `{t}`'))
    subs = [c for mod in (m.module_by_path(FILE), m.module_by_path('loki/ir/expr_visitors.py'), m.module_by_path('loki/analyse/dataflow_analysis.py'))
            for c in mod.classes.values() if classes[0] in m.mro(c) and c is not classes[0]]
    for c in subs:
        v = c.function('visit')
        if v is None:
            continue
        rets = [r for r in ast.walk(v.node) if isinstance(r, ast.Return)]
        txt = ast.unparse(v.node)
        ons = set(X.names_assigned_from(v.node, 'super().visit('))
        ok = 'super().visit(' in txt and all('super().visit(' in ast.unparse(r) or ast.unparse(r.value) in ons for r in rets)
        (ctx.judge('R3', f'{c.name}.visit funnels into Transformer.visit') if ok else
         ctx.violation('R3', f'{c.name}.visit', v.where, f'{c.name}.visit has an exit that bypasses Transformer.visit (no rebuilt record)'))

    # ---- R4
    node = m.get_class('loki/ir/nodes/abstract_nodes.py', 'Node')
    decos = node.decorators
    eq_false = any('eq=False' in d for d in decos)
    own_eq = '__eq__' in node.members or '__hash__' in node.members
    init = classes[0].function('__init__')
    import re as _re
    id_keyed = bool(_re.search(r'(?<![\w.])id\(', ast.unparse(classes[0].node)))
    facts = {'Node_decorators': decos, 'defines_eq_or_hash': own_eq, 'transformer_uses_id_keys': id_keyed}
    if eq_false or own_eq or id_keyed:
        ctx.judge('R4', 'node keys', facts=facts)
    else:
        ctx.violation('R4', 'Node:structural-keys', node.where,
                      f'IR nodes are dataclasses with generated structural __eq__/__hash__ ({decos}) and Transformer keys '
                      f'self.mapper/self.rebuilt by node: two distinct but equal statements (e.g. without source) are one key -- '
                      f'mapping one of them replaces/removes both', facts=facts)

    # ---- R5
    nodes = D.ir_node_classes(m, concrete_only=True)
    for c in classes:
        handlers = D.visitor_handlers(m, c)
        memo = {}
        for n in nodes:
            f, key = D.visitor_dispatch(m, c, n, handlers)
            if f is None:
                ctx.violation('R5', f'{c.name}x{n.name}', c.where, f'no handler for {n.name}')
                continue
            if f.fqn not in memo:
                t = ast.unparse(f.node)
                memo[f.fqn] = 'in self.mapper' in t or 'self.mapper.get(' in t
            inst = f'{c.name}x{n.name}'
            if memo[f.fqn]:
                ctx.judge('R5', inst, nontrivial=False, facts={'handler': f.qualname})
            else:
                ctx.violation('R5', f'{f.qualname}:ignores-mapper', f.where,
                              f'{f.qualname} (handler for {n.name} in {c.name}) never consults self.mapper: a mapping for such a node '
                              f'is silently ignored', instance=inst)

    _r6_r7(ctx)
    _r8_r9(ctx)

MUTANTS = [
    Mutant('drop-falsy-handle', FILE, "            handle = self.mapper[o]\n            if handle is None:", "            handle = self.mapper[o]\n            if not handle:",
           count=2, expect=('R8', 'drop:an empty Section')),
    Mutant('splice-first-occurrence-only', FILE, "                while k in o[i:]:", "                while k in o[i:] and k not in handle:", expect=('R9', 'repeat')),
    Mutant('replace-guard-as-tuple', FILE, "            if not is_iterable(handle) or o not in handle:\n                return handle._rebuild(**handle.args)\n\n        rebuilt = tuple(",
           "            if o not in as_tuple(handle):\n                return handle._rebuild(**handle.args)\n\n        rebuilt = tuple(", expect=('R6', 'visit_Node:replace:a node equal to o')),
    Mutant('tuple-filter-by-len', FILE,
           "        return tuple(v for i, v in zip(o, visited) if v is not None and (isinstance(i, tuple) or as_tuple(v)))\n\n    visit_list = visit_tuple\n\n    def visit_Node(self, o, **kwargs):\n        \"\"\"\n        Handler for :any:`Node` objects.\n\n        It replaces",
           "        return tuple(v for i, v in zip(o, visited) if v is not None and (isinstance(i, tuple) or not hasattr(v, '__len__') or len(v) > 0))\n\n    visit_list = visit_tuple\n\n    def visit_Node(self, o, **kwargs):\n        \"\"\"\n        Handler for :any:`Node` objects.\n\n        It replaces",
           expect=('R7', 'Transformer.visit_tuple:filter:Section/Associate with empty body')),
    Mutant('tuple-filter-drops-empty-branch-bodies', 'loki/frontend/util.py',
           "        return tuple(v for i, v in zip(o, visited) if v is not None and (isinstance(i, tuple) or as_tuple(v)))", "        return tuple(i for i in visited if i is not None and as_tuple(i))",
           count=3, expect=('R7', 'empty entry of a nested tuple')),
    Mutant('neutral-replace-guard-demorgan', FILE, "            if not is_iterable(handle) or o not in handle:\n                return handle._rebuild(**handle.args)\n\n        rebuilt = tuple(",
           "            if not (is_iterable(handle) and o in handle):\n                return handle._rebuild(**handle.args)\n\n        rebuilt = tuple(", expect=None),
    Mutant('handler-ignores-mapper', FILE,
           "    def visit_InternalNode(self, o, **kwargs):\n        \"\"\"\n        Handler for :any:`InternalNode` that are included in the tree as long\n        as any :attr:`body` node is included.\n        \"\"\"\n        if o in self.mapper:\n            return super().visit_Node(o, **kwargs)\n",
           "    def visit_InternalNode(self, o, **kwargs):\n        \"\"\"\n        Handler for :any:`InternalNode` that are included in the tree as long\n        as any :attr:`body` node is included.\n        \"\"\"\n",
           expect=('R5', 'visit_InternalNode'), quick=True),
    Mutant('masked-visit-bypasses-record', FILE, "        return super().visit(o, *args, **kwargs)\n\n    def visit_object(self, o, **kwargs):\n        if kwargs['parent_active']:",
           "        return Visitor.visit(self, o, *args, **kwargs)\n\n    def visit_object(self, o, **kwargs):\n        if kwargs['parent_active']:",
           expect=('R3', 'MaskedTransformer.visit')),
    Mutant('rebuild-always-inplace', FILE, "        if self.inplace:\n            # Updated nodes in place, if requested\n            o._update(*children, **args_frozen)\n            return o\n",
           "        if self.inplace or not children:\n            o._update(*children, **args_frozen)\n            return o\n", expect=('R2', '_rebuild:inplace')),
    Mutant('undefined-helper', FILE, "        rebuilt = tuple(self.visit(i, **kwargs) for i in o.children)\n        return self._rebuild(o, rebuilt)\n\n    def visit_ScopedNode(self, o, **kwargs):\n        \"\"\"\n        Handler for :class:`ScopedNode` objects.\n\n        It replaces",
           "        rebuilt = tuple(self.visit(i, **kwargs) for i in o.children)\n        return self._rebuild_node(o, rebuilt)\n\n    def visit_ScopedNode(self, o, **kwargs):\n        \"\"\"\n        Handler for :class:`ScopedNode` objects.\n\n        It replaces",
           expect=('R1', '_rebuild_node')),
]
