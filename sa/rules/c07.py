"""
C07  The standalone expression parser follows Fortran semantics.

The parser is a Pratt parser: ``parse_expression(min)`` absorbs a following
operator o2 iff ``g(o2) > min`` and the right operand of a binary operator o1 is
parsed with ``min = r(o1)``.  Hence ``a o1 b o2 c`` groups as ``a o1 (b o2 c)``
iff ``g(o2) > r(o1)``; Fortran requires that iff o2 binds tighter than o1 (or
equally and o1 is right-associative).

 R1  binary pairs: for every ordered pair of binary operators the parser's
     grouping (from the guard/recursion precedences extracted from the
     ``parse_postfix`` branches of ExpressionParser and of the inherited
     pymbolic parser) equals Fortran's; a hand re-association after the
     recursive call is accepted only if it is total (loops/recurses over the
     absorbed chain).
 R2  prefix operators: unary minus must absorb ``**``; ``.not.`` must absorb
     comparisons.
 R3  lexer: every Fortran operator spelling has a token of the right kind.
 R7  a component reference binds tighter than every operator: the right-hand
     side of ``%`` is parsed with a minimum precedence that admits no binary
     operator (``x%a*b`` is ``(x%a)*b``) but still the subscript / argument list.
 R8  token patterns are local: no lexer pattern of the loki table is anchored
     at the end of the input, and a quoted-literal pattern cannot match across
     its closing quote (regex ASTs: no unbounded ``.`` between the delimiters).
 R4  literal text is not rewritten in a meaning-changing way (``d`` exponent).
 R5  operand coverage of the pymbolic -> Loki conversion: every ``map_<k>`` that
     PymbolicMapper defines for a pymbolic primitive reads every constructor
     argument of that primitive (``init_arg_names``), and operand-valued ones are
     passed through ``self.rec``.
 R6  range normalisation loses no bound: in ``map_slice`` a replacement of the
     converted ``children`` by a constant tuple is only allowed under a guard
     that (evaluated over all shapes of 1..3 components, each absent/present)
     implies every component is absent.
Not decided: the remaining per-node conversion details of PymbolicMapper.
"""
import ast
import re

from sa.model import AnalysisError, NOFOLD, dotted
from sa.exprs import names_assigned_from as X_names
from sa.mutate import Mutant

PROP = 'C07'

META = dict(
    technique='extraction of the Pratt table (guard / recursion precedences per token branch) from the parser ASTs with '
              'constant folding of pymbolic _PREC_*; exhaustive comparison of all operator pairs with the Fortran level table; '
              'lexer regex table evaluated on the operator spellings',
    level='Decides precedence/associativity exhaustively on the finite operator-pair table (8 binary operator classes, 2 '
          'prefix operators) and the presence of a correctly-typed token for every Fortran operator spelling. Does NOT '
          'decide the node conversions of PymbolicMapper.',
    note='Oracle = Fortran 2018 10.1.3 level table embedded in the rule; branches of unrecognised form fail closed.',
    ref='DESIGN.md section 3, C07',
)

FILE = 'loki/expression/parser.py'
BASE = 'site-packages/pymbolic/parser.py'

# token identifier in the parser source -> operator class
TOKEN_OP = {'_times': '*', '_over': '/', '_plus': '+', '_minus': '-', '_power': '**', '_and': '.and.', '_or': '.or.',
            '_COMP_TABLE': 'cmp'}
# Fortran levels (higher binds tighter); unary minus sits at the additive level, .not. below comparisons
LEVEL = {'**': 7, '*': 6, '/': 6, '+': 5, '-': 5, 'cmp': 3, '.and.': 1, '.or.': 0}
RIGHT_ASSOC = {'**'}
BINARY = ['**', '*', '/', '+', '-', 'cmp', '.and.', '.or.']
# grouping differences that do not change the value are not obligations:
#  a+(b+c), a*(b*c): licence of 10.1.5.2.4 (not integer division); a .and. (b .and. c), a .or. (b .or. c): associative
VALUE_NEUTRAL = {('+', '+'), ('*', '*'), ('.and.', '.and.'), ('.or.', '.or.')}
EXAMPLE = {'**': 'a**b', '*': 'a*b', '/': 'a/b', '+': 'a+b', '-': 'a-b', 'cmp': 'a<b', '.and.': 'a.and.b', '.or.': 'a.or.b'}


def _branches(m, f):
    """(token, guard prec, recursion prec, If node) of each branch of a parse_postfix."""
    out = []
    top = [st for st in f.node.body if isinstance(st, ast.If)]
    node = None
    for st in top:
        t = ast.unparse(st.test)
        if 'min_precedence' in t:
            node = st
            break
    while node is not None:
        test = node.test
        tok = g = None
        if isinstance(test, ast.BoolOp) and isinstance(test.op, ast.And) and len(test.values) == 2:
            a, b = test.values
            if isinstance(a, ast.Call) and dotted(a.func) == 'pstate.is_next' and a.args:
                tok = dotted(a.args[0])
            elif isinstance(a, ast.Compare) and isinstance(a.ops[0], (ast.Is, ast.In)):
                tok = dotted(a.comparators[0])
            if isinstance(b, ast.Compare) and len(b.ops) == 1 and dotted(b.comparators[0]) == 'min_precedence':
                g = m.const(f.module, b.left, f.cls)
                strict = isinstance(b.ops[0], ast.Gt)
        if tok is None or g is None or g is NOFOLD:
            raise AnalysisError(f'{f.qualname}: unrecognised parse_postfix branch `{ast.unparse(test)}`')
        tok = tok.split('.')[-1]
        rec = None
        for n in ast.walk(ast.Module(body=node.body, type_ignores=[])):
            if isinstance(n, ast.Call) and dotted(n.func) == 'self.parse_expression' and len(n.args) >= 2:
                rec = m.const(f.module, n.args[1], f.cls)
                break
        out.append({'token': tok, 'g': g, 'r': rec, 'node': node, 'line': node.lineno, 'strict': strict})
        nxt = node.orelse
        node = nxt[0] if len(nxt) == 1 and isinstance(nxt[0], ast.If) else None
    return out


def _fixups(branch_node, var=None):
    """type tests on the right operand inside a branch: {class name: is_total}"""
    out = {}
    if var is None:
        mod_ = ast.Module(body=branch_node.body, type_ignores=[])
        var = (X_names(mod_, 'self.parse_expression(') or ['right_exp'])[0]
    for n in ast.walk(ast.Module(body=branch_node.body, type_ignores=[])):
        if isinstance(n, ast.If):
            t = ast.unparse(n.test)
            mt = re.match(r'(?:type\(%s\) is|isinstance\(%s,) *([\w.]+)' % (var, var), t)
            if mt:
                cls = mt.group(1).split('.')[-1].rstrip(')')
                body = ast.Module(body=n.body, type_ignores=[])
                total = any(isinstance(x, (ast.While, ast.For)) for x in ast.walk(body)) or \
                    any(isinstance(x, ast.Call) and isinstance(x.func, ast.Attribute) and x.func.attr.startswith('_reassoc')
                        for x in ast.walk(body))
                out[cls] = total
    return out


def run(ctx):
    m = ctx.model
    ctx.rule('R1', 'for all ordered pairs (o1,o2) of binary operators: parser absorbs o2 into the right operand of o1 '
                   '[g(o2) > r(o1)] iff Fortran does [level(o2) > level(o1), or equal and o1 right-associative]; value-neutral '
                   're-groupings are exempt; hand re-association must be total')
    ctx.rule('R2', 'prefix minus recurses below the precedence of ** (so -a**b is -(a**b)); .not. recurses below comparisons')
    ctx.rule('R3', 'every Fortran operator spelling is matched by a lexer entry of the corresponding token class')
    ctx.rule('R4', 'literal text is not rewritten: no replace() of exponent letters in parse_float')
    P = m.get_class(FILE, 'ExpressionParser')
    own = m.get_function(FILE, 'ExpressionParser.parse_postfix')
    basecls = [c for c in m.mro(P) if getattr(c, 'name', '') == 'Parser']
    if not basecls or not hasattr(basecls[0], 'function'):
        raise AnalysisError('pymbolic Parser base class not resolved')
    base = basecls[0].function('parse_postfix')
    table = {}
    for f, origin in ((base, 'pymbolic'), (own, 'loki')):      # loki branches override
        for b in _branches(m, f):
            op = TOKEN_OP.get(b['token'])
            if op is None:
                continue
            b['origin'] = origin
            b['fixups'] = _fixups(b['node'])
            b['where'] = f'{f.module.relpath}:{b["line"]}'
            table[op] = b
    missing = [o for o in BINARY if o not in table]
    if missing:
        raise AnalysisError(f'parse_postfix branches not found for {missing}')
    ctx.floor('R1', 'binary operator branches', len(table), 8)
    for o in BINARY:
        if table[o]['r'] is None or table[o]['r'] is NOFOLD:
            raise AnalysisError(f'recursion precedence of {o} not found')
    FIX_CLASS = {'*': 'Product', '/': 'Quotient'}
    for o1 in BINARY:
        for o2 in BINARY:
            b1, b2 = table[o1], table[o2]
            parser_abs = b2['g'] > b1['r'] if b2['strict'] else b2['g'] >= b1['r']
            fortran_abs = LEVEL[o2] > LEVEL[o1] or (LEVEL[o2] == LEVEL[o1] and o1 in RIGHT_ASSOC)
            inst = f'{o1} then {o2}'
            facts = {'g(o2)': b2['g'], 'r(o1)': b1['r'], 'parser_absorbs': parser_abs, 'fortran_absorbs': fortran_abs,
                     'o1_branch': b1['where'], 'o2_branch': b2['where']}
            # ill-typed pairs (comparison/logical inside arithmetic right operand) cannot occur in valid input
            if LEVEL[o1] >= 5 and LEVEL[o2] <= 3:
                if parser_abs:
                    ctx.violation('R1', inst, b1['where'],
                                  f'right operand of {o1} absorbs the looser operator {o2}', facts=facts)
                else:
                    ctx.judge('R1', inst, facts=facts)
                continue
            if parser_abs == fortran_abs:
                ctx.judge('R1', inst, facts=facts)
                continue
            if (o1, o2) in VALUE_NEUTRAL:
                ctx.judge('R1', inst, nontrivial=False, facts={**facts, 'value_neutral': True})
                continue
            fx = b1['fixups'].get(FIX_CLASS.get(o2, ''))
            ex = f"a{o1 if o1 != 'cmp' else '<'}b{o2 if o2 != 'cmp' else '<'}c"
            if fx is None:
                ctx.violation('R1', inst, b1['where'],
                              f'`{ex}`: parser groups as {"a o1 (b o2 c)" if parser_abs else "(a o1 b) o2 c"} '
                              f'[g({o2})={b2["g"]} vs r({o1})={b1["r"]}], Fortran the other way', facts=facts)
            elif not fx:
                ctx.violation('R1', inst + ':partial-fixup', b1['where'],
                              f'`{ex}`: the right operand of {o1} absorbs a whole chain of {o2} [g={b2["g"]} > r={b1["r"]}] and the '
                              f'hand re-association handles only its top node: e.g. a*b/c/d parses as (a*(b/c))/d',
                              facts=facts)
            else:
                ctx.judge('R1', inst, facts={**facts, 'total_fixup': True})

    # ---- R7 component references
    ctx.rule('R7', 'the right-hand side of a component reference `%` absorbs no binary operator (g(o) <= r(%) for every o) but keeps '
                   'its subscripts / argument list (g(call) > r(%))')
    comp = [b for b in _branches(m, own) if b['token'] == '_f_derived_type']
    if len(comp) != 1 or comp[0]['r'] in (None, NOFOLD):
        raise AnalysisError('parse_postfix: branch of the component-reference token `%` not found')
    rc = comp[0]['r']
    wc = f'{own.module.relpath}:{comp[0]["line"]}'
    for o in BINARY:
        b = table[o]
        absorbs = b['g'] > rc if b['strict'] else b['g'] >= rc
        inst = f'% then {o}'
        if absorbs:
            ex = EXAMPLE[o].replace('a', 'x%a', 1)
            ctx.violation('R7', inst, wc,
                          f'`{ex}`: the right-hand side of % is parsed with min precedence {rc} < g({o})={b["g"]}, so it swallows the '
                          f'operator: x%a{o if o != "cmp" else "<"}b is read as x%(a{o if o != "cmp" else "<"}b) and mapped to '
                          f'x%a {o if o != "cmp" else "<"} x%b', facts={'r(%)': rc, f'g({o})': b['g']})
        else:
            ctx.judge('R7', inst, facts={'r(%)': rc, f'g({o})': b['g']})
    callb = [b for b in _branches(m, base) if b['token'] == '_openpar']
    if callb:
        gcall = callb[0]['g']
        (ctx.judge('R7', '% keeps subscripts', facts={'g(call)': gcall, 'r(%)': rc}) if gcall > rc else
         ctx.violation('R7', '% then (', wc, f'`x%a(i)`: the subscript list is not attached to the component (g(call)={gcall} <= r(%)={rc})'))

    # ---- R2 prefix operators
    pp_own = m.get_function(FILE, 'ExpressionParser.parse_prefix')
    pp_base = basecls[0].function('parse_prefix')

    def prefix_rec(f, tokname):
        for n in ast.walk(f.node):
            if isinstance(n, ast.If):
                t = n.test
                if isinstance(t, ast.Call) and dotted(t.func) == 'pstate.is_next' and t.args and \
                        (dotted(t.args[0]) or '').split('.')[-1] == tokname:
                    for c in ast.walk(ast.Module(body=n.body, type_ignores=[])):
                        if isinstance(c, ast.Call) and dotted(c.func) == 'self.parse_expression' and len(c.args) >= 2:
                            return m.const(f.module, c.args[1], f.cls), f'{f.module.relpath}:{n.lineno}'
        return None, None
    rminus, wminus = prefix_rec(pp_own, '_minus')
    if rminus is None:
        rminus, wminus = prefix_rec(pp_base, '_minus')
    rnot, wnot = prefix_rec(pp_own, '_f_not')      # same interned token string "not" as pymbolic's _not
    if rnot is None:
        rnot, wnot = prefix_rec(pp_own, '_not')
    if rnot is None:
        rnot, wnot = prefix_rec(pp_base, '_not')
    if rminus in (None, NOFOLD) or rnot in (None, NOFOLD):
        raise AnalysisError('prefix branches for - / .not. not found')
    if table['**']['g'] > rminus:
        ctx.judge('R2', 'prefix - absorbs **', facts={'r(-)': rminus, 'g(**)': table['**']['g']})
    else:
        ctx.violation('R2', 'prefix-minus:**', wminus,
                      f'`-a**b`: the operand of unary minus is parsed with min precedence {rminus} >= g(**)={table["**"]["g"]}, '
                      'giving (-a)**b; Fortran reads -(a**b)', facts={'r(-)': rminus, 'g(**)': table['**']['g']})
    if table['cmp']['g'] > rnot:
        ctx.judge('R2', 'prefix .not. absorbs comparison', facts={'r(.not.)': rnot, 'g(cmp)': table['cmp']['g']})
    else:
        ctx.violation('R2', 'prefix-not:cmp', wnot,
                      f'`.not. a == b`: the operand of .not. is parsed with min precedence {rnot} >= g(comparison)='
                      f'{table["cmp"]["g"]}, giving (.not. a) == b; Fortran reads .not. (a == b)',
                      facts={'r(.not.)': rnot, 'g(cmp)': table['cmp']['g']})
    for lo in ('.and.', '.or.'):
        if table[lo]['g'] > rnot:
            ctx.violation('R2', f'prefix-not:{lo}', wnot, f'.not. absorbs {lo}')
        else:
            ctx.judge('R2', f'prefix .not. does not absorb {lo}')

    # ---- R3 lexer
    def lex_entries(cls_or_mod_assign, mod, cls):
        out = []
        v, owner = m.class_attr(cls, 'lex_table')
        chain = []
        node = v

        def collect(n, tag=None):
            if isinstance(n, ast.BinOp) and isinstance(n.op, ast.Add):
                collect(n.left)
                collect(n.right)
            elif isinstance(n, ast.List):
                for e in n.elts:
                    if isinstance(e, ast.Tuple) and len(e.elts) == 2:
                        tg = dotted(e.elts[0]) or ast.unparse(e.elts[0])
                        pats = [c.args[0].value for c in ast.walk(e.elts[1]) if isinstance(c, ast.Call)
                                and (dotted(c.func) or '').endswith('RE') and c.args and isinstance(c.args[0], ast.Constant)]
                        flags = any('IGNORECASE' in ast.unparse(c) for c in ast.walk(e.elts[1]) if isinstance(c, ast.Call))
                        out.append((tg.split('.')[-1], pats, flags))
            elif isinstance(n, ast.Attribute) and n.attr == 'lex_table':
                bc = m.resolve_expr(owner.module, n.value)
                if bc is None or not hasattr(bc, 'members'):
                    raise AnalysisError('cannot resolve base lex_table')
                bv, bo = m.class_attr(bc, 'lex_table')
                collect(bv)
        collect(node)
        return out
    entries = lex_entries(None, None, P)
    ctx.floor('R3', 'lexer entries', len(entries), 40)
    WANT = {'**': {'_power'}, '*': {'_times'}, '/': {'_over'}, '+': {'_plus'}, '-': {'_minus'},
            '//': {'concat'}, '==': {'_equal', '_f_equal'}, '/=': {'_notequal', '_f_notequal'},
            '<': {'_less', '_f_less'}, '<=': {'_lessequal', '_f_lessequal'}, '>': {'_greater', '_f_greater'},
            '>=': {'_greaterequal', '_f_greaterequal'}, '.eq.': {'_f_equal'}, '.ne.': {'_f_notequal'},
            '.lt.': {'_f_less'}, '.le.': {'_f_lessequal'}, '.gt.': {'_f_greater'}, '.ge.': {'_f_greaterequal'},
            '.not.': {'_f_not', '_not'}, '.and.': {'_f_and', '_and'}, '.or.': {'_f_or', '_or'},
            '.eqv.': {'eqv'}, '.neqv.': {'neqv'}}
    for sp, want in WANT.items():
        hit = None
        for tag, pats, ic in entries:
            for p in pats:
                try:
                    if re.fullmatch(p, sp, re.IGNORECASE if ic else 0):
                        hit = tag
                        break
                except re.error:
                    continue
            if hit:
                break
        facts = {'spelling': sp, 'token': hit, 'expected': sorted(want)}
        if hit in want:
            ctx.judge('R3', f'lex {sp}', facts=facts)
        elif hit is None:
            ctx.violation('R3', f'lex:{sp}', P.where,
                          f'Fortran operator {sp} has no token in the lexer table (it is lexed as something else piecewise, '
                          f'e.g. a .eqv. b becomes a%eqv%b lookups)', facts=facts)
        else:
            ctx.violation('R3', f'lex:{sp}', P.where,
                          f'Fortran operator {sp} is lexed as token {hit!r} (different meaning)', facts=facts)

    # ---- R8 token patterns are local
    import re._parser as sre        # regex ASTs (CPython)
    ctx.rule('R8', 'lexer patterns of ExpressionParser: no end-of-input anchor; a quoted-literal pattern cannot run across its closing quote '
                   '(no `.`-repetition between the delimiters)')
    own_tab, _ = m.class_attr(P, 'lex_table')
    own_entries = []
    for e in ast.walk(own_tab):
        if isinstance(e, ast.Tuple) and len(e.elts) == 2 and not isinstance(e.elts[0], ast.Constant):
            for c in ast.walk(e.elts[1]):
                if isinstance(c, ast.Call) and (dotted(c.func) or '').endswith('RE') and c.args and isinstance(c.args[0], ast.Constant):
                    own_entries.append(((dotted(e.elts[0]) or ast.unparse(e.elts[0])).split('.')[-1], c.args[0].value, c.lineno))
    ctx.floor('R8', 'patterns of the loki lexer table', len(own_entries), 15)

    def walk_re(items):
        for op, av in items:
            yield op, av
            if op in (sre.MAX_REPEAT, sre.MIN_REPEAT, sre.POSSESSIVE_REPEAT):
                yield from walk_re(av[2])
            elif op is sre.SUBPATTERN:
                yield from walk_re(av[3])
            elif op is sre.BRANCH:
                for alt in av[1]:
                    yield from walk_re(alt)
            elif op in (sre.ASSERT, sre.ASSERT_NOT):
                yield from walk_re(av[1])
    for tag, pat, line in own_entries:
        try:
            tree = sre.parse(pat)
        except re.error as exc:
            raise AnalysisError(f'lexer pattern {pat!r} does not parse: {exc}')
        where_ = f'{FILE}:{line}'
        inst = f'lex-pattern:{tag}:{pat}'
        anchors = [av for op, av in walk_re(tree) if op is sre.AT and av in (sre.AT_END, sre.AT_END_STRING, sre.AT_END_LINE)]
        if anchors:
            ctx.violation('R8', f'lex-pattern:{tag}:end-anchor', where_,
                          f'the pattern {pat!r} of token {tag} is anchored at the end of the input: the token is only recognised as the last '
                          f'thing in an expression (2.0_jprb*y cannot be lexed, x + 2.0_jprb can)', instance=inst)
            continue
        items = list(tree)
        quoted = len(items) >= 2 and items[0][0] is sre.LITERAL and items[-1][0] is sre.LITERAL and items[0][1] == items[-1][1] \
            and chr(items[0][1]) in '\'"'
        if quoted:
            q = items[0][1]
            greedy = False
            for op, av in walk_re(items[1:-1]):
                if op in (sre.MAX_REPEAT, sre.MIN_REPEAT) and av[1] is sre.MAXREPEAT:
                    for op2, av2 in av[2]:
                        if op2 is sre.ANY:
                            greedy = True
                        if op2 is sre.IN and not any(o is sre.NEGATE for o, _ in av2):
                            if any((o is sre.LITERAL and v == q) or o is sre.CATEGORY for o, v in av2):
                                greedy = True
            if greedy:
                ctx.violation('R8', f'lex-pattern:{tag}:runs-across-quote', where_,
                              f'the string pattern {pat!r} lets `.` run across closing quotes: everything from the first to the last quote of '
                              f"the expression is one literal -- c == 'a' .or. c == 'b' is lexed as a single string", instance=inst)
                continue
        ctx.judge('R8', inst, nontrivial=quoted)

    # ---- R5 operand coverage of PymbolicMapper
    ctx.rule('R5', 'for every pymbolic primitive K whose mapper_method is defined by PymbolicMapper: each name in K.init_arg_names is '
                   'read from the node; operand-valued ones reach self.rec')
    PM = m.get_class(FILE, 'PymbolicMapper')
    prim = m.module('pymbolic.primitives')
    OPERANDS = {'children', 'base', 'exponent', 'numerator', 'denominator', 'left', 'right', 'child', 'parameters', 'kw_parameters',
                'aggregate', 'name'}
    R5_EXEMPT = {('map_lookup', 'name'): 'component name is converted by self.rec(expr.name, parent=...)',
                 ('map_variable', 'name'): 'leaf: the name string is the payload',
                 ('map_call_with_kwargs', 'function'): 'only function.name is meaningful', }
    n5 = 0
    for K in prim.classes.values():
        mmv, _ = m.class_attr(K, 'mapper_method')
        if mmv is None:
            continue
        mm = m.const(prim, mmv, K)
        if mm is NOFOLD or mm not in PM.members or PM.members[mm].kind != 'func':
            continue
        ian, _ = m.class_attr(K, 'init_arg_names')
        names = m.const(prim, ian, K) if ian is not None else None
        if names in (None, NOFOLD) or not isinstance(names, tuple):
            continue
        fn = PM.members[mm].node
        if any(isinstance(x, ast.Raise) for x in fn.body):
            ctx.judge('R5', f'{mm}: fails closed', nontrivial=False)
            continue
        par = [a.arg for a in fn.args.args][1]
        for an in names:
            n5 += 1
            inst = f'PymbolicMapper.{mm}:{K.name}.{an}'
            reads = [x for x in ast.walk(fn) if isinstance(x, ast.Attribute) and x.attr == an and isinstance(x.value, ast.Name) and x.value.id == par]
            if not reads:
                ctx.violation('R5', inst, f'{PM.module.relpath}:{fn.lineno}',
                              f'PymbolicMapper.{mm} never reads `{par}.{an}` of the pymbolic {K.name}: that operand is dropped from '
                              f'the converted tree')
                continue
            if an not in OPERANDS or (mm, an) in R5_EXEMPT:
                ctx.judge('R5', inst, nontrivial=False)
                continue
            # operand-valued: must be inside a self.rec(...) call or iterated by a comprehension whose element calls self.rec
            ok = False
            for x in ast.walk(fn):
                if isinstance(x, ast.Call) and dotted(x.func) == 'self.rec' and any(r in list(ast.walk(x)) for r in reads):
                    ok = True
                if isinstance(x, (ast.GeneratorExp, ast.ListComp, ast.DictComp)):
                    its = [y for g in x.generators for y in ast.walk(g.iter)]
                    elt = [x.elt] if not isinstance(x, ast.DictComp) else [x.key, x.value]
                    if any(r in its for r in reads) and any(isinstance(c, ast.Call) and dotted(c.func) == 'self.rec' for e in elt for c in ast.walk(e)):
                        ok = True
            if ok:
                ctx.judge('R5', inst)
            else:
                ctx.violation('R5', inst, f'{PM.module.relpath}:{fn.lineno}',
                              f'PymbolicMapper.{mm} reads `{par}.{an}` but never converts it with self.rec: a pymbolic sub-tree ends '
                              f'up inside the Loki tree')
    ctx.floor('R5', 'constructor arguments of converted pymbolic primitives', n5, 14)

    # ---- R6 slice normalisation
    ctx.rule('R6', 'map_slice: `children` may be replaced by a constant tuple only under a guard that implies all components are None '
                   '(evaluated over every shape of 1..3 components, each None or present)')
    ms = PM.members.get('map_slice')
    if ms is None:
        raise AnalysisError('PymbolicMapper.map_slice vanished')
    import itertools
    n6 = 0
    # the converted components: the local bound to the recursed children of the slice
    cname = (X_names(ms.node, 'self.rec(', '.children') or ['children'])[0]

    from sa.miniev import ev, Unknown as _Unknown

    def visit6(stmts, guards):
        nonlocal n6
        for st in stmts:
            if isinstance(st, ast.If):
                visit6(st.body, guards + [st.test])
                visit6(st.orelse, guards + [ast.UnaryOp(op=ast.Not(), operand=st.test)])
            elif isinstance(st, ast.Assign) and ast.unparse(st.targets[0]) == cname and isinstance(st.value, ast.Tuple) \
                    and all(isinstance(x, ast.Constant) for x in st.value.elts):
                n6 += 1
                bad = None
                for ln in (1, 2, 3):
                    for shape in itertools.product((None, 'X'), repeat=ln):
                        try:
                            fires = all(ev(g, {cname: shape}) for g in guards)
                        except _Unknown as u:
                            raise AnalysisError(f'map_slice guard uses `{u}`, outside the evaluated fragment')
                        if fires and any(c is not None for c in shape):
                            bad = bad or shape
                gtxt = ' and '.join(ast.unparse(g) for g in guards) or 'True'
                inst = f'PymbolicMapper.map_slice:children={ast.unparse(st.value)}'   # construct key independent of the local's name
                if bad:
                    txt = ':'.join('' if c is None else 'n' for c in bad)
                    ctx.violation('R6', inst, f'{PM.module.relpath}:{st.lineno}',
                                  f'`{cname} = {ast.unparse(st.value)}` fires under `{gtxt}` also for the section `{txt}` '
                                  f'(components {bad}): its bounds/stride are dropped, e.g. arr(:n) becomes arr(:)',
                                  facts={'guard': gtxt, 'counterexample_shape': list(bad)})
                else:
                    ctx.judge('R6', inst, facts={'guard': gtxt, 'shapes_evaluated': 14})
    visit6(ms.node.body, [])
    ctx.floor('R6', 'constant replacements of the converted range components', n6, 1)
    # the aliases route every range-like node kind through the same method
    for al in ('map_range', 'map_range_index', 'map_loop_range'):
        mem = PM.members.get(al)
        (ctx.judge('R6', f'{al} is map_slice') if mem is not None and mem.node is ms.node else
         ctx.note(f'{al} no longer aliases map_slice'))

    # ---- R4
    pf = m.get_function(FILE, 'ExpressionParser.parse_float')
    reps = [n for n in ast.walk(pf.node) if isinstance(n, ast.Call) and isinstance(n.func, ast.Attribute)
            and n.func.attr == 'replace' and n.args and isinstance(n.args[0], ast.Constant)
            and str(n.args[0].value).lower() == 'd']
    if reps:
        ctx.violation('R4', 'parse_float:d-exponent', pf.where,
                      'the exponent letter d/D of a real literal is rewritten to e: 2.d0 (double precision) becomes 2.e0 '
                      '(default real)', facts={'calls': [ast.unparse(r) for r in reps][:2]})
    else:
        ctx.judge('R4', 'parse_float')


MUTANTS = [
    Mutant('greedy-string-pattern', FILE, '''pytools.lex.RE(r"\\'(?:[^\\']|\\'\\')*\\'", re.IGNORECASE)''', '''pytools.lex.RE(r"\\'.*\\'", re.IGNORECASE)''',
           expect=('R8', 'runs-across-quote')),
    Mutant('float-pattern-end-anchor', FILE, '(_([\\w$]+|[0-9]+))+", re.IGNORECASE)', '(_([\\w$]+|[0-9]+))+$", re.IGNORECASE)', expect=('R8', 'end-anchor')),
    Mutant('component-swallows-operators', FILE, "            right_exp = self.parse_expression(pstate, _PREC_UNARY)", "            right_exp = self.parse_expression(pstate, _PREC_PLUS)",
           expect=('R7', '% then *')),
    Mutant('float-exponent-rewritten', FILE, "        return sym.FloatLiteral(value=s)\n", "        return sym.FloatLiteral(value=s.replace('d', 'e').replace('D', 'e'))\n",
           expect=('R4', 'd-exponent')),
    Mutant('times-guard-nonstrict', FILE, "pstate.is_next(_times) and _PREC_TIMES > min_precedence", "pstate.is_next(_times) and _PREC_TIMES >= min_precedence",
           expect=('R1', '/ then *'), quick=True),
    Mutant('slice-guard-weakened', FILE, "        if len(children) == 1 and children[0] is None:", "        if children[0] is None:", expect=('R6', 'map_slice')),
    Mutant('neutral-slice-guard-all-none', FILE, "        if len(children) == 1 and children[0] is None:", "        if len(children) == 1 and all(c is None for c in children):", expect=None),
    Mutant('power-exponent-not-converted', FILE, "        exponent=self.rec(expr.exponent, *args, **kwargs)\n", "        exponent=expr.exponent\n", expect=('R5', 'map_power')),
    Mutant('comparison-drops-right', FILE, "                right=self.rec(expr.right, *args, **kwargs))", "                right=self.rec(expr.left, *args, **kwargs))", expect=('R5', 'Comparison.right')),
    Mutant('plus-recursion-too-low', FILE,
           "        elif pstate.is_next(_plus) and _PREC_PLUS > min_precedence:\n            pstate.advance()\n            right_exp = self.parse_expression(pstate, _PREC_PLUS)",
           "        elif pstate.is_next(_plus) and _PREC_PLUS > min_precedence:\n            pstate.advance()\n            right_exp = self.parse_expression(pstate, _PREC_COMPARISON)",
           expect=('R1', '+ then'), also=[(FILE, "_PREC_TIMES, _PREC_PLUS, _PREC_CALL, _times, _plus", "_PREC_TIMES, _PREC_PLUS, _PREC_CALL, _times, _plus, _PREC_COMPARISON")],
           quick=True),
    Mutant('minus-guard-times', FILE,
           "        elif pstate.is_next(_minus) and _PREC_PLUS > min_precedence:",
           "        elif pstate.is_next(_minus) and _PREC_TIMES > min_precedence:", expect=('R1', 'then -')),
    Mutant('drop-product-fixup', FILE,
           "            elif type(right_exp) is pmbl.Product:\n                left_exp = pmbl.Product((sym.Product((left_exp, right_exp.children[0])), right_exp.children[1]))\n",
           "", expect=None),     # a*(b*c) is value-neutral under the Fortran licence
    Mutant('drop-quotient-fixup', FILE,
           "            if type(right_exp) is pmbl.Quotient:\n                left_exp = pmbl.Quotient(numerator=pmbl.Product((left_exp, right_exp.numerator)),\n                        denominator=right_exp.denominator)\n            # pylint: disable=unidiomatic-typecheck\n            elif type(right_exp) is pmbl.Product:",
           "            if type(right_exp) is pmbl.Product:", expect=('R1', '* then /')),
    Mutant('lex-drop-ge', FILE, "            (_f_greaterequal, pytools.lex.RE(r\"\\.ge\\.\", re.IGNORECASE)),\n", "", expect=('R3', 'lex:.ge.')),
    Mutant('unary-minus-binds-tightest', FILE, "left_exp = pmbl.Product((-1, self.parse_expression(pstate, _PREC_TIMES)))",
           "left_exp = pmbl.Product((-1, self.parse_expression(pstate, _PREC_CALL)))", expect=('R2', 'prefix-minus:**')),
    Mutant('not-override-removed', FILE, "        if pstate.is_next(self._f_not):\n            pstate.advance()\n            # In Fortran, .not. binds weaker than the relational operators: .not. a == b is .not. (a == b)\n            return pmbl.LogicalNot(self.parse_expression(pstate, _PREC_LOGICAL_AND))\n",
           "", expect=('R2', 'prefix-not:cmp')),
]
