"""
C25  Renaming, duplicating and removing items keeps the graph consistent.

The scheduler keys all cache maintenance on two class flags of a
transformation: ``renames_items`` (-> ``rekey_item_cache``) and ``creates_items``
(-> re-discovery, and only then is ``item_factory`` handed over at all).
 R1  manifest vs effect: a ``Transformation`` subclass under loki/transformations
     whose ``transform_*`` / ``plan_*`` methods (or helpers they hand the unit to)
     assign ``<unit>.name`` on the very unit they were applied to must declare
     ``renames_items = True`` -- otherwise the cache keeps the old name and the
     item no longer resolves its IR.
 R2  a subclass that reads ``kwargs['item_factory']`` / calls the item-creating
     factory API must declare ``creates_items`` or ``renames_items`` (the scheduler
     passes ``item_factory`` only under those flags).
 R3  the scheduler reacts to the flags: item_factory hand-over, rekey, re-discovery.
 R4  no lost update while re-keying: an attribute that ``rekey_item_cache``
     rewrites inside its loop over the renamed items (``self.seeds = tuple(...)``)
     must be rebuilt from the attribute's *current* value, not from a snapshot
     taken before the loop -- otherwise only the last rename survives.
 R5  suffix stripping is guarded by ``endswith``: ``derive_module_name`` cuts a
     name at the last occurrence (``rindex``) of a suffix; that is a suffix strip
     only if the name ends with it (``kernel_mod_dup`` is not ``kernel``).
Not decided: link-ability, correctness of rekey_item_cache itself.
"""
import ast

from sa import exprs as X
from sa.model import AnalysisError, ClassInfo, NOFOLD
from sa.mutate import Mutant

PROP = 'C25'

META = dict(
    technique='class-table analysis over all Transformation subclasses: effect extraction (assignment to <unit>.name on the '
              'applied unit, incl. one level of helper calls; use of the item factory) vs declared manifest flags; guard check '
              'of the scheduler reaction',
    level='Decides that the manifest flags the scheduler relies on are declared by every transformation that has the '
          'corresponding effect on the unit it is applied to, and that the scheduler performs cache re-keying/re-discovery '
          'exactly under those flags. Does NOT decide that written sources link.',
    note='Only in-place renames of the applied unit are effects; renaming a clone (unit.clone(name=...)) is not.',
    ref='DESIGN.md section 3, C25',
)

HOOKS = ('transform_subroutine', 'transform_module', 'transform_file', 'plan_subroutine', 'plan_module', 'plan_file')
# transformations that cannot be batch-processed at all (so no item cache can go stale)
NOT_BATCH = {
    'FortranPythonTransformation': "transform_subroutine requires a `path=` keyword that Scheduler.process_transformation never "
                                   "supplies (Path(None) raises): only usable stand-alone, where no item cache exists",
}
SCHEDULER_KWARGS = {'depths', 'build_args', 'plan_mode', 'item', 'items', 'sub_sgraph', 'role', 'mode', 'targets',
                    'item_factory', 'scheduler_config'}
FACTORY_API = ('get_or_create_item', 'get_or_create_item_from_item', 'create_from_ir', 'get_or_create_file_item_from_path',
               'get_or_create_file_item_from_source')


def _flag(m, cls, name):
    v, owner = m.class_attr(cls, name)
    if v is None:
        return False
    val = m.const(owner.module, v, owner)
    if val is NOFOLD:
        return 'dynamic'
    # instance-level override in __init__ (self.creates_items = True)
    return bool(val)


def _instance_sets(m, cls, name):
    for c in m.mro(cls):
        if isinstance(c, ClassInfo):
            for mem in c.members.values():
                if mem.kind == 'func':
                    for n in ast.walk(mem.node):
                        if isinstance(n, ast.Assign) and X.dotted_attr(n.targets[0]) == f'self.{name}' and ast.unparse(n.value) == 'True':
                            return True
    return False


def run(ctx):
    m = ctx.model
    ctx.rule('R1', 'in-place assignment to the applied unit\'s .name in transform_*/plan_* (or a helper receiving the unit) => '
                   'renames_items = True')
    ctx.rule('R2', "use of kwargs['item_factory'] / item-creating factory API => creates_items or renames_items")
    ctx.rule('R3', 'process_transformation: item_factory passed iff a flag is set; rekey_item_cache iff renames_items; '
                   '_discover iff creates_items')
    base = m.get_class('loki/batch/transformation.py', 'Transformation')
    mods = m.all_repo_modules(packages=('loki/transformations', 'loki/lint'))
    subs = m.subclasses(base, mods)
    ctx.floor('R1', 'Transformation subclasses', len(subs), 50)
    for c in subs:
        renames = _flag(m, c, 'renames_items') or _instance_sets(m, c, 'renames_items')
        creates = _flag(m, c, 'creates_items') or _instance_sets(m, c, 'creates_items')
        rename_sites, factory_sites = [], []
        for hook in HOOKS:
            f = m.member_function(c, hook)
            if f is None or f.cls is None or f.cls is base:
                continue
            unit = X.param_name(f)
            work = [(f, unit)]
            seen = {f.fqn}
            while work:
                fn, u = work.pop()
                aliases = {u}
                for n in ast.walk(fn.node):
                    if isinstance(n, ast.Assign) and isinstance(n.targets[0], ast.Name) and isinstance(n.value, ast.Name) \
                            and n.value.id in aliases:
                        aliases.add(n.targets[0].id)
                for n in ast.walk(fn.node):
                    if isinstance(n, ast.Assign):
                        for t in n.targets:
                            if isinstance(t, ast.Attribute) and t.attr == 'name' and isinstance(t.value, ast.Name) and t.value.id in aliases:
                                rename_sites.append(f'{fn.module.relpath}:{n.lineno} `{ast.unparse(n)}`')
                    if isinstance(n, ast.Call):
                        d = X.dotted_attr(n.func) or ''
                        if X.call_name_of(n) in FACTORY_API and 'item_factory' in d:
                            factory_sites.append(f'{fn.module.relpath}:{n.lineno} `{d}`')
                        if d.startswith('self.') and d.count('.') == 1:
                            callee = m.member_function(c, d.split('.')[1])
                            if callee is not None and callee.fqn not in seen and len(seen) < 12:
                                idx = [i for i, a in enumerate(n.args) if isinstance(a, ast.Name) and a.id in aliases]
                                seen.add(callee.fqn)
                                if idx:
                                    pn = X.param_name(callee, idx[0] + 1)
                                    if pn:
                                        work.append((callee, pn))
                                else:
                                    work.append((callee, '\0'))
                    if isinstance(n, ast.Subscript) and ast.unparse(n.value) == 'kwargs' and ast.unparse(n.slice) == "'item_factory'":
                        factory_sites.append(f'{fn.module.relpath}:{n.lineno} kwargs[item_factory]')
                    if isinstance(n, ast.Call) and X.dotted_attr(n.func) == 'kwargs.get' and n.args and ast.unparse(n.args[0]) == "'item_factory'":
                        factory_sites.append(f'{fn.module.relpath}:{n.lineno} kwargs.get(item_factory)')
        facts = {'renames_items': renames, 'creates_items': creates, 'rename_sites': rename_sites[:4], 'factory_sites': factory_sites[:4]}
        if rename_sites and not renames and c.name in NOT_BATCH:
            # the exemption is only valid while the hook really depends on a keyword the scheduler does not pass
            hk = m.member_function(c, 'transform_subroutine')
            needs = {n.args[0].value for n in ast.walk(hk.node) if isinstance(n, ast.Call) and X.dotted_attr(n.func) == 'kwargs.get'
                     and n.args and isinstance(n.args[0], ast.Constant)} | \
                    {n.slice.value for n in ast.walk(hk.node) if isinstance(n, ast.Subscript) and ast.unparse(n.value) == 'kwargs'
                     and isinstance(n.slice, ast.Constant)}
            if needs - SCHEDULER_KWARGS:
                ctx.judge('R1', c.name, nontrivial=False, facts={**facts, 'exempt': NOT_BATCH[c.name], 'extra_kwargs': sorted(needs - SCHEDULER_KWARGS)})
                continue
        if rename_sites and not renames:
            ctx.violation('R1', f'{c.name}:renames-without-flag', c.where,
                          f'{c.name} renames the unit it is applied to in place ({rename_sites[0]}) but does not declare '
                          f'renames_items: the scheduler does not re-key its item cache, the item keeps the old name and '
                          f'item.ir no longer resolves', facts=facts)
        else:
            ctx.judge('R1', c.name, nontrivial=bool(rename_sites), facts=facts)
        if factory_sites and not (renames or creates):
            ctx.violation('R2', f'{c.name}:factory-without-flag', c.where,
                          f'{c.name} uses the item factory ({factory_sites[0]}) but declares neither creates_items nor '
                          f'renames_items: the scheduler never passes item_factory to it', facts=facts)
        else:
            ctx.judge('R2', c.name, nontrivial=bool(factory_sites), facts=facts)
    # ---- R3
    pt = m.get_function('loki/batch/scheduler.py', 'Scheduler.process_transformation')
    def _is_handover(n):
        return isinstance(n, ast.Assign) and isinstance(n.targets[0], ast.Subscript) and isinstance(n.targets[0].slice, ast.Constant) \
            and n.targets[0].slice.value == 'item_factory'
    sites = X.nodes_with_guards(pt.node, lambda n: _is_handover(n)
                                or (isinstance(n, ast.Call) and X.dotted_attr(n.func) in ('self.rekey_item_cache', 'self._discover')))
    want = {"kwargs['item_factory']": 'transformation.renames_items or transformation.creates_items',
            'self.rekey_item_cache': 'transformation.renames_items', 'self._discover': 'transformation.creates_items'}
    found = {}
    for n, guards in sites:
        k = "kwargs['item_factory']" if isinstance(n, ast.Assign) else X.dotted_attr(n.func)
        found[k] = guards
    for k, g in want.items():
        gs = found.get(k)
        (ctx.judge('R3', k, facts={'guards': gs}) if gs and gs[-1] == g else
         ctx.violation('R3', f'process_transformation:{k}', pt.where, f'{k} happens under {gs}, expected `{g}`'))

    # ---- R4
    ctx.rule('R4', 'Scheduler.rekey_item_cache: an attribute assigned inside the loop over renamed keys is rebuilt from itself, not from '
                   'a local bound to it before the loop')
    ctx.rule('R5', 'DependencyTransformation.derive_module_name: every cut at rindex(<suffix>) is guarded by endswith(<suffix>)')
    rk = m.get_function('loki/batch/scheduler.py', 'Scheduler.rekey_item_cache')
    n4 = 0
    for lp in [x for x in ast.walk(rk.node) if isinstance(x, ast.For)]:
        for a_ in ast.walk(lp):
            if isinstance(a_, ast.Assign) and isinstance(a_.targets[0], ast.Attribute) and ast.unparse(a_.targets[0]).startswith('self.') \
                    and isinstance(a_.value, ast.Call) and a_.value.args and isinstance(a_.value.args[0], (ast.GeneratorExp, ast.ListComp)):
                attr = ast.unparse(a_.targets[0])
                src_ = ast.unparse(a_.value.args[0].generators[0].iter)
                n4 += 1
                inst = f'rekey_item_cache:{attr}'
                stale = [n_ for n_ in ast.walk(rk.node) if isinstance(n_, ast.Assign) and isinstance(n_.targets[0], ast.Name)
                         and n_.targets[0].id == src_ and ast.unparse(n_.value) == attr and n_.lineno < lp.lineno]
                if src_ == attr:
                    ctx.judge('R4', inst, facts={'rebuilt_from': src_})
                elif stale:
                    ctx.violation('R4', f'{inst}:stale-snapshot', f'{rk.module.relpath}:{a_.lineno}',
                                  f'`{attr}` is rebuilt inside the loop from `{src_}`, a copy taken before the loop: each iteration starts from '
                                  f'the original value, so when several entries are renamed in one pass only the last rename survives')
                else:
                    raise AnalysisError(f'rekey_item_cache: {attr} is rebuilt from `{src_}`: unrecognised')
    ctx.floor('R4', 'attributes rebuilt inside the rename loop', n4, 1)
    dm = m.get_function('loki/transformations/build_system/dependency.py', 'DependencyTransformation.derive_module_name')
    n5 = 0
    for call, guards in X.nodes_with_guards(dm.node, lambda n: isinstance(n, ast.Call) and isinstance(n.func, ast.Attribute)
                                            and n.func.attr in ('rindex', 'index', 'find', 'rfind')):
        n5 += 1
        suf = ast.unparse(call.args[0]) if call.args else '?'
        inst = f'derive_module_name:{call.func.attr}({suf})'
        if call.func.attr in ('index', 'find'):
            ctx.violation('R5', f'derive_module_name:cut-at-first-occurrence', f'{dm.module.relpath}:{call.lineno}',
                          f'the suffix {suf} is located with `.{call.func.attr}(`, i.e. at its *first* occurrence, although only a trailing suffix '
                          f'is to be removed: cloud_model_mod is cut to cloud and receives the same derived name as cloud_mod')
        elif any(f'.endswith({suf})' in g and not g.startswith('not (') for g in guards):
            ctx.judge('R5', inst, facts={'guards': guards})
        else:
            ctx.violation('R5', f'derive_module_name:rindex({suf}):unguarded', f'{dm.module.relpath}:{call.lineno}',
                          f'the name is cut at the last occurrence of {suf} under guards {guards}, none of which tests that the name *ends* '
                          f'with it: kernel_mod_dup is reduced to kernel and collides with the name derived for kernel_mod')
    ctx.floor('R5', 'suffix cuts in derive_module_name', n5, 2)


FP = 'loki/transformations/transpile/fortran_python.py'
MUTANTS = [
    Mutant('suffix-cut-at-first-occurrence', 'loki/transformations/build_system/dependency.py', "            idx = modname.lower().rindex(self.module_suffix.lower())",
           "            idx = modname.lower().index(self.module_suffix.lower())", expect=('R5', 'cut-at-first-occurrence')),
    Mutant('seeds-from-snapshot', 'loki/batch/scheduler.py', "            if matched_keys := self.config.match_item_keys(old_name, self.seeds):",
           "            if matched_keys := self.config.match_item_keys(old_name, seeds):", expect=('R4', 'stale-snapshot'),
           also=[('loki/batch/scheduler.py', "        for old_name, new_name in renamed_keys.items():\n            if matched_keys := self.config.match_item_keys(old_name, self.config.routines):",
                  "        seeds = self.seeds\n        for old_name, new_name in renamed_keys.items():\n            if matched_keys := self.config.match_item_keys(old_name, self.config.routines):"),
                 ('loki/batch/scheduler.py', "                    for seed in self.seeds\n", "                    for seed in seeds\n")]),
    Mutant('module-suffix-anywhere', 'loki/transformations/build_system/dependency.py',
           "        if self.module_suffix and modname.lower().endswith(self.module_suffix.lower()):", "        if self.module_suffix and self.module_suffix.lower() in modname.lower():",
           expect=('R5', 'unguarded')),
    Mutant('dependency-drops-flag', 'loki/transformations/build_system/dependency.py', "    renames_items = True\n    creates_items = True\n",
           "    creates_items = True\n", expect=('R1', 'DependencyTransformation'), quick=True),
    Mutant('duplicate-drops-flag', 'loki/transformations/dependency.py', "    creates_items = True\n    reverse_traversal = True\n\n    def __init__(self, duplicate_kernels",
           "    reverse_traversal = True\n\n    def __init__(self, duplicate_kernels", expect=('R2', 'DuplicateKernel')),
    Mutant('scheduler-rekey-on-creates', 'loki/batch/scheduler.py', "        if transformation.renames_items:\n            self.rekey_item_cache()",
           "        if transformation.creates_items:\n            self.rekey_item_cache()", expect=('R3', 'rekey_item_cache')),
    Mutant('fortran-python-becomes-batchable', FP, "        path = Path(kwargs.get('path'))\n", "        path = Path(kwargs['build_args']['output_dir'])\n",
           expect=('R1', 'FortranPythonTransformation')),
]
