"""
C03  Conservative output reproduces unmodified source verbatim.

 R1  conservative handler coverage: visitor lookup is by *class name first*, so
     for every IR node class (and program unit) the handler dispatched in
     ``FortranCodegenConservative`` must be one defined by that class whose
     first statement is the VALID-source guard returning the original text.
     A ``visit_X`` inherited from ``FortranCodegen`` bypasses the guard and
     regenerates the text of an untouched node.
 R2  source invalidation can observe removals: the condition that decides
     whether a rebuilt node keeps its (valid) source in ``Transformer._rebuild``
     must compare against the *original* children; a test over the new
     children alone cannot notice a child that was dropped.
 R3  ``fgen(..., conservative=True)`` selects the conservative visitor and the
     public writers forward the flag.
 R4  in-place structural mutators invalidate: a method of an IR node class that
     replaces one of its traversable fields via ``self._update(<field>=...)``
     must also reset / invalidate the node's ``source`` -- otherwise the node
     stays VALID and the conservative backend prints its stale text.
 R5  program-unit setters that mutate ``self.spec`` / ``self.body`` in place are
     followed, unconditionally, by a rebuild of that section (which marks it
     INVALID_CHILDREN) or by an explicit invalidation.
 R6  monotone invalidation: a node-level ``source.invalidate()`` is never
     guarded by the source still being valid (INVALID_CHILDREN must still be
     upgraded to INVALID_NODE when the node's own expressions change).
 R7  the whole original text is only for VALID nodes: a conservative handler
     returns ``o.source.string`` unchanged only under the guard that the status
     *is* VALID.  A node marked INVALID_CHILDREN / INVALID_NODE has been changed
     (children removed, reordered, replaced), so its stored text is stale by
     definition, whatever the status of the remaining children.
Not decided: verbatim equality of whole unmodified files (holds through the
top-level source object); behaviour of the text surgery for INVALID_* nodes.
"""
import ast

from sa import dispatch as D, exprs as X
from sa.model import AnalysisError
from sa.mutate import Mutant

PROP = 'C03'

META = dict(
    technique='static visitor dispatch (name-first lookup) over all IR node classes + recognition of the VALID-guard idiom; '
              'guard-expression analysis of the source-invalidation site',
    level='Decides the structural part of "every node whose source is still marked valid is emitted with its original '
          'text": all 47 IR node classes + Subroutine/Function/Module are dispatched to a conservative handler that starts '
          'with the VALID guard; the invalidation predicate can see removed children; the conservative flag is wired '
          'through fgen/to_fortran/write. Does NOT decide the text surgery for invalidated nodes nor whole-file equality.',
    note='The guard idiom is recognised syntactically (two accepted forms listed in the rule module).',
    ref='DESIGN.md section 3, C03',
)

CON = 'loki/backend/fgencon.py'
GUARD = 'o.source and o.source.status == SourceStatus.VALID'


def guard_ok(f):
    """First statement is `if <GUARD>:` whose body returns text derived from o.source only."""
    st = X.first_stmt(f.node)
    if not isinstance(st, ast.If) or ast.unparse(st.test) != GUARD:
        return False, 'first statement is not the VALID-source guard'
    rets = [n for s in st.body for n in ast.walk(s) if isinstance(n, ast.Return)]
    if not rets:
        return False, 'guard body does not return'
    mod = ast.Module(body=st.body, type_ignores=[])
    for n in ast.walk(mod):
        if isinstance(n, ast.Call) and (X.dotted_attr(n.func) or '').startswith('self.'):
            return False, f'guard body regenerates text via {ast.unparse(n.func)}'
    taint, flows = X.attr_flows(mod, 'o')
    for r in rets:
        fl = flows(r.value)
        if fl - {'source'} or not fl:
            return False, f'guard returns {ast.unparse(r.value)} which is not derived from o.source alone'
    # the last statement of the guard body must be a return (no fall-through into regeneration)
    if not isinstance(st.body[-1], ast.Return):
        return False, 'guard body can fall through'
    return True, ''


def run(ctx):
    m = ctx.model
    ctx.rule('R1', 'for every IR node class and program-unit kind, dispatch in FortranCodegenConservative selects a method '
                   'defined in FortranCodegenConservative whose first statement is '
                   f'`if {GUARD}: return <text from o.source>`')
    ctx.rule('R2', 'the guard of source.invalidate(children=True) in Transformer._rebuild refers to the original children '
                   '(o.children) and not only to the rebuilt ones')
    ctx.rule('R3', 'fgen(conservative=True) instantiates FortranCodegenConservative; ProgramUnit.to_fortran, '
                   'Sourcefile.to_fortran and Sourcefile.write forward their conservative argument')
    C = m.get_class(CON, 'FortranCodegenConservative')
    F = m.get_class('loki/backend/fgen.py', 'FortranCodegen')
    if F not in m.mro(C):
        raise AnalysisError('FortranCodegenConservative no longer derives from FortranCodegen')
    handlers = D.visitor_handlers(m, C)
    nodes = D.ir_node_classes(m, concrete_only=True)
    units = D.program_unit_classes(m)
    ctx.floor('R1', 'IR node classes + program units', len(nodes) + len(units), 45)
    cache = {}
    for c in nodes + units:
        f, key = D.visitor_dispatch(m, C, c, handlers)
        inst = c.name
        if f is None:
            ctx.violation('R1', inst, C.where, f'no handler for {c.name} in FortranCodegenConservative')
            continue
        facts = {'handler': f.qualname, 'key': key}
        if f.cls is not C:
            ctx.violation('R1', inst, f.where,
                          f'{c.name} is printed by {f.qualname} (selected by name {key!r} before the conservative '
                          f'visit_Node is considered): the VALID-source check is bypassed and an untouched {c.name} is re-generated',
                          facts=facts)
            continue
        if f.fqn not in cache:
            cache[f.fqn] = guard_ok(f)
        ok, why = cache[f.fqn]
        if ok:
            ctx.judge('R1', inst, facts=facts)
        else:
            ctx.violation('R1', f'{f.qualname}:guard', f.where, f'{f.qualname} (handler for {c.name}): {why}', facts=facts,
                          instance=inst)

    # ---- R2
    T = m.get_class('loki/ir/transformer.py', 'Transformer')
    rb = T.function('_rebuild')
    if rb is None:
        raise AnalysisError('Transformer._rebuild vanished')
    inv = []

    def visit(stmts, guards):
        for st in stmts:
            if isinstance(st, ast.If):
                visit(st.body, guards + [st.test])
                visit(st.orelse, guards)
            else:
                for n in ast.walk(st):
                    if isinstance(n, ast.Call) and isinstance(n.func, ast.Attribute) and n.func.attr == 'invalidate':
                        inv.append((n, list(guards)))
    visit(rb.node.body, [])
    if not inv:
        raise AnalysisError('Transformer._rebuild: no source.invalidate(...) site found')
    par_o = X.param_name(rb, 1)
    par_children = X.param_name(rb, 2)
    for call, guards in inv:
        gtxt = ' and '.join(ast.unparse(g) for g in guards)
        refs_new = any(isinstance(n, ast.Name) and n.id == par_children for g in guards for n in ast.walk(g))
        orig_attrs = set()
        for g in guards:
            orig_attrs |= X._attrs_of_var(g, par_o)
        refs_orig = bool(orig_attrs & {'children', '_traversable', 'body'})
        facts = {'guard': gtxt, 'reads_new_children': refs_new, 'reads_original': sorted(orig_attrs)}
        if refs_new and not refs_orig:
            ctx.violation('R2', 'Transformer._rebuild:invalidate-guard', f'{rb.module.relpath}:{call.lineno}',
                          'the source of a rebuilt node is invalidated only by looking at the new children '
                          f'({gtxt}); a node whose child was removed (mapper value None) keeps a VALID source and is '
                          'emitted with its stale original text', facts=facts)
        else:
            ctx.judge('R2', 'Transformer._rebuild:invalidate-guard', facts=facts)
        # contradiction (informational): predicate applied to a Node while it requires a Source
        for g in guards:
            for n in ast.walk(g):
                if isinstance(n, ast.BoolOp) and isinstance(n.op, ast.And):
                    txt = [ast.unparse(v) for v in n.values]
                    if any(t.startswith('isinstance(') and ', Node)' in t for t in txt) and \
                            any('is_source_valid(' in t and '.source' not in t for t in txt):
                        ctx.note('Transformer._rebuild applies is_source_valid() to a Node (it returns False for anything '
                                 'but a Source): every node with node children is marked INVALID_CHILDREN on any rebuild '
                                 '(over-invalidation; safe for staleness, informational)')

    # ---- R3
    fg = m.get_function('loki/backend/fgen.py', 'fgen')
    ok = False
    for n in ast.walk(fg.node):
        if isinstance(n, ast.If) and ast.unparse(n.test) == 'conservative':
            ok = any(isinstance(c, ast.Call) and X.call_name_of(c) == 'FortranCodegenConservative'
                     for s in n.body for c in ast.walk(s))
    (ctx.judge('R3', 'fgen:conservative') if ok else
     ctx.violation('R3', 'fgen:conservative', fg.where, 'fgen(conservative=True) does not use FortranCodegenConservative'))
    for rel, qn in (('loki/program_unit.py', 'ProgramUnit.to_fortran'), ('loki/sourcefile.py', 'Sourcefile.to_fortran'),
                    ('loki/sourcefile.py', 'Sourcefile.write')):
        f = m.get_function(rel, qn)
        fw = False
        for n in ast.walk(f.node):
            if isinstance(n, ast.Call) and X.call_name_of(n) in ('fgen', 'to_fortran'):
                if any(k.arg == 'conservative' and ast.unparse(k.value) == 'conservative' for k in n.keywords) or \
                        any(ast.unparse(a) == 'conservative' for a in n.args):
                    fw = True
        (ctx.judge('R3', qn) if fw else
         ctx.violation('R3', qn, f.where, f'{qn} does not forward its conservative argument to the backend'))

    # ---- R4
    ctx.rule('R4', 'IR node methods calling self._update(<traversable field>=...) also pass source=... or invalidate self.source')
    from sa import dispatch as D2
    nsite = 0
    for c in D2.ir_node_classes(m):
        if c.name == 'PragmaRegion':
            continue    # synthesised by attach_pragma_regions without a source object: the VALID guard never applies
        # only fields that hold child *nodes*: replacing them adds/removes statements (expression-only rewrites such as
        # CallStatement.sort_kwarguments keep the meaning of the original text)
        trav = {n for n, (a, d, o) in m.dataclass_fields(c).items()
                if n in D2.traversable(m, c) and D2.annotation_mentions(a, {'Node'})}
        for mem in c.members.values():
            if mem.kind != 'func' or mem.name.startswith('__') or mem.name in ('_update', '_rebuild'):
                continue
            fn = mem.node
            ups = [n for n in ast.walk(fn) if isinstance(n, ast.Call) and X.dotted_attr(n.func) == 'self._update'
                   and any(k.arg in trav for k in n.keywords)]
            if not ups:
                continue
            nsite += 1
            handles = any(k.arg == 'source' for u in ups for k in u.keywords) or \
                any(isinstance(n, ast.Call) and (X.dotted_attr(n.func) or '').endswith('source.invalidate') for n in ast.walk(fn))
            inst = f'{c.name}.{mem.name}'
            if handles:
                ctx.judge('R4', inst)
            else:
                ctx.violation('R4', inst, f'{c.module.relpath}:{fn.lineno}',
                              f'{inst} replaces {[k.arg for k in ups[0].keywords]} in place but leaves self.source untouched: the node '
                              f'stays VALID and conservative output prints its old text (the modification is lost)')
    ctx.floor('R4', 'in-place child-list mutator methods on IR nodes', nsite, 3)

    # ---- R5
    ctx.rule('R5', 'functions in program_unit/subroutine/module/function that call self.<section>.append/prepend/insert are '
                   'followed by an unconditional `self.<section> = <Transformer>.visit(self.<section>)` or an invalidation')
    n5 = 0
    for rel in ('loki/program_unit.py', 'loki/subroutine.py', 'loki/module.py', 'loki/function.py'):
        mod = m.module_by_path(rel)
        for c in mod.classes.values():
            for mem in c.members.values():
                if mem.kind != 'func':
                    continue
                fn = mem.node
                muts = [n for n in ast.walk(fn) if isinstance(n, ast.Call) and isinstance(n.func, ast.Attribute)
                        and n.func.attr in ('append', 'prepend', 'insert')
                        and (X.dotted_attr(n.func.value) or '') in ('self.spec', 'self.body', 'self.contains', 'self.docstring')]
                for mu in muts:
                    n5 += 1
                    sec = X.dotted_attr(mu.func.value)
                    ok = False
                    for st in fn.body:
                        if st.lineno <= mu.lineno:
                            continue
                        txt = ast.unparse(st)
                        if isinstance(st, ast.Assign) and ast.unparse(st.targets[0]) == sec and f'.visit({sec})' in txt:
                            ok = True
                        if '.invalidate(' in txt and not isinstance(st, ast.If):
                            ok = True
                    inst = f'{c.name}.{mem.name}:{sec}.{mu.func.attr}'
                    if ok:
                        ctx.judge('R5', inst)
                    else:
                        ctx.violation('R5', inst, f'{mod.relpath}:{mu.lineno}',
                                      f'{c.name}.{mem.name} adds a node to {sec} in place and no unconditional rebuild/invalidation of '
                                      f'{sec} follows: the section keeps a VALID source and conservative output omits the new node')
    ctx.floor('R5', 'in-place section mutations in program-unit setters', n5, 2)

    # ---- R6
    ctx.rule('R6', 'no node-level `.invalidate()` call (children not set) is guarded by is_valid()/status == VALID of that source')
    n6 = 0
    for rel in ('loki/ir/expr_visitors.py', 'loki/ir/transformer.py', 'loki/lint/utils.py'):
        mod = m.module_by_path(rel)
        for fnode in [n for n in ast.walk(mod.tree) if isinstance(n, (ast.FunctionDef, ast.AsyncFunctionDef))]:
            sites = X.nodes_with_guards(fnode, lambda n: isinstance(n, ast.Call) and isinstance(n.func, ast.Attribute)
                                        and n.func.attr == 'invalidate')
            for call, guards in sites:
                node_level = not any(k.arg == 'children' for k in call.keywords) and not call.args
                n6 += 1
                inst = f'{fnode.name}:{ast.unparse(call)}'
                gt = ' and '.join(guards)
                if node_level and ('is_valid()' in gt or 'SourceStatus.VALID' in gt or 'is_source_valid(' in gt):
                    ctx.violation('R6', inst, f'{mod.relpath}:{call.lineno}',
                                  f'`{ast.unparse(call)}` only runs while the source is still valid ({gt}): a node already marked '
                                  f'INVALID_CHILDREN is not upgraded to INVALID_NODE when its own expressions change, and its stale '
                                  f'header line is reused')
                else:
                    ctx.judge('R6', inst, nontrivial=node_level, facts={'guards': guards})
    ctx.floor('R6', 'invalidate call sites', n6, 6)

    # ---- R7
    ctx.rule('R7', 'in FortranCodegenConservative, `return o.source.string` (the whole stored text) is control dependent on '
                   '`o.source.status == SourceStatus.VALID`')
    n7 = 0
    for mname in sorted(k for k, v in C.members.items() if v.kind == 'func' and k.startswith('visit_')):
        mem = C.function(mname)
        par = X.param_name(mem)
        whole = {f'{par}.source.string'} | set(X.names_assigned_from(mem.node, f'{par}.source.string'))
        whole = {w for w in whole if w == f'{par}.source.string' or all(
            ast.unparse(a.value) == f'{par}.source.string' for a in ast.walk(mem.node)
            if isinstance(a, ast.Assign) and any(isinstance(t, ast.Name) and t.id == w for t in a.targets))}
        for r, guards in X.nodes_with_guards(mem.node, lambda n: isinstance(n, ast.Return) and n.value is not None, early=True):
            if ast.unparse(r.value) not in whole:
                continue
            n7 += 1
            pos = [g for g in guards if not g.startswith('not (') and f'{par}.source.status == SourceStatus.VALID' in g
                   and ' or ' not in g]
            inst = f'{mem.name}:return-whole-source'
            if pos:
                ctx.judge('R7', inst, nontrivial=False)
            else:
                ctx.violation('R7', inst, f'{mem.module.relpath}:{r.lineno}',
                              f'{mem.qualname} returns the stored text of the node under `{" and ".join(guards) or "no guard"}`, i.e. also for a '
                              f'node whose source is no longer VALID: removed, reordered or duplicated children are not reflected in the output')
    ctx.floor('R7', 'whole-text returns in conservative handlers', n7, 8)


MUTANTS = [
    Mutant('whole-text-for-invalid-children', CON,
           "    def visit_Section(self, o, *args, **kwargs):\n        if o.source and o.source.status == SourceStatus.VALID:\n            return o.source.string\n",
           "    def visit_Section(self, o, *args, **kwargs):\n        if o.source and o.source.status == SourceStatus.VALID:\n            return o.source.string\n"
           "        if o.source and o.source.status == SourceStatus.INVALID_CHILDREN:\n            if o.body and all(n.source and n.source.status == SourceStatus.VALID for n in o.body):\n                return o.source.string\n",
           expect=('R7', 'visit_Section:return-whole-source')),
    Mutant('drop-conservative-override', CON,
           "    def visit_Import(self, o, *args, **kwargs):\n        if o.source and o.source.status == SourceStatus.VALID:\n            return o.source.string\n        return super().visit_Import(o, *args, **kwargs)\n",
           "", expect=('R1', 'Import'), quick=True),
    Mutant('guard-wrong-status', CON,
           "    def visit_Section(self, o, *args, **kwargs):\n        if o.source and o.source.status == SourceStatus.VALID:",
           "    def visit_Section(self, o, *args, **kwargs):\n        if o.source and o.source.status != SourceStatus.INVALID_NODE:",
           expect=('R1', 'visit_Section:guard')),
    Mutant('guard-after-work', CON,
           "    def visit_CallStatement(self, o, *args, **kwargs):\n        if o.source and o.source.status == SourceStatus.VALID:\n            return o.source.string\n",
           "    def visit_CallStatement(self, o, *args, **kwargs):\n        if o.pragma:\n            return super().visit_CallStatement(o, *args, **kwargs)\n        if o.source and o.source.status == SourceStatus.VALID:\n            return o.source.string\n",
           expect=('R1', 'visit_CallStatement:guard')),
    Mutant('fgen-ignores-flag', 'loki/backend/fgen.py', "    if conservative:\n", "    if conservative and style is not None:\n",
           expect=('R3', 'fgen:conservative')),
    Mutant('write-drops-flag', 'loki/sourcefile.py',
           "source = self.to_fortran(conservative, cuf, style=style) if source is None else source",
           "source = self.to_fortran(cuf=cuf, style=style) if source is None else source", expect=('R3', 'Sourcefile.write')),
    Mutant('invalidate-only-if-valid', 'loki/ir/expr_visitors.py',
           "        if kwargs.get('source') and o != new:\n            kwargs['source'].invalidate()",
           "        if kwargs.get('source') and kwargs['source'].is_valid() and o != new:\n            kwargs['source'].invalidate()",
           expect=('R6', 'visit_Expression')),
    Mutant('variables-setter-skips-rebuild', 'loki/program_unit.py',
           "        self.spec = Transformer(dmap).visit(self.spec)\n\n    @property\n    def variable_map",
           "        if dmap:\n            self.spec = Transformer(dmap).visit(self.spec)\n\n    @property\n    def variable_map",
           expect=('R5', 'variables')),
    Mutant('repair-section-append', 'loki/ir/nodes/internal_nodes.py', "        self._update(body=self.body + as_tuple(node))",
           "        self._update(body=self.body + as_tuple(node), source=None)", count=2, expect=None),
    Mutant('neutral-new-conservative-handler', CON,
           "    def visit_Section(self, o, *args, **kwargs):\n",
           "    def visit_Allocation(self, o, *args, **kwargs):\n        if o.source and o.source.status == SourceStatus.VALID:\n            return o.source.string\n        return super().visit_Allocation(o, *args, **kwargs)\n\n    def visit_Section(self, o, *args, **kwargs):\n",
           expect=None),
    Mutant('repair-invalidate-guard', 'loki/ir/transformer.py',
           "if any(isinstance(c, Node) and not is_source_valid(c) for c in flatten(children)):",
           "if len(flatten(children)) != len(flatten(o.children)) or any(isinstance(c, Node) and not is_source_valid(c.source) for c in flatten(children)):",
           expect=None),
]
