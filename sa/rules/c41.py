"""
C41  Built-in transformations leave a well-formed IR (scope of created symbols only).

"Every symbol in the program unit resolves through the unit's own scope chain"
has a necessary condition that is visible wherever a transformation *adds*
symbols to a unit:
 R1  symbols created for a unit are scoped to that unit: in every statement
     ``U.arguments = / += E`` or ``U.variables = / += E`` under
     ``loki/transformations``, each symbol constructed on the way to ``E`` with an
     explicit ``scope=S`` (``x.clone(scope=S, ...)``, ``Variable(..., scope=S)``)
     has ``S`` denoting ``U`` (same expression, or an alias bound to it).  A
     symbol scoped to another unit (typically the caller while the callee's
     signature is extended) makes the callee's declaration resolve through a
     foreign symbol table, and writes the new type -- e.g. ``intent(in)`` -- into
     that foreign table.
 R2  imports are eliminated against the complete use set: in
     ``find_and_eliminate_unused_imports`` the set handed to
     ``eliminate_unused_imports`` is not augmented afterwards, and the
     contributions of the contained procedures (host association) are merged
     into it before -- a host import used only by an internal procedure is
     otherwise removed.
 R4  one case folding: every name ``used_names_from_symbol`` returns passes through
     its ``modifier`` (default ``str.lower``), recursion hands the modifier on, and
     ``eliminate_unused_imports`` looks imported names up folded the same way.
 R5  a whole import is removed only when its *own* symbol list ran empty: the
     ``imprt_map[im] = None`` of ``eliminate_unused_imports`` lies on a path where
     ``im.symbols`` was non-empty (a blanket ``USE mod`` has ``()``, not ``None``).
 R3  accumulate, then consume: in ``extract_internal_procedure`` the list of host
     variables that become dummies of the extracted routine is final before the
     kinds / derived types / imports needed by those dummies are derived from
     it (no statement adds to the list after a statement that reads the
     ``.type`` of its elements), and every list the new dummies are drawn from is
     read by each of those statements.
Not decided: that every *used* variable is declared / imported in general, that the
generated code is accepted by frontend and compiler, symbols created without an
explicit scope (they are attached when the unit rescopes).
"""
import ast

from sa.model import AnalysisError
from sa.mutate import Mutant

PROP = 'C41'

META = dict(
    technique='def-use analysis over all transformations: for each extension of a unit\'s argument / variable list, the scope '
              'expressions of the symbol constructors that flow into it are compared with the receiving unit (aliases resolved)',
    level='Decides one structural necessary condition of scope well-formedness: symbols a transformation creates with an explicit '
          'scope and adds to a unit are scoped to that very unit (about 40 sites). Does NOT decide declaredness of used variables or '
          'acceptance of the generated code by a compiler.',
    note='Claimed for the scope-chain clause only; the rule found one genuine defect (ExplicitArgumentArrayShapeTransformation), repaired.',
    ref='DESIGN.md section 3, C41',
)

ATTRS = ('arguments', 'variables')


def _bindings(fn, name):
    out = []
    for a in ast.walk(fn):
        if isinstance(a, ast.Assign) and any(isinstance(t, ast.Name) and t.id == name for t in a.targets):
            out.append(a.value)
        elif isinstance(a, ast.AugAssign) and isinstance(a.target, ast.Name) and a.target.id == name:
            out.append(a.value)
        elif isinstance(a, ast.Call) and isinstance(a.func, ast.Attribute) and a.func.attr in ('append', 'extend') \
                and isinstance(a.func.value, ast.Name) and a.func.value.id == name:
            out += list(a.args)
    return out


def _flow(fn, e, depth=0, seen=None):
    """expressions that may flow into ``e`` through locals of ``fn`` (flow-insensitive, bounded)"""
    seen = seen if seen is not None else set()
    out = [e]
    if depth > 3:
        return out
    for n in ast.walk(e):
        if isinstance(n, ast.Name) and n.id not in seen:
            seen.add(n.id)
            for v in _bindings(fn, n.id):
                out += _flow(fn, v, depth + 1, seen)
    return out


def _aliases(fn, recv):
    """texts denoting the same unit as the receiver expression ``recv``"""
    al = {recv}
    changed = True
    while changed:
        changed = False
        for a in ast.walk(fn):
            if isinstance(a, ast.Assign) and len(a.targets) == 1 and isinstance(a.targets[0], ast.Name):
                t, v = a.targets[0].id, ast.unparse(a.value)
                if v in al and t not in al:
                    al.add(t); changed = True
                if t in al and v not in al and isinstance(a.value, (ast.Name, ast.Attribute)):
                    al.add(v); changed = True
    return al


def run(ctx):
    m = ctx.model
    ctx.rule('R1', 'U.arguments / U.variables (+)= E: every symbol constructor with an explicit scope=S that flows into E has S == U (or an alias)')
    n = nsc = 0
    for mod in [x for x in m.all_repo_modules(packages=('loki',)) if x.relpath.startswith('loki/transformations/')]:
        for fn in [x for x in ast.walk(mod.tree) if isinstance(x, (ast.FunctionDef, ast.AsyncFunctionDef))]:
            for st in ast.walk(fn):
                tgt = val = None
                if isinstance(st, ast.Assign) and isinstance(st.targets[0], ast.Attribute) and st.targets[0].attr in ATTRS:
                    tgt, val = st.targets[0], st.value
                elif isinstance(st, ast.AugAssign) and isinstance(st.target, ast.Attribute) and st.target.attr in ATTRS:
                    tgt, val = st.target, st.value
                if tgt is None:
                    continue
                n += 1
                recv = ast.unparse(tgt.value)
                scopes = {}
                for e in _flow(fn, val):
                    for c in ast.walk(e):
                        if isinstance(c, ast.Call):
                            for k in c.keywords:
                                if k.arg == 'scope' and not (isinstance(k.value, ast.Constant) and k.value.value is None):
                                    scopes.setdefault(ast.unparse(k.value), c.lineno)
                if not scopes:
                    continue
                nsc += 1
                al = _aliases(fn, recv)
                inst = f'{mod.relpath}:{fn.name}:{recv}.{tgt.attr}'
                foreign = {s: ln for s, ln in scopes.items() if s not in al}
                if not foreign:
                    ctx.judge('R1', inst, facts={'scopes': sorted(scopes)})
                elif len(foreign) < len(scopes):
                    raise AnalysisError(f'{inst} at line {st.lineno}: symbol constructors with scopes {sorted(scopes)} may flow into the list of '
                                        f'`{recv}`; the flow-insensitive analysis cannot tell which ones do')
                else:
                    s0 = sorted(foreign)[0]
                    ctx.violation('R1', f'{fn.name}:{recv}.{tgt.attr}:foreign-scope', f'{mod.relpath}:{foreign[s0]}',
                                  f'symbols added to `{recv}.{tgt.attr}` (line {st.lineno}) are created with `scope={s0}`, which is not `{recv}`: '
                                  f'the new declaration of `{recv}` resolves through the symbol table of `{s0}`, and the type given to the clone '
                                  f'(e.g. its intent) is written into that foreign table', instance=inst)
    ctx.floor('R1', 'extensions of argument / variable lists', n, 60)
    ctx.floor('R1', 'extensions with explicitly scoped new symbols', nsc, 30)
    run_r23(ctx)


def _mutations(fn, V):
    """statements that (re)define or grow the local collection ``V``"""
    out = []
    for a in ast.walk(fn):
        if isinstance(a, ast.Assign) and any(isinstance(t, ast.Name) and t.id == V for t in a.targets):
            out.append(a)
        elif isinstance(a, ast.AugAssign) and isinstance(a.target, ast.Name) and a.target.id == V:
            out.append(a)
        elif isinstance(a, ast.Expr) and isinstance(a.value, ast.Call) and isinstance(a.value.func, ast.Attribute) \
                and a.value.func.attr in ('append', 'extend', 'add', 'update', 'insert') and isinstance(a.value.func.value, ast.Name) \
                and a.value.func.value.id == V:
            out.append(a)
    return out


def _simple_stmts(fn):
    for n in ast.walk(fn):
        if isinstance(n, (ast.Assign, ast.AugAssign, ast.Expr, ast.Return, ast.AnnAssign)):
            yield n


def run_r23(ctx):
    from sa import exprs as X
    m = ctx.model
    ctx.rule('R2', 'find_and_eliminate_unused_imports: the use set is complete (own symbols + every member) when eliminate_unused_imports is called')
    ctx.rule('R3', 'extract_internal_procedure: the list of variables turned into dummies is final before imports / kinds / types are derived from it')
    U = 'loki/transformations/utilities.py'
    f = m.get_function(U, 'find_and_eliminate_unused_imports')
    calls = [st for st in _simple_stmts(f.node) if isinstance(st, ast.Expr) and isinstance(st.value, ast.Call)
             and X.call_name_of(st.value) == 'eliminate_unused_imports']
    if len(calls) != 1 or len(calls[0].value.args) < 2 or not isinstance(calls[0].value.args[1], ast.Name):
        raise AnalysisError('find_and_eliminate_unused_imports: the call eliminate_unused_imports(routine, <set>) was not found')
    S = calls[0].value.args[1].id
    muts = _mutations(f.node, S)
    late = [a for a in muts if a.lineno > calls[0].lineno]
    rec = [a for a in muts if f.name in ast.unparse(a) and any(isinstance(l, ast.For) and 'members' in ast.unparse(l.iter) and a in list(ast.walk(l))
                                                                for l in ast.walk(f.node))]
    if late:
        ctx.violation('R2', 'find_and_eliminate_unused_imports:eliminated-before-complete', f'{U}:{calls[0].lineno}',
                      f'`{ast.unparse(calls[0])}` runs before `{ast.unparse(late[0])[:80]}` (line {late[0].lineno}): imports of the host that only a '
                      f'contained procedure uses (host association) are removed, the member then refers to names that are neither declared '
                      f'nor imported')
    elif not rec:
        ctx.violation('R2', 'find_and_eliminate_unused_imports:members-not-merged', f.where,
                      'the symbols used by contained procedures are not merged into the use set of the host')
    else:
        ctx.judge('R2', 'use set complete before elimination', facts={'set': S, 'mutations': len(muts)})
    # ---- R3
    E = 'loki/transformations/extract/internal.py'
    g = m.get_function(E, 'extract_internal_procedure')
    adds = [a for a in ast.walk(g.node) if isinstance(a, ast.AugAssign) and isinstance(a.target, ast.Attribute) and a.target.attr == 'arguments']
    def _sources(it):
        """names of the lists a generator draws from: `a`, `a + b`, `tuple(a) + b`, `chain(a, b)`"""
        if isinstance(it, ast.Name):
            return [it.id]
        if isinstance(it, ast.BinOp) and isinstance(it.op, ast.Add):
            l_, r_ = _sources(it.left), _sources(it.right)
            return l_ + r_ if l_ and r_ else []
        if isinstance(it, ast.Call) and X.call_name_of(it) in ('tuple', 'list', 'chain', 'as_tuple') and it.args:
            parts = [_sources(a_) for a_ in it.args]
            return [n_ for p_ in parts for n_ in p_] if all(parts) else []
        return []
    comp = next((c for a in adds for c in ast.walk(a.value) if isinstance(c, (ast.GeneratorExp, ast.ListComp))
                 and _sources(c.generators[0].iter)), None)
    if comp is None:
        raise AnalysisError('extract_internal_procedure: `inner.arguments += (... for v in <list>)` was not found')
    D = _sources(comp.generators[0].iter)
    V = D[0]
    muts = _mutations(g.node, V)
    mut_ids = {id(x) for a in muts for x in ast.walk(a)}
    # locals that only feed V (e.g. the list of shape variables appended to it)
    feeders = {V}
    changed = True
    while changed:
        changed = False
        for a in muts:
            for n in ast.walk(a):
                if isinstance(n, ast.Name) and isinstance(n.ctx, ast.Load) and n.id not in feeders and any(
                        isinstance(d, (ast.Assign, ast.AugAssign)) and n.id in {t.id for t in ast.walk(d) if isinstance(t, ast.Name) and isinstance(t.ctx, ast.Store)}
                        for d in ast.walk(g.node)):
                    feeders.add(n.id); changed = True
    consumers = []
    for st in _simple_stmts(g.node):
        if id(st) in mut_ids:
            continue
        reads = any(isinstance(n, ast.Name) and n.id == V and isinstance(n.ctx, ast.Load) for n in ast.walk(st))
        if not reads:
            continue
        stores = {t.id for t in ast.walk(st) if isinstance(t, ast.Name) and isinstance(t.ctx, ast.Store)}
        if stores and stores <= feeders:
            continue
        consumers.append(st)
    # consumers that derive type information (kinds, derived types) from the elements of the list
    def reads_type(st):
        for c in ast.walk(st):
            if isinstance(c, (ast.GeneratorExp, ast.ListComp, ast.SetComp)):
                for gen in c.generators:
                    if any(isinstance(n, ast.Name) and n.id == V for n in ast.walk(gen.iter)) and isinstance(gen.target, ast.Name):
                        if any(isinstance(a, ast.Attribute) and a.attr == 'type' and isinstance(a.value, ast.Name) and a.value.id == gen.target.id
                               for a in ast.walk(c)):
                            return True
        return False
    type_consumers = [st for st in consumers if reads_type(st) and not (isinstance(st, ast.AugAssign) and isinstance(st.target, ast.Attribute))]
    growth = [a for a in muts if isinstance(a, (ast.AugAssign, ast.Expr)) or (
        isinstance(a, ast.Assign) and any(isinstance(b, ast.BinOp) and isinstance(b.op, ast.Add) and any(
            isinstance(n, ast.Name) and n.id == V for n in ast.walk(b)) for b in ast.walk(a.value)))]
    if not type_consumers:
        raise AnalysisError(f'extract_internal_procedure: type-deriving consumers of `{V}` not found')
    ctx.floor('R3', 'statements deriving kinds / types from the dummy list', len(type_consumers), 2)
    first = min(c.lineno for c in type_consumers)
    late = [a for a in growth if a.lineno > first]
    if late:
        c0 = min(type_consumers, key=lambda c: c.lineno)
        ctx.violation('R3', 'extract_internal_procedure:list-grows-after-use', f'{E}:{late[0].lineno}',
                      f'`{ast.unparse(late[0])[:80]}` adds to `{V}` after `{ast.unparse(c0)[:70]}...` (line {c0.lineno}) has derived the needed kinds / '
                      f'types from it: dummies added later come without their imports, the extracted routine uses a kind or type that is '
                      f'neither declared nor imported')
    else:
        ctx.judge('R3', 'dummy list complete before kinds / types are derived from it',
                  facts={'list': V, 'type_consumers': len(type_consumers), 'growth_statements': len(growth)})
    # every list the new dummies are drawn from is seen by every statement that derives kinds / types from the dummies
    for W in D[1:]:
        for c_ in type_consumers:
            seen = any(isinstance(n, ast.Name) and n.id == W for cc in ast.walk(c_) if isinstance(cc, (ast.GeneratorExp, ast.ListComp, ast.SetComp))
                       for gen in cc.generators for n in ast.walk(gen.iter))
            inst = f'extract_internal_procedure:{W}:seen-by:{ast.unparse(c_.targets[0]) if isinstance(c_, ast.Assign) else c_.lineno}'
            if seen:
                ctx.judge('R3', inst)
            else:
                ctx.violation('R3', 'extract_internal_procedure:dummies-without-type-derivation', f'{E}:{c_.lineno}',
                              f'the new dummies are drawn from `{ast.unparse(comp.generators[0].iter)}`, but `{ast.unparse(c_)[:70]}...` derives the '
                              f'needed kinds / types from `{V}` only: the dummies taken from `{W}` come without their imports, the extracted '
                              f'routine uses a kind or type that is neither declared nor imported', instance=inst)
    # ---- R4: the use set and the comparison against it fold case the same way
    ctx.rule('R4', 'used_names_from_symbol folds every name it returns with `modifier`; eliminate_unused_imports compares the imported name '
                   'folded with the default modifier')
    un = m.get_function(U, 'used_names_from_symbol')
    el = m.get_function(U, 'eliminate_unused_imports')
    if un is None or el is None:
        raise AnalysisError('used_names_from_symbol / eliminate_unused_imports vanished')
    mod_param = next((a_.arg for a_, d_ in zip(un.node.args.args[-len(un.node.args.defaults):], un.node.args.defaults)
                      if isinstance(d_, ast.Attribute) and ast.unparse(d_) in ('str.lower', 'str.upper', 'str.casefold')), None)
    if mod_param is None:
        raise AnalysisError('used_names_from_symbol: folding parameter (default str.lower) not found')
    default_fold = ast.unparse(un.node.args.defaults[[a_.arg for a_ in un.node.args.args[-len(un.node.args.defaults):]].index(mod_param)]).split('.')[1]
    n_el = 0

    def elements(e):
        """[(element expr | ('rec', call))] of a returned set expression; None when the shape is unknown"""
        if isinstance(e, ast.BinOp) and isinstance(e.op, ast.BitOr):
            l_, r_ = elements(e.left), elements(e.right)
            return None if l_ is None or r_ is None else l_ + r_
        if isinstance(e, (ast.Set, ast.List, ast.Tuple)):
            return list(e.elts)
        if isinstance(e, ast.Call) and X.call_name_of(e) == un.name:
            return [('rec', e)]
        if isinstance(e, ast.Call) and X.call_name_of(e) in ('OrderedSet', 'set', 'frozenset'):
            if not e.args:
                return []
            a0 = e.args[0]
            if isinstance(a0, (ast.GeneratorExp, ast.ListComp, ast.SetComp)):
                return [a0.elt]
            return elements(a0)
        return None
    for r_ in [x_ for x_ in ast.walk(un.node) if isinstance(x_, ast.Return) and x_.value is not None]:
        els = elements(r_.value)
        if els is None:
            raise AnalysisError(f'used_names_from_symbol ({U}:{r_.lineno}): returned set expression outside the recognised shapes')
        for e_ in els:
            n_el += 1
            if isinstance(e_, tuple):
                call = e_[1]
                ok = any(k_.arg == mod_param and isinstance(k_.value, ast.Name) and k_.value.id == mod_param for k_ in call.keywords) or \
                    (len(call.args) > 1 and isinstance(call.args[1], ast.Name) and call.args[1].id == mod_param)
                txt = ast.unparse(call)
            else:
                ok = isinstance(e_, ast.Call) and isinstance(e_.func, ast.Name) and e_.func.id == mod_param
                txt = ast.unparse(e_)
            inst = f'used_names_from_symbol:{txt[:60]}'
            if ok:
                ctx.judge('R4', inst)
            else:
                ctx.violation('R4', 'used_names_from_symbol:name-not-folded', f'{U}:{r_.lineno}',
                              f'`{txt}` enters the set of used names without `{mod_param}` (default str.{default_fold}), while '
                              f'eliminate_unused_imports looks imported names up folded: a name spelled with other case is taken as unused '
                              f'and its import is removed although declarations still refer to it', instance=inst)
    ctx.floor('R4', 'elements returned by used_names_from_symbol', n_el, 5)
    used_param = el.node.args.args[1].arg if len(el.node.args.args) > 1 else None
    tests = [c_ for c_ in ast.walk(el.node) if isinstance(c_, ast.Compare) and len(c_.ops) == 1 and isinstance(c_.ops[0], (ast.In, ast.NotIn))
             and isinstance(c_.comparators[0], ast.Name) and c_.comparators[0].id == used_param]
    if not tests:
        raise AnalysisError('eliminate_unused_imports: membership test against the use set not found')
    for t_ in tests:
        l_ = t_.left
        ok = isinstance(l_, ast.Call) and isinstance(l_.func, ast.Attribute) and l_.func.attr == default_fold and not l_.args
        (ctx.judge('R4', f'eliminate_unused_imports:{ast.unparse(t_)[:60]}') if ok else
         ctx.violation('R4', 'eliminate_unused_imports:lookup-not-folded', f'{U}:{t_.lineno}',
                       f'`{ast.unparse(t_)}` looks the imported name up without `.{default_fold}()` in a set whose members are folded with '
                       f'str.{default_fold}: an import spelled with other case is removed although it is used'))
    # ---- R5: an import is removed only because its own symbol list became empty
    ctx.rule('R5', 'eliminate_unused_imports: an Import is mapped to None only on a path where it had symbols (a blanket USE has none and stays)')
    n5 = 0
    for a_, guards in X.nodes_with_guards(el.node, lambda x: isinstance(x, ast.Assign) and isinstance(x.targets[0], ast.Subscript)
                                          and isinstance(x.value, ast.Constant) and x.value.value is None, early=True):
        n5 += 1
        key = ast.unparse(a_.targets[0].slice)
        gs = [g.replace(' ', '') for g in guards]
        had = any(g in (f'{key}.symbols', f'len({key}.symbols)>0', f'{key}.symbols!=()', f'bool({key}.symbols)') or
                  g.startswith(f'{key}.symbols and') or g.endswith(f'and{key}.symbols') for g in gs)
        inst = f'eliminate_unused_imports:{ast.unparse(a_)}'
        if had:
            ctx.judge('R5', inst, facts={'guards': guards})
        else:
            ctx.violation('R5', 'eliminate_unused_imports:blanket-import-removed', f'{U}:{a_.lineno}',
                          f'`{ast.unparse(a_)}` is reached under [{"; ".join(guards)}]: a `USE mod` without ONLY list has an empty symbol tuple '
                          f'(not None), so it is removed as soon as any other import loses a symbol -- everything it provides becomes '
                          f'undeclared', instance=inst)
    ctx.floor('R5', 'removals of whole imports', n5, 1)
    # callers keep the default folding
    for c_ in ast.walk(f.node):
        if isinstance(c_, ast.Call) and X.call_name_of(c_) == un.name:
            ok = len(c_.args) <= 1 and not any(k_.arg == mod_param for k_ in c_.keywords)
            (ctx.judge('R4', f'find_and_eliminate_unused_imports:{ast.unparse(c_)[:50]}') if ok else
             ctx.violation('R4', 'find_and_eliminate_unused_imports:other-modifier', f'{U}:{c_.lineno}',
                           f'`{ast.unparse(c_)}` builds the use set with another folding than the one eliminate_unused_imports compares with'))

MUTANTS = [
    Mutant('blanket-import-removed', 'loki/transformations/utilities.py', "            if im.symbols:\n", "            if im.symbols is not None:\n",
           expect=('R5', 'blanket-import-removed')),
    Mutant('kind-name-not-folded', 'loki/transformations/utilities.py', "            return {modifier(str(symbol.kind))}", "            return {str(symbol.kind)}",
           expect=('R4', 'name-not-folded')),
    Mutant('type-name-not-folded', 'loki/transformations/utilities.py', "        return OrderedSet([modifier(symbol.name)])\n\n    return OrderedSet()",
           "        return OrderedSet([symbol.name])\n\n    return OrderedSet()", expect=('R4', 'name-not-folded')),
    Mutant('modifier-not-handed-on', 'loki/transformations/utilities.py', "        return used_names_from_symbol(symbol.dtype, modifier=modifier)",
           "        return used_names_from_symbol(symbol.dtype)", expect=('R4', 'name-not-folded')),
    Mutant('lookup-not-folded', 'loki/transformations/utilities.py', "if s.name.lower() not in used_symbols}", "if s.name not in used_symbols}",
           expect=('R4', 'lookup-not-folded')),
    Mutant('shape-dummies-separate-list', 'loki/transformations/extract/internal.py',
           "        for v in vars_to_resolve\n    )\n    inner.spec.prepend(imports_to_add)",
           "        for v in vars_to_resolve + tuple(arr_shapes)\n    )\n    inner.spec.prepend(imports_to_add)", expect=('R3', 'dummies-without-type-derivation')),
    Mutant('eliminate-before-members', 'loki/transformations/utilities.py',
           "    # Recurse for contained subroutines/functions\n    for member in routine.members:\n        used_symbols |= find_and_eliminate_unused_imports(member)\n\n    eliminate_unused_imports(routine, used_symbols)\n",
           "    eliminate_unused_imports(routine, used_symbols)\n\n    # Recurse for contained subroutines/functions\n    for member in routine.members:\n        used_symbols |= find_and_eliminate_unused_imports(member)\n",
           expect=('R2', 'eliminated-before-complete')),
    Mutant('shape-dummies-after-imports', 'loki/transformations/extract/internal.py',
           "    inner.arguments += tuple(\n", "    vars_to_resolve += tuple(var_imports_to_add)\n    inner.arguments += tuple(\n", expect=('R3', 'list-grows-after-use')),
    Mutant('callee-args-scoped-to-caller', 'loki/transformations/argument_shape.py',
           "new_args = tuple(d.clone(scope=callee, type=d.type.clone(intent='IN')) for d in new_args)",
           "new_args = tuple(d.clone(scope=routine, type=d.type.clone(intent='IN')) for d in new_args)", expect=('R1', 'foreign-scope'), quick=True),
    Mutant('outlined-args-scoped-to-host', 'loki/transformations/extract/outline.py', "scope=region_routine", "scope=routine", count=5,
           expect=('R1', 'foreign-scope')),
    Mutant('neutral-scope-alias', 'loki/transformations/argument_shape.py',
           "new_args = tuple(d.clone(scope=callee, type=d.type.clone(intent='IN')) for d in new_args)",
           "new_args = tuple(d.clone(scope=call.routine, type=d.type.clone(intent='IN')) for d in new_args)", expect=None),
]
