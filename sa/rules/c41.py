"""
C41  Built-in transformations leave a well-formed IR (scope of created symbols only).

"Every symbol in the program unit resolves through the unit's own scope chain"
has a necessary condition that is visible wherever a transformation *adds*
symbols to a unit:
 R1  symbols created for a unit are scoped to that unit: in every statement
     ``U.arguments = / += E`` or ``U.variables = / += E`` under
     ``loki/transformations``, each symbol constructed on the way to ``E`` with an
     explicit ``scope=S`` (``x.clone(scope=S, ...)``, ``Variable(..., scope=S)``)
     has ``S`` denoting ``U`` (same expression, or an alias bound to it).  A
     symbol scoped to another unit (typically the caller while the callee's
     signature is extended) makes the callee's declaration resolve through a
     foreign symbol table, and writes the new type -- e.g. ``intent(in)`` -- into
     that foreign table.
Not decided: that every *used* variable is declared / imported, that the
generated code is accepted by frontend and compiler, symbols created without an
explicit scope (they are attached when the unit rescopes).
"""
import ast

from sa.model import AnalysisError
from sa.mutate import Mutant

PROP = 'C41'

META = dict(
    technique='def-use analysis over all transformations: for each extension of a unit\'s argument / variable list, the scope '
              'expressions of the symbol constructors that flow into it are compared with the receiving unit (aliases resolved)',
    level='Decides one structural necessary condition of scope well-formedness: symbols a transformation creates with an explicit '
          'scope and adds to a unit are scoped to that very unit (about 40 sites). Does NOT decide declaredness of used variables or '
          'acceptance of the generated code by a compiler.',
    note='Claimed for the scope-chain clause only; the rule found one genuine defect (ExplicitArgumentArrayShapeTransformation), repaired.',
    ref='DESIGN.md section 3, C41',
)

ATTRS = ('arguments', 'variables')


def _bindings(fn, name):
    out = []
    for a in ast.walk(fn):
        if isinstance(a, ast.Assign) and any(isinstance(t, ast.Name) and t.id == name for t in a.targets):
            out.append(a.value)
        elif isinstance(a, ast.AugAssign) and isinstance(a.target, ast.Name) and a.target.id == name:
            out.append(a.value)
        elif isinstance(a, ast.Call) and isinstance(a.func, ast.Attribute) and a.func.attr in ('append', 'extend') \
                and isinstance(a.func.value, ast.Name) and a.func.value.id == name:
            out += list(a.args)
    return out


def _flow(fn, e, depth=0, seen=None):
    """expressions that may flow into ``e`` through locals of ``fn`` (flow-insensitive, bounded)"""
    seen = seen if seen is not None else set()
    out = [e]
    if depth > 3:
        return out
    for n in ast.walk(e):
        if isinstance(n, ast.Name) and n.id not in seen:
            seen.add(n.id)
            for v in _bindings(fn, n.id):
                out += _flow(fn, v, depth + 1, seen)
    return out


def _aliases(fn, recv):
    """texts denoting the same unit as the receiver expression ``recv``"""
    al = {recv}
    changed = True
    while changed:
        changed = False
        for a in ast.walk(fn):
            if isinstance(a, ast.Assign) and len(a.targets) == 1 and isinstance(a.targets[0], ast.Name):
                t, v = a.targets[0].id, ast.unparse(a.value)
                if v in al and t not in al:
                    al.add(t); changed = True
                if t in al and v not in al and isinstance(a.value, (ast.Name, ast.Attribute)):
                    al.add(v); changed = True
    return al


def run(ctx):
    m = ctx.model
    ctx.rule('R1', 'U.arguments / U.variables (+)= E: every symbol constructor with an explicit scope=S that flows into E has S == U (or an alias)')
    n = nsc = 0
    for mod in [x for x in m.all_repo_modules(packages=('loki',)) if x.relpath.startswith('loki/transformations/')]:
        for fn in [x for x in ast.walk(mod.tree) if isinstance(x, (ast.FunctionDef, ast.AsyncFunctionDef))]:
            for st in ast.walk(fn):
                tgt = val = None
                if isinstance(st, ast.Assign) and isinstance(st.targets[0], ast.Attribute) and st.targets[0].attr in ATTRS:
                    tgt, val = st.targets[0], st.value
                elif isinstance(st, ast.AugAssign) and isinstance(st.target, ast.Attribute) and st.target.attr in ATTRS:
                    tgt, val = st.target, st.value
                if tgt is None:
                    continue
                n += 1
                recv = ast.unparse(tgt.value)
                scopes = {}
                for e in _flow(fn, val):
                    for c in ast.walk(e):
                        if isinstance(c, ast.Call):
                            for k in c.keywords:
                                if k.arg == 'scope' and not (isinstance(k.value, ast.Constant) and k.value.value is None):
                                    scopes.setdefault(ast.unparse(k.value), c.lineno)
                if not scopes:
                    continue
                nsc += 1
                al = _aliases(fn, recv)
                inst = f'{mod.relpath}:{fn.name}:{recv}.{tgt.attr}'
                foreign = {s: ln for s, ln in scopes.items() if s not in al}
                if not foreign:
                    ctx.judge('R1', inst, facts={'scopes': sorted(scopes)})
                elif len(foreign) < len(scopes):
                    raise AnalysisError(f'{inst} at line {st.lineno}: symbol constructors with scopes {sorted(scopes)} may flow into the list of '
                                        f'`{recv}`; the flow-insensitive analysis cannot tell which ones do')
                else:
                    s0 = sorted(foreign)[0]
                    ctx.violation('R1', f'{fn.name}:{recv}.{tgt.attr}:foreign-scope', f'{mod.relpath}:{foreign[s0]}',
                                  f'symbols added to `{recv}.{tgt.attr}` (line {st.lineno}) are created with `scope={s0}`, which is not `{recv}`: '
                                  f'the new declaration of `{recv}` resolves through the symbol table of `{s0}`, and the type given to the clone '
                                  f'(e.g. its intent) is written into that foreign table', instance=inst)
    ctx.floor('R1', 'extensions of argument / variable lists', n, 60)
    ctx.floor('R1', 'extensions with explicitly scoped new symbols', nsc, 30)


MUTANTS = [
    Mutant('callee-args-scoped-to-caller', 'loki/transformations/argument_shape.py',
           "new_args = tuple(d.clone(scope=callee, type=d.type.clone(intent='IN')) for d in new_args)",
           "new_args = tuple(d.clone(scope=routine, type=d.type.clone(intent='IN')) for d in new_args)", expect=('R1', 'foreign-scope'), quick=True),
    Mutant('outlined-args-scoped-to-host', 'loki/transformations/extract/outline.py', "scope=region_routine", "scope=routine", count=5,
           expect=('R1', 'foreign-scope')),
    Mutant('neutral-scope-alias', 'loki/transformations/argument_shape.py',
           "new_args = tuple(d.clone(scope=callee, type=d.type.clone(intent='IN')) for d in new_args)",
           "new_args = tuple(d.clone(scope=call.routine, type=d.type.clone(intent='IN')) for d in new_args)", expect=None),
]
