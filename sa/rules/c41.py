"""
C41  Built-in transformations leave a well-formed IR (scope of created symbols only).

"Every symbol in the program unit resolves through the unit's own scope chain"
has a necessary condition that is visible wherever a transformation *adds*
symbols to a unit:
 R1  symbols created for a unit are scoped to that unit: in every statement
     ``U.arguments = / += E`` or ``U.variables = / += E`` under
     ``loki/transformations``, each symbol constructed on the way to ``E`` with an
     explicit ``scope=S`` (``x.clone(scope=S, ...)``, ``Variable(..., scope=S)``)
     has ``S`` denoting ``U`` (same expression, or an alias bound to it).  A
     symbol scoped to another unit (typically the caller while the callee's
     signature is extended) makes the callee's declaration resolve through a
     foreign symbol table, and writes the new type -- e.g. ``intent(in)`` -- into
     that foreign table.
 R2  imports are eliminated against the complete use set: in
     ``find_and_eliminate_unused_imports`` the set handed to
     ``eliminate_unused_imports`` is not augmented afterwards, and the
     contributions of the contained procedures (host association) are merged
     into it before -- a host import used only by an internal procedure is
     otherwise removed.
 R3  accumulate, then consume: in ``extract_internal_procedure`` the list of host
     variables that become dummies of the extracted routine is final before the
     kinds / derived types / imports needed by those dummies are derived from
     it (no statement adds to the list after a statement that reads the
     ``.type`` of its elements).
Not decided: that every *used* variable is declared / imported in general, that the
generated code is accepted by frontend and compiler, symbols created without an
explicit scope (they are attached when the unit rescopes).
"""
import ast

from sa.model import AnalysisError
from sa.mutate import Mutant

PROP = 'C41'

META = dict(
    technique='def-use analysis over all transformations: for each extension of a unit\'s argument / variable list, the scope '
              'expressions of the symbol constructors that flow into it are compared with the receiving unit (aliases resolved)',
    level='Decides one structural necessary condition of scope well-formedness: symbols a transformation creates with an explicit '
          'scope and adds to a unit are scoped to that very unit (about 40 sites). Does NOT decide declaredness of used variables or '
          'acceptance of the generated code by a compiler.',
    note='Claimed for the scope-chain clause only; the rule found one genuine defect (ExplicitArgumentArrayShapeTransformation), repaired.',
    ref='DESIGN.md section 3, C41',
)

ATTRS = ('arguments', 'variables')


def _bindings(fn, name):
    out = []
    for a in ast.walk(fn):
        if isinstance(a, ast.Assign) and any(isinstance(t, ast.Name) and t.id == name for t in a.targets):
            out.append(a.value)
        elif isinstance(a, ast.AugAssign) and isinstance(a.target, ast.Name) and a.target.id == name:
            out.append(a.value)
        elif isinstance(a, ast.Call) and isinstance(a.func, ast.Attribute) and a.func.attr in ('append', 'extend') \
                and isinstance(a.func.value, ast.Name) and a.func.value.id == name:
            out += list(a.args)
    return out


def _flow(fn, e, depth=0, seen=None):
    """expressions that may flow into ``e`` through locals of ``fn`` (flow-insensitive, bounded)"""
    seen = seen if seen is not None else set()
    out = [e]
    if depth > 3:
        return out
    for n in ast.walk(e):
        if isinstance(n, ast.Name) and n.id not in seen:
            seen.add(n.id)
            for v in _bindings(fn, n.id):
                out += _flow(fn, v, depth + 1, seen)
    return out


def _aliases(fn, recv):
    """texts denoting the same unit as the receiver expression ``recv``"""
    al = {recv}
    changed = True
    while changed:
        changed = False
        for a in ast.walk(fn):
            if isinstance(a, ast.Assign) and len(a.targets) == 1 and isinstance(a.targets[0], ast.Name):
                t, v = a.targets[0].id, ast.unparse(a.value)
                if v in al and t not in al:
                    al.add(t); changed = True
                if t in al and v not in al and isinstance(a.value, (ast.Name, ast.Attribute)):
                    al.add(v); changed = True
    return al


def run(ctx):
    m = ctx.model
    ctx.rule('R1', 'U.arguments / U.variables (+)= E: every symbol constructor with an explicit scope=S that flows into E has S == U (or an alias)')
    n = nsc = 0
    for mod in [x for x in m.all_repo_modules(packages=('loki',)) if x.relpath.startswith('loki/transformations/')]:
        for fn in [x for x in ast.walk(mod.tree) if isinstance(x, (ast.FunctionDef, ast.AsyncFunctionDef))]:
            for st in ast.walk(fn):
                tgt = val = None
                if isinstance(st, ast.Assign) and isinstance(st.targets[0], ast.Attribute) and st.targets[0].attr in ATTRS:
                    tgt, val = st.targets[0], st.value
                elif isinstance(st, ast.AugAssign) and isinstance(st.target, ast.Attribute) and st.target.attr in ATTRS:
                    tgt, val = st.target, st.value
                if tgt is None:
                    continue
                n += 1
                recv = ast.unparse(tgt.value)
                scopes = {}
                for e in _flow(fn, val):
                    for c in ast.walk(e):
                        if isinstance(c, ast.Call):
                            for k in c.keywords:
                                if k.arg == 'scope' and not (isinstance(k.value, ast.Constant) and k.value.value is None):
                                    scopes.setdefault(ast.unparse(k.value), c.lineno)
                if not scopes:
                    continue
                nsc += 1
                al = _aliases(fn, recv)
                inst = f'{mod.relpath}:{fn.name}:{recv}.{tgt.attr}'
                foreign = {s: ln for s, ln in scopes.items() if s not in al}
                if not foreign:
                    ctx.judge('R1', inst, facts={'scopes': sorted(scopes)})
                elif len(foreign) < len(scopes):
                    raise AnalysisError(f'{inst} at line {st.lineno}: symbol constructors with scopes {sorted(scopes)} may flow into the list of '
                                        f'`{recv}`; the flow-insensitive analysis cannot tell which ones do')
                else:
                    s0 = sorted(foreign)[0]
                    ctx.violation('R1', f'{fn.name}:{recv}.{tgt.attr}:foreign-scope', f'{mod.relpath}:{foreign[s0]}',
                                  f'symbols added to `{recv}.{tgt.attr}` (line {st.lineno}) are created with `scope={s0}`, which is not `{recv}`: '
                                  f'the new declaration of `{recv}` resolves through the symbol table of `{s0}`, and the type given to the clone '
                                  f'(e.g. its intent) is written into that foreign table', instance=inst)
    ctx.floor('R1', 'extensions of argument / variable lists', n, 60)
    ctx.floor('R1', 'extensions with explicitly scoped new symbols', nsc, 30)
    run_r23(ctx)


def _mutations(fn, V):
    """statements that (re)define or grow the local collection ``V``"""
    out = []
    for a in ast.walk(fn):
        if isinstance(a, ast.Assign) and any(isinstance(t, ast.Name) and t.id == V for t in a.targets):
            out.append(a)
        elif isinstance(a, ast.AugAssign) and isinstance(a.target, ast.Name) and a.target.id == V:
            out.append(a)
        elif isinstance(a, ast.Expr) and isinstance(a.value, ast.Call) and isinstance(a.value.func, ast.Attribute) \
                and a.value.func.attr in ('append', 'extend', 'add', 'update', 'insert') and isinstance(a.value.func.value, ast.Name) \
                and a.value.func.value.id == V:
            out.append(a)
    return out


def _simple_stmts(fn):
    for n in ast.walk(fn):
        if isinstance(n, (ast.Assign, ast.AugAssign, ast.Expr, ast.Return, ast.AnnAssign)):
            yield n


def run_r23(ctx):
    from sa import exprs as X
    m = ctx.model
    ctx.rule('R2', 'find_and_eliminate_unused_imports: the use set is complete (own symbols + every member) when eliminate_unused_imports is called')
    ctx.rule('R3', 'extract_internal_procedure: the list of variables turned into dummies is final before imports / kinds / types are derived from it')
    U = 'loki/transformations/utilities.py'
    f = m.get_function(U, 'find_and_eliminate_unused_imports')
    calls = [st for st in _simple_stmts(f.node) if isinstance(st, ast.Expr) and isinstance(st.value, ast.Call)
             and X.call_name_of(st.value) == 'eliminate_unused_imports']
    if len(calls) != 1 or len(calls[0].value.args) < 2 or not isinstance(calls[0].value.args[1], ast.Name):
        raise AnalysisError('find_and_eliminate_unused_imports: the call eliminate_unused_imports(routine, <set>) was not found')
    S = calls[0].value.args[1].id
    muts = _mutations(f.node, S)
    late = [a for a in muts if a.lineno > calls[0].lineno]
    rec = [a for a in muts if f.name in ast.unparse(a) and any(isinstance(l, ast.For) and 'members' in ast.unparse(l.iter) and a in list(ast.walk(l))
                                                                for l in ast.walk(f.node))]
    if late:
        ctx.violation('R2', 'find_and_eliminate_unused_imports:eliminated-before-complete', f'{U}:{calls[0].lineno}',
                      f'`{ast.unparse(calls[0])}` runs before `{ast.unparse(late[0])[:80]}` (line {late[0].lineno}): imports of the host that only a '
                      f'contained procedure uses (host association) are removed, the member then refers to names that are neither declared '
                      f'nor imported')
    elif not rec:
        ctx.violation('R2', 'find_and_eliminate_unused_imports:members-not-merged', f.where,
                      'the symbols used by contained procedures are not merged into the use set of the host')
    else:
        ctx.judge('R2', 'use set complete before elimination', facts={'set': S, 'mutations': len(muts)})
    # ---- R3
    E = 'loki/transformations/extract/internal.py'
    g = m.get_function(E, 'extract_internal_procedure')
    adds = [a for a in ast.walk(g.node) if isinstance(a, ast.AugAssign) and isinstance(a.target, ast.Attribute) and a.target.attr == 'arguments']
    comp = next((c for a in adds for c in ast.walk(a.value) if isinstance(c, (ast.GeneratorExp, ast.ListComp))
                 and isinstance(c.generators[0].iter, ast.Name)), None)
    if comp is None:
        raise AnalysisError('extract_internal_procedure: `inner.arguments += (... for v in <list>)` was not found')
    V = comp.generators[0].iter.id
    muts = _mutations(g.node, V)
    mut_ids = {id(x) for a in muts for x in ast.walk(a)}
    # locals that only feed V (e.g. the list of shape variables appended to it)
    feeders = {V}
    changed = True
    while changed:
        changed = False
        for a in muts:
            for n in ast.walk(a):
                if isinstance(n, ast.Name) and isinstance(n.ctx, ast.Load) and n.id not in feeders and any(
                        isinstance(d, (ast.Assign, ast.AugAssign)) and n.id in {t.id for t in ast.walk(d) if isinstance(t, ast.Name) and isinstance(t.ctx, ast.Store)}
                        for d in ast.walk(g.node)):
                    feeders.add(n.id); changed = True
    consumers = []
    for st in _simple_stmts(g.node):
        if id(st) in mut_ids:
            continue
        reads = any(isinstance(n, ast.Name) and n.id == V and isinstance(n.ctx, ast.Load) for n in ast.walk(st))
        if not reads:
            continue
        stores = {t.id for t in ast.walk(st) if isinstance(t, ast.Name) and isinstance(t.ctx, ast.Store)}
        if stores and stores <= feeders:
            continue
        consumers.append(st)
    # consumers that derive type information (kinds, derived types) from the elements of the list
    def reads_type(st):
        for c in ast.walk(st):
            if isinstance(c, (ast.GeneratorExp, ast.ListComp, ast.SetComp)):
                for gen in c.generators:
                    if any(isinstance(n, ast.Name) and n.id == V for n in ast.walk(gen.iter)) and isinstance(gen.target, ast.Name):
                        if any(isinstance(a, ast.Attribute) and a.attr == 'type' and isinstance(a.value, ast.Name) and a.value.id == gen.target.id
                               for a in ast.walk(c)):
                            return True
        return False
    type_consumers = [st for st in consumers if reads_type(st) and not (isinstance(st, ast.AugAssign) and isinstance(st.target, ast.Attribute))]
    growth = [a for a in muts if isinstance(a, (ast.AugAssign, ast.Expr)) or (
        isinstance(a, ast.Assign) and any(isinstance(b, ast.BinOp) and isinstance(b.op, ast.Add) and any(
            isinstance(n, ast.Name) and n.id == V for n in ast.walk(b)) for b in ast.walk(a.value)))]
    if not type_consumers or not growth:
        raise AnalysisError(f'extract_internal_procedure: type-deriving consumers ({len(type_consumers)}) / growth statements ({len(growth)}) of `{V}` not found')
    ctx.floor('R3', 'statements deriving kinds / types from the dummy list', len(type_consumers), 2)
    first = min(c.lineno for c in type_consumers)
    late = [a for a in growth if a.lineno > first]
    if late:
        c0 = min(type_consumers, key=lambda c: c.lineno)
        ctx.violation('R3', 'extract_internal_procedure:list-grows-after-use', f'{E}:{late[0].lineno}',
                      f'`{ast.unparse(late[0])[:80]}` adds to `{V}` after `{ast.unparse(c0)[:70]}...` (line {c0.lineno}) has derived the needed kinds / '
                      f'types from it: dummies added later come without their imports, the extracted routine uses a kind or type that is '
                      f'neither declared nor imported')
    else:
        ctx.judge('R3', 'dummy list complete before kinds / types are derived from it',
                  facts={'list': V, 'type_consumers': len(type_consumers), 'growth_statements': len(growth)})

MUTANTS = [
    Mutant('eliminate-before-members', 'loki/transformations/utilities.py',
           "    # Recurse for contained subroutines/functions\n    for member in routine.members:\n        used_symbols |= find_and_eliminate_unused_imports(member)\n\n    eliminate_unused_imports(routine, used_symbols)\n",
           "    eliminate_unused_imports(routine, used_symbols)\n\n    # Recurse for contained subroutines/functions\n    for member in routine.members:\n        used_symbols |= find_and_eliminate_unused_imports(member)\n",
           expect=('R2', 'eliminated-before-complete')),
    Mutant('shape-dummies-after-imports', 'loki/transformations/extract/internal.py',
           "    inner.arguments += tuple(\n", "    vars_to_resolve += tuple(var_imports_to_add)\n    inner.arguments += tuple(\n", expect=('R3', 'list-grows-after-use')),
    Mutant('callee-args-scoped-to-caller', 'loki/transformations/argument_shape.py',
           "new_args = tuple(d.clone(scope=callee, type=d.type.clone(intent='IN')) for d in new_args)",
           "new_args = tuple(d.clone(scope=routine, type=d.type.clone(intent='IN')) for d in new_args)", expect=('R1', 'foreign-scope'), quick=True),
    Mutant('outlined-args-scoped-to-host', 'loki/transformations/extract/outline.py', "scope=region_routine", "scope=routine", count=5,
           expect=('R1', 'foreign-scope')),
    Mutant('neutral-scope-alias', 'loki/transformations/argument_shape.py',
           "new_args = tuple(d.clone(scope=callee, type=d.type.clone(intent='IN')) for d in new_args)",
           "new_args = tuple(d.clone(scope=call.routine, type=d.type.clone(intent='IN')) for d in new_args)", expect=None),
]
