"""
C23  Batch processing does not depend on the letter case of names.

 R1  Item.__eq__ / Item.__hash__ fold identically (equal items hash equal).
 R2  fold-at-creation: every item name that reaches an ``Item`` constructor or
     the item cache from inside the batch package went through ``.lower()`` (or
     is the name of an already existing item).  Consumers compare ``item.name``
     with lower-cased strings without folding ``item.name`` again, so an unfolded
     name at creation makes those comparisons fail.
 R3  config matching folds both sides (``match_item_keys``, ``is_disabled``...),
     the cache is a case-insensitive mapping, seeds are folded.
 R4  names derived from IR nodes inside ``ItemFactory`` (locals called ``*_name`` /
     ``*_names``) are folded as a whole before they are compared with or looked up
     among item names (which are lower case).
 R5  names built from name-valued transformation options (``suffix``,
     ``module_suffix``, mode suffixes) in loki/transformations/dependency.py are
     folded before they are used as keys, or the container they are looked up in
     is a ``CaseInsensitiveDict`` / the item cache / a scope.
Not decided: that generated code is equal up to case.
"""
import ast

from sa import exprs as X
from sa.model import AnalysisError, ClassInfo
from sa.mutate import Mutant

PROP = 'C23'

META = dict(
    technique='eq/hash normal-form comparison for Item; intra+inter-procedural (depth 3) must-be-folded analysis of the name '
              'argument of every Item construction / cache insertion site in loki/batch; fold-both-sides check of the config '
              'matchers',
    level='Decides: Item equality and hash use the same case folding; all item-name values created inside loki/batch are '
          'lower-cased before they reach an Item constructor or the cache; config key matching lower-cases both operands; '
          'seeds are folded. Does NOT decide equality of generated code.',
    note='Names handed in by external callers of the public factory API are outside the rule (entry points are listed in the '
         'evidence).',
    ref='DESIGN.md section 3, C23',
)

IT = 'loki/batch/item.py'
CI_SCOPES = {'scope_ir', 'scope', 'current_module', 'self.item_cache', 'scope_ir.parent'}   # case-insensitive membership
FA = 'loki/batch/item_factory.py'
ITEM_CLASSES = {'Item', 'FileItem', 'ModuleItem', 'ProcedureItem', 'TypeDefItem', 'InterfaceItem', 'ProcedureBindingItem',
                'ExternalItem', 'item_cls'}


from sa.fold import _has_lower, _enclosing_functions, classify  # noqa: E402


def _ci_container(m, mod, expr):
    """the container expression is a call of a repo function whose every return is ``CaseInsensitiveDict(...)``"""
    if isinstance(expr, ast.Call) and isinstance(expr.func, ast.Name):
        from sa.model import FunctionInfo
        got = m.resolve(mod, expr.func.id)
        if isinstance(got, FunctionInfo):
            rets = [r.value for r in ast.walk(got.node) if isinstance(r, ast.Return)]
            return bool(rets) and all(isinstance(r, ast.Call) and X.call_name_of(r) == 'CaseInsensitiveDict' for r in rets)
    return False


def run(ctx):
    m = ctx.model
    ctx.rule('R1', 'Item.__eq__ compares lower-cased names; Item.__hash__ must hash the lower-cased name')
    ctx.rule('R2', 'every name argument of an Item construction / item_cache store / get_or_create_item call in loki/batch '
                   'is folded (.lower()) or the name of an existing item; parameters are followed to their call sites')
    ctx.rule('R3', 'item_cache is a CaseInsensitiveDict; config matchers lower-case both key and name; seeds are lower-cased')
    item = m.get_class(IT, 'Item')
    eq = item.function('__eq__')
    h = item.function('__hash__')
    if eq is None or h is None:
        raise AnalysisError('Item.__eq__/__hash__ vanished')
    eq_folds = all(_has_lower(n.left) and all(_has_lower(c) for c in n.comparators)
                   for n in ast.walk(eq.node) if isinstance(n, ast.Compare) and isinstance(n.ops[0], ast.Eq))
    h_ret = [r.value for r in ast.walk(h.node) if isinstance(r, ast.Return)]
    h_folds = h_ret and all(_has_lower(r) for r in h_ret)
    facts = {'eq': [ast.unparse(n) for n in ast.walk(eq.node) if isinstance(n, ast.Compare)], 'hash': [ast.unparse(r) for r in h_ret]}
    if not eq_folds:
        ctx.violation('R1', 'Item.__eq__', eq.where, 'Item equality does not lower-case both names', facts=facts)
    elif not h_folds:
        ctx.violation('R1', 'Item.__hash__', h.where,
                      'Item.__eq__ compares lower-cased names but __hash__ hashes the raw name: items equal up to case hash '
                      'differently (set / dict / graph membership diverges)', facts=facts)
    else:
        ctx.judge('R1', 'Item eq/hash', facts=facts)
    # subclasses must not override eq/hash inconsistently
    imod = m.module_by_path(IT)
    for c in imod.classes.values():
        if c is not item and item in m.mro(c):
            if ('__eq__' in c.members) != ('__hash__' in c.members):
                ctx.violation('R1', f'{c.name}:eq-hash-pair', c.where, f'{c.name} overrides only one of __eq__/__hash__')
            else:
                ctx.judge('R1', f'{c.name}:eq-hash-pair', nontrivial=False)

    # ---- R2
    sinks = []
    funcs_by_name = {}
    for rel in (IT, FA, 'loki/batch/scheduler.py', 'loki/batch/sgraph.py'):
        mod = m.module_by_path(rel)
        for fn in _enclosing_functions(mod):
            funcs_by_name.setdefault(fn.name, []).append((mod, fn))
    calls_of = {}
    for name, lst in funcs_by_name.items():
        for mod, fn in lst:
            for n in ast.walk(fn):
                if isinstance(n, ast.Call):
                    cn = X.call_name_of(n)
                    calls_of.setdefault(cn, []).append((mod, fn, n))

    def check_param(fname, pname, depth, trail):
        """all internal call sites of function fname pass a folded value for parameter pname"""
        results = []
        defs = funcs_by_name.get(fname, [])
        if not defs:
            return [('entry', f'{fname}({pname})')]
        mod, fn = defs[0]
        params = [a.arg for a in fn.args.args]
        idx = params.index(pname) - (1 if params and params[0] in ('self', 'cls') else 0)
        sites = [s for s in calls_of.get(fname, []) if s[1] is not fn]
        if not sites:
            return [('entry', f'{fname}({pname})')]
        for smod, sfn, call in sites:
            arg = None
            for k in call.keywords:
                if k.arg == pname:
                    arg = k.value
            if arg is None and idx < len(call.args):
                arg = call.args[idx]
            if arg is None:
                continue
            r = classify(arg, sfn)
            where = f'{smod.relpath}:{call.lineno}'
            if r == 'folded':
                results.append(('folded', where))
            elif isinstance(r, tuple) and depth < 3:
                results += check_param(sfn.name, r[1], depth + 1, trail + [where])
            elif isinstance(r, tuple):
                results.append(('entry', where))
            else:
                results.append(('unfolded', f'{where}: {ast.unparse(arg)}'))
        return results

    nsinks = 0
    for rel in (IT, FA):
        mod = m.module_by_path(rel)
        for fn in _enclosing_functions(mod):
            for n in ast.walk(fn):
                arg = None
                kind = None
                if isinstance(n, ast.Call):
                    cn = X.call_name_of(n)
                    if cn in ITEM_CLASSES and n.args and not (isinstance(n.func, ast.Attribute) and n.func.attr != cn):
                        arg, kind = n.args[0], f'{cn}(...)'
                    elif cn == 'get_or_create_item' and len(n.args) >= 2:
                        arg, kind = n.args[1], 'get_or_create_item(...)'
                elif isinstance(n, ast.Assign) and isinstance(n.targets[0], ast.Subscript) and \
                        ast.unparse(n.targets[0].value) == 'self.item_cache':
                    arg, kind = n.targets[0].slice, 'item_cache[...] ='
                if arg is None:
                    continue
                nsinks += 1
                r = classify(arg, fn)
                where = f'{mod.relpath}:{n.lineno}'
                inst = f'{fn.name}:{kind}:{ast.unparse(arg)}'
                if r == 'folded':
                    ctx.judge('R2', inst, facts={'where': where, 'name_expr': ast.unparse(arg), 'status': 'folded locally'})
                elif isinstance(r, tuple):
                    res = check_param(fn.name, r[1], 0, [where])
                    bad = [x for x in res if x[0] == 'unfolded']
                    if bad:
                        ctx.violation('R2', inst, where,
                                      f'name `{ast.unparse(arg)}` reaches {kind} unfolded: parameter {r[1]} of {fn.name} receives '
                                      f'{bad[0][1]}', facts={'callers': res})
                    else:
                        ctx.judge('R2', inst, nontrivial=any(x[0] == 'folded' for x in res),
                                  facts={'where': where, 'param': r[1], 'callers': res[:8]})
                else:
                    ctx.violation('R2', inst, where, f'name `{ast.unparse(arg)}` reaches {kind} without case folding')
    ctx.floor('R2', 'item-name sinks', nsinks, 15)

    # ---- R3
    fac = m.get_class(FA, 'ItemFactory')
    init = fac.function('__init__')
    ok = any(isinstance(n, ast.Assign) and ast.unparse(n.targets[0]) == 'self.item_cache'
             and X.call_name_of(n.value) == 'CaseInsensitiveDict' for n in ast.walk(init.node))
    (ctx.judge('R3', 'item_cache type') if ok else
     ctx.violation('R3', 'ItemFactory.item_cache', init.where, 'item_cache is not a CaseInsensitiveDict'))
    sch = m.get_function('loki/batch/scheduler.py', 'Scheduler.rekey_item_cache')
    ok = any(isinstance(n, ast.Assign) and 'item_cache' in ast.unparse(n.targets[0]) and X.call_name_of(n.value) == 'CaseInsensitiveDict'
             for n in ast.walk(sch.node))
    (ctx.judge('R3', 'rekey keeps type') if ok else
     ctx.violation('R3', 'Scheduler.rekey_item_cache', sch.where, 'rebuilt item_cache is not a CaseInsensitiveDict'))
    cfg = m.module_by_path('loki/batch/configure.py')
    mk = None
    for c in cfg.classes.values():
        if 'match_item_keys' in c.members:
            mk = c.function('match_item_keys')
    if mk is None:
        raise AnalysisError('match_item_keys vanished')
    lowered = {t.id for n in ast.walk(mk.node) if isinstance(n, ast.Assign) and _has_lower(n.value)
               for t in n.targets if isinstance(t, ast.Name)}
    params = [a.arg for a in mk.node.args.args if a.arg not in ('self', 'cls')]
    need = set(params[:2])
    if need <= lowered:
        ctx.judge('R3', 'match_item_keys folds both', facts={'lowered': sorted(lowered)})
    else:
        ctx.violation('R3', 'match_item_keys', mk.where, f'match_item_keys lower-cases {sorted(lowered)} but not {sorted(need - lowered)}')
    si = m.get_function('loki/batch/scheduler.py', 'Scheduler.__init__')
    seeds = [n for n in ast.walk(si.node) if isinstance(n, ast.Assign) and ast.unparse(n.targets[0]) == 'self.seeds']
    def seed_ok(v):
        if _has_lower(v):
            return True
        if isinstance(v, ast.Call) and (X.dotted_attr(v.func) or '').startswith('self.'):
            callee = m.member_function(m.get_class('loki/batch/scheduler.py', 'Scheduler'), v.func.attr)
            if callee is not None:
                rets = [r.value for r in ast.walk(callee.node) if isinstance(r, ast.Return) and r.value is not None]
                return bool(rets) and all(classify(r, callee.node) == 'folded' for r in rets)
        return False
    ok = seeds and all(seed_ok(n.value) for n in seeds)
    (ctx.judge('R3', 'seeds folded') if ok else
     ctx.violation('R3', 'Scheduler.seeds', si.where, 'seed names are stored without lower-casing'))

    # ---- R4
    ctx.rule('R4', 'ItemFactory: every local *_name(s) assigned from an expression over IR-node attributes is folded as a whole')
    ctx.rule('R5', 'dependency.py: keys built from suffix options are folded or looked up in case-insensitive containers')
    n4 = 0
    for mem in fac.members.values():
        if mem.kind != 'func':
            continue
        fn = mem.node
        # IR-rooted variables: the parameters that carry IR nodes / symbols / scopes (everything but the factory itself, the
        # configuration and plain strings), and locals bound to attributes or elements of those
        NOT_IR = {'self', 'cls', 'config', 'ignore', 'frontend_args', 'name', 'item_name', 'scope_name', 'item_cls', 'path', 'source',
                  'proc_name', 'type_name', 'symbol_name', 'local_name'}
        params_ = [a.arg for a in fn.args.args + fn.args.kwonlyargs]
        roots = {p_ for p_ in params_ if p_ not in NOT_IR and not isinstance(p_, int)}
        # string-typed parameters are recognised by use, not by name: a parameter that is sliced / split / lower-cased is a string
        for x in ast.walk(fn):
            if isinstance(x, ast.Call) and isinstance(x.func, ast.Attribute) and x.func.attr in ('split', 'rsplit', 'find', 'rfind', 'partition') \
                    and isinstance(x.func.value, ast.Name):
                roots.discard(x.func.value.id)
            if isinstance(x, ast.Subscript) and isinstance(x.value, ast.Name) and isinstance(x.slice, ast.Slice):
                roots.discard(x.value.id)
        grew = True
        while grew:
            grew = False
            for x in ast.walk(fn):
                tg = it = None
                if isinstance(x, (ast.For, ast.comprehension)):
                    tg, it = x.target, x.iter
                elif isinstance(x, ast.Assign) and len(x.targets) == 1 and isinstance(x.value, (ast.Attribute, ast.Subscript, ast.Name)):
                    tg, it = x.targets[0], x.value
                if tg is None:
                    continue
                base = it
                while isinstance(base, (ast.Attribute, ast.Subscript, ast.Call)):
                    base = base.value if not isinstance(base, ast.Call) else base.func
                if isinstance(base, ast.Name) and base.id in roots and not ast.unparse(it).startswith('self.'):
                    if isinstance(it, ast.Attribute) and it.attr in ('name', 'basename', 'use_name', 'module', 'local_name'):
                        continue        # that is a name string, not an IR object
                    for t_ in ast.walk(tg):
                        if isinstance(t_, ast.Name) and t_.id not in roots:
                            roots.add(t_.id)
                            grew = True
        for n in ast.walk(fn):
            if isinstance(n, ast.Assign) and len(n.targets) == 1 and isinstance(n.targets[0], ast.Name):
                val = n.value
                srcs = {ast.unparse(a.value) for a in ast.walk(val) if isinstance(a, ast.Attribute) and isinstance(a.value, ast.Name)
                        and a.attr in ('name', 'basename', 'use_name', 'module', 'parent', 'type', 'name_parts')}
                if not srcs & roots:
                    continue
                if not any(isinstance(a, ast.Attribute) and a.attr in ('name', 'basename', 'use_name', 'module', 'name_parts')
                           for a in ast.walk(val)):
                    continue
                if isinstance(val, ast.Call) and X.call_name_of(val) in ('CaseInsensitiveDict', 'CaseInsensitiveDefaultDict'):
                    continue        # a case-insensitive container, not a name
                n4 += 1
                r = classify(val, fn, at=n.lineno)
                inst = f'ItemFactory.{mem.name}:{n.targets[0].id}@{sum(1 for x in ctx.instances if x[1].startswith(f"ItemFactory.{mem.name}:{n.targets[0].id}"))}'
                if r == 'folded':
                    ctx.judge('R4', inst, facts={'expr': ast.unparse(val)[:100]})
                    continue
                # unfolded: follow the value (iteration / plain re-binding) into key positions
                derived = {n.targets[0].id}
                changed = True
                while changed:
                    changed = False
                    for x in ast.walk(fn):
                        pairs = []
                        if isinstance(x, (ast.For, ast.comprehension)):
                            pairs.append((x.target, x.iter))
                        elif isinstance(x, ast.Assign) and x is not n:
                            pairs += [(t, x.value) for t in x.targets]
                        elif isinstance(x, ast.NamedExpr):
                            pairs.append((x.target, x.value))
                        for tgt, src_ in pairs:
                            if _has_lower(src_):
                                continue
                            if {y.id for y in ast.walk(src_) if isinstance(y, ast.Name)} & derived and \
                                    not isinstance(src_, ast.Call) or (isinstance(src_, ast.Call) and X.call_name_of(src_) in ('tuple', 'as_tuple', 'list')
                                                                       and {y.id for y in ast.walk(src_) if isinstance(y, ast.Name)} & derived):
                                for t in ast.walk(tgt):
                                    if isinstance(t, ast.Name) and t.id not in derived:
                                        derived.add(t.id)
                                        changed = True
                uses = []
                for x in ast.walk(fn):
                    if getattr(x, 'lineno', 0) <= n.lineno:
                        continue
                    key = None
                    if isinstance(x, ast.Call) and isinstance(x.func, ast.Attribute) and x.func.attr == 'get' and x.args:
                        key = None if _ci_container(m, fac.module, x.func.value) else x.args[0]
                    elif isinstance(x, ast.Subscript) and not isinstance(x.ctx, ast.Store):
                        key = None if _ci_container(m, fac.module, x.value) else x.slice
                    elif isinstance(x, ast.Compare) and isinstance(x.ops[0], (ast.In, ast.NotIn, ast.Eq, ast.NotEq)):
                        # membership in an IR scope compares through expression symbols (case-insensitive string equality)
                        # membership in an IR scope / a map of an IR node compares through expression symbols or
                        # CaseInsensitiveDicts; the item cache is a CaseInsensitiveDict (R3)
                        croot = x.comparators[0]
                        while isinstance(croot, (ast.Attribute, ast.Subscript)):
                            croot = croot.value
                        if isinstance(x.ops[0], (ast.In, ast.NotIn)) and ((isinstance(croot, ast.Name) and croot.id in roots)
                                                                       or ast.unparse(x.comparators[0]) == 'self.item_cache'):
                            continue
                        for side in [x.left] + x.comparators:
                            if isinstance(side, ast.Name) and side.id in derived:
                                uses.append(ast.unparse(x))
                    if key is not None and isinstance(key, ast.Name) and key.id in derived:
                        uses.append(ast.unparse(x))
                if uses:
                    ctx.violation('R4', f'ItemFactory.{mem.name}:{n.targets[0].id}', f'{fac.module.relpath}:{n.lineno}',
                                  f'`{n.targets[0].id} = {ast.unparse(val)[:90]}` is not lower-cased as a whole ({r}) and reaches the '
                                  f'look-up `{uses[0][:70]}`: the spelling used at the use site decides whether the (lower-case) item name '
                                  f'is found', instance=inst, facts={'derived_names': sorted(derived), 'uses': uses[:3]})
                else:
                    ctx.judge('R4', inst, nontrivial=False, facts={'expr': ast.unparse(val)[:100], 'note': 'unfolded but only folded uses'})
    ctx.floor('R4', 'IR-derived name locals in ItemFactory', n4, 10)
    # ---- R5
    dep = m.module_by_path('loki/transformations/dependency.py')
    SUFFIX_ATTRS = ('self.suffix', 'self.module_suffix', 'mode_rename', 'self.rename_suffix')
    n5 = 0
    for fn in [n for n in ast.walk(dep.tree) if isinstance(n, (ast.FunctionDef,))]:
        suffixed = {}
        for n in ast.walk(fn):
            if isinstance(n, ast.Assign) and len(n.targets) == 1 and isinstance(n.targets[0], ast.Name) \
                    and any(sa in ast.unparse(n.value) for sa in SUFFIX_ATTRS) and isinstance(n.value, (ast.JoinedStr, ast.Call, ast.BinOp)):
                suffixed[n.targets[0].id] = n
        if not suffixed:
            continue
        ci_containers = {ast.unparse(n.targets[0]) for n in ast.walk(fn) if isinstance(n, ast.Assign)
                         and isinstance(n.value, ast.Call) and X.call_name_of(n.value) == 'CaseInsensitiveDict'}
        for n in ast.walk(fn):
            key = cont = None
            if isinstance(n, ast.Compare) and isinstance(n.ops[0], (ast.In, ast.NotIn)) and isinstance(n.left, ast.Name):
                key, cont = n.left.id, ast.unparse(n.comparators[0])
            elif isinstance(n, ast.Subscript) and isinstance(n.slice, ast.Name):
                key, cont = n.slice.id, ast.unparse(n.value)
            elif isinstance(n, ast.Call) and isinstance(n.func, ast.Attribute) and n.func.attr == 'get' and n.args and isinstance(n.args[0], ast.Name):
                key, cont = n.args[0].id, ast.unparse(n.func.value)
            if key not in suffixed:
                continue
            n5 += 1
            folded = classify(suffixed[key].value, fn, at=suffixed[key].lineno) == 'folded'
            params = {a.arg for a in fn.args.args}
            ci = cont in ci_containers or 'item_cache' in cont or cont in ('scope',) or cont.endswith('.ir')
            # a dict handed in as a parameter: judged at the call site that builds it
            by_param = cont in params
            inst = f'{fn.name}:{key} in {cont}'
            if folded or ci:
                ctx.judge('R5', inst, facts={'folded': folded, 'case_insensitive_container': ci})
            elif by_param:
                # find the constructions of that argument in the module
                ok = False
                for c in ast.walk(dep.tree):
                    if isinstance(c, ast.Call) and X.call_name_of(c) == fn.name:
                        for a in list(c.args) + [k.value for k in c.keywords]:
                            if isinstance(a, ast.Name):
                                for asg in ast.walk(dep.tree):
                                    if isinstance(asg, ast.Assign) and ast.unparse(asg.targets[0]) == a.id and isinstance(asg.value, ast.Call) \
                                            and X.call_name_of(asg.value) == 'CaseInsensitiveDict':
                                        ok = True
                (ctx.judge('R5', inst, facts={'container_built_as': 'CaseInsensitiveDict at call site'}) if ok else
                 ctx.violation('R5', f'{fn.name}:{key}', f'{dep.relpath}:{n.lineno}',
                               f'`{key}` (built from a suffix option, not lower-cased) is looked up in `{cont}`, which no caller builds as a '
                               f'CaseInsensitiveDict: an upper-case suffix makes the look-up miss'))
            else:
                ctx.violation('R5', f'{fn.name}:{key}', f'{dep.relpath}:{n.lineno}',
                              f'`{key} = {ast.unparse(suffixed[key].value)[:70]}` contains a name-valued option and is neither lower-cased nor '
                              f'looked up in a case-insensitive container (`{cont}`): the result depends on the letter case of the option')
    ctx.floor('R5', 'suffix-derived keys used in look-ups', n5, 3)


MUTANTS = [
    Mutant('module-item-name-raw', IT, "item_factory.get_or_create_item(ModuleItem, node.name.lower(), self.name, config)",
           "item_factory.get_or_create_item(ModuleItem, node.name, self.name, config)", expect=('R2', 'get_or_create_item'), quick=True),
    Mutant('typedef-name-raw', FA, "            scope_name = node.parent.name.lower()\n            item_name = f'{scope_name}#{node.name}'.lower()\n",
           "            scope_name = node.parent.name.lower()\n            item_name = f'{scope_name}#{node.name}'\n",
           expect=('R2', 'item_name')),
    Mutant('eq-one-sided', IT, "            return self.name.lower() == other.lower()", "            return self.name.lower() == other",
           expect=('R1', 'Item.__eq__')),
    Mutant('seeds-raw', 'loki/batch/scheduler.py', "            self.seeds = tuple(seed.lower() for seed in as_tuple(seed_routines))",
           "            self.seeds = tuple(seed for seed in as_tuple(seed_routines))", expect=('R3', 'Scheduler.seeds')),
    Mutant('cache-plain-dict', FA, "        self.item_cache = CaseInsensitiveDict()", "        self.item_cache = {}", expect=('R3', 'item_cache')),
    Mutant('use-name-raw', FA, "symbol_names = tuple(str(smbl.type.use_name or smbl).lower() for smbl in node.symbols)",
           "symbol_names = tuple(smbl.type.use_name or smbl.name.lower() for smbl in node.symbols)", expect=('R4', 'symbol_names')),
    Mutant('suffix-call-name-raw', 'loki/transformations/dependency.py', "            new_call_name = f'{call_name}{self.suffix}'.lower()\n            if new_call_name in new_dependencies:",
           "            new_call_name = f'{call_name}{self.suffix}'\n            if new_call_name in new_dependencies:", expect=None),     # still a CaseInsensitiveDict at the call site
    Mutant('suffix-call-name-raw+plain-dict', 'loki/transformations/dependency.py', "            new_call_name = f'{call_name}{self.suffix}'.lower()\n            if new_call_name in new_dependencies:",
           "            new_call_name = f'{call_name}{self.suffix}'\n            if new_call_name in new_dependencies:", expect=('R5', 'new_call_name'),
           also=[('loki/transformations/dependency.py', "new_dependencies_dic = CaseInsensitiveDict((new_item.local_name, new_item)\n                                for new_item in new_dependencies)",
                  "new_dependencies_dic = {dep.local_name: dep for dep in new_dependencies}")]),
    Mutant('repair-hash', IT, "        return hash(self.name)", "        return hash(self.name.lower())", expect=None),
]
