"""
C39  Parametrisation preserves behaviour for matching inputs (guard clause only).

Only the last clause is decided: "with the abort/replace option the generated
guard triggers for every other input".  The guard is built in
``ParametriseTransformation.transform_subroutine``; its truth is in the shape of
that code:
 R1  the guard compares the right things: the condition is
     ``Comparison(<renamed dummy of key>, '!=', <literal of dic2p's value for the same key>)``
     -- operator ``!=``, left operand looked up under the *same* key the value
     belongs to (both come from one iteration over ``dic2p.items()``).
 R2  the guard is always installed at an entry point: the ``Conditional`` built
     from that condition is added to the routine body under no other condition
     than "the renamed dummy exists in the routine" (not under the presence of an
     abort callback, not under ``replace_by_value``), its body contains the abort
     statements, and the default abort sequence ends in a ``STOP``.
 R3  writer / reader agreement on the renamed dummy: the name given to a
     parametrised dummy argument and the name under which the guard looks it up
     are built by the same pattern, and exactly the dummies whose name is a key of
     ``dic2p`` are renamed.
 R4  caller / callee agreement down the call tree: the value handed to a callee is
     recorded under the *callee's* dummy name (inverse of ``call.arg_iter()``)
     and is the caller's value of the variable that was passed.
 R5  every occurrence counts: the occurrences of parametrised variables that are
     recorded for the callee are the ones removed from the call -- no first-match
     look-up (``arguments.index(v)``) next to a filter that removes all of them.
 R6  per argument kind: a pairing of dummies and actuals that also covers keyword
     arguments (``call.arg_iter()``) fixes dummies for keyword-passed variables,
     so the rebuilt call must filter ``kwarguments=`` as well; a positional
     pairing (``zip(call.routine.arguments, call.arguments)``) goes with the
     positional filter alone.
 R7  one value per dummy: before the record of a callee is replaced, the previous
     record (an earlier call of the same routine, or another caller) is read and a
     conflicting value raises -- otherwise the last call silently wins.
Not decided: equivalence of the parametrised code for matching inputs (value
level), the replace-by-value inlining.
"""
import ast

from sa import exprs as X
from sa.model import AnalysisError
from sa.mutate import Mutant

PROP = 'C39'

META = dict(
    technique='guard / control-dependence analysis and def-use matching inside ParametriseTransformation.transform_subroutine: '
              'operands and operator of the generated comparison, the conditions under which the guard is installed, '
              'pattern agreement between the renaming and the look-up f-strings, key/value provenance of the data handed to callees',
    level='Decides structural necessary conditions of the guard clause only ("the generated guard triggers for every other '
          'input"): the guard tests `renamed dummy != fixed value` for the same key, is installed unconditionally at entry points '
          'with an aborting body, and caller and callee agree on which dummy carries which value. Does NOT decide the behavioural '
          'equivalence for matching inputs.',
    note='Claimed for the guard clause; the first sentence of the property is value-level.',
    ref='DESIGN.md section 3, C39',
)

FILE = 'loki/transformations/parametrise.py'
CLS = 'ParametriseTransformation'


def _fpattern(e):
    """constant skeleton of an f-string: ('parametrised_', None) -> 'parametrised_{}'"""
    if isinstance(e, ast.JoinedStr):
        return ''.join(v.value if isinstance(v, ast.Constant) else '{}' for v in e.values)
    return None


def _fholes(e):
    return [ast.unparse(v.value) for v in e.values if isinstance(v, ast.FormattedValue)] if isinstance(e, ast.JoinedStr) else []


def run(ctx):
    m = ctx.model
    ctx.rule('R1', "guard condition = Comparison(variable_map[<pattern>(key)], '!=', Literal(value)) with key, value from one iteration of dic2p.items()")
    ctx.rule('R2', 'the guard Conditional is added to routine.body under no condition other than entry point / renamed dummy present; '
                   'its body carries the abort statements; the default abort ends in STOP')
    ctx.rule('R3', 'the renamed dummy name and the looked-up name use the same pattern; renaming applies iff the dummy name is a key of dic2p')
    ctx.rule('R4', "the value recorded for a callee is dic2p[<passed variable>.name] under the callee's dummy name (inverse of call.arg_iter())")
    T = m.get_class(FILE, CLS)
    ts = T.function('transform_subroutine')
    if ts is None:
        raise AnalysisError(f'{CLS}.transform_subroutine vanished')
    fn = ts.node
    # ---- the loop over dic2p.items()
    loops = [n for n in ast.walk(fn) if isinstance(n, ast.For) and '.items()' in ast.unparse(n.iter) and isinstance(n.target, ast.Tuple)
             and len(n.target.elts) == 2 and any(isinstance(c, ast.Call) and (X.dotted_attr(c.func) or '').endswith('Comparison') for c in ast.walk(n))]
    if len(loops) != 1:
        raise AnalysisError(f'{CLS}.transform_subroutine: expected one loop over <dict>.items() building a Comparison, found {len(loops)}')
    lp = loops[0]
    kname, vname = (e.id for e in lp.target.elts)
    dname = ast.unparse(lp.iter).replace('reversed(', '').rstrip(')').replace('.items(', '')
    cmp_ = next(c for c in ast.walk(lp) if isinstance(c, ast.Call) and (X.dotted_attr(c.func) or '').endswith('Comparison'))
    if len(cmp_.args) != 3:
        raise AnalysisError('guard Comparison is not built from three positional arguments')
    left, op, right = cmp_.args

    def resolve(e):
        """follow a local alias assigned once inside the loop"""
        if isinstance(e, ast.Name):
            defs = [a.value for a in ast.walk(lp) if isinstance(a, ast.Assign) and any(isinstance(t, ast.Name) and t.id == e.id for t in a.targets)]
            if len(defs) == 1:
                return defs[0]
        return e
    left, right = resolve(left), resolve(right)
    where = f'{ts.module.relpath}:{cmp_.lineno}'
    # operator
    opv = op.value if isinstance(op, ast.Constant) else None
    if opv in ('!=', '/='):
        ctx.judge('R1', 'guard:operator', facts={'operator': opv})
    else:
        ctx.violation('R1', 'transform_subroutine:guard:operator', where,
                      f'the sanity check compares with `{ast.unparse(op)}` instead of `!=`: it does not trigger for every input in which '
                      f'the argument differs from the fixed value')
    # left operand: a look-up of the renamed dummy in the routine's variable map (subscript or .get, possibly through an alias of the map)
    look = next((x for x in ast.walk(left) if isinstance(x, ast.JoinedStr)), None)
    vm_alias = set(X.names_assigned_from(fn, '.variable_map'))
    via_map = 'variable_map' in ast.unparse(left) or any(isinstance(x, ast.Name) and x.id in vm_alias for x in ast.walk(left))
    if look is None or _fpattern(look) is None or not via_map:
        raise AnalysisError(f'guard left operand `{ast.unparse(left)}` is not a variable_map look-up by f-string')
    if _fholes(look) == [kname]:
        ctx.judge('R1', 'guard:left-operand', facts={'lookup': ast.unparse(look)})
    else:
        ctx.violation('R1', 'transform_subroutine:guard:left-operand', where,
                      f'the variable tested by the guard is looked up as `{ast.unparse(look)}`, which is not built from the key `{kname}` '
                      f'whose fixed value it is compared with')
    # right operand: Literal(value)
    rnames = {n.id for n in ast.walk(right) if isinstance(n, ast.Name)}
    is_lit = isinstance(right, ast.Call) and (X.dotted_attr(right.func) or '').endswith('Literal') and len(right.args) == 1 \
        and isinstance(right.args[0], ast.Name) and right.args[0].id == vname
    if is_lit or (isinstance(right, ast.Name) and right.id == vname):
        ctx.judge('R1', 'guard:right-operand', facts={'value': ast.unparse(right)})
    else:
        ctx.violation('R1', 'transform_subroutine:guard:right-operand', where,
                      f'the guard compares with `{ast.unparse(right)}` rather than with the fixed value `{vname}` of the same key '
                      f'(names used: {sorted(rnames)})')
    # ---- R2 placement
    cname = X.names_assigned_from(lp, 'Comparison(')
    conds = [a for a in ast.walk(lp) if isinstance(a, ast.Call) and (X.dotted_attr(a.func) or '').endswith('Conditional')
             and any(k.arg == 'condition' and (ast.unparse(k.value) in cname or k.value is cmp_) for k in a.keywords)]
    if len(conds) != 1:
        raise AnalysisError('the Conditional built from the guard condition was not found')
    cnd = conds[0]
    cvar = X.names_assigned_from(lp, ast.unparse(cnd)[:40])
    ins = [(c, g) for c, g in X.nodes_with_guards(fn, lambda x: isinstance(x, ast.Call) and isinstance(x.func, ast.Attribute)
                                                  and x.func.attr in ('prepend', 'insert', 'append') and 'body' in ast.unparse(x.func.value)
                                                  and any(ast.unparse(a) in cvar or a is cnd for a in x.args))]
    if not ins:
        ctx.violation('R2', 'transform_subroutine:guard:not-installed', f'{ts.module.relpath}:{cnd.lineno}',
                      'the guard Conditional is built but never added to the routine body')
    for c, guards in ins:
        allowed = []
        bad = []
        for g in guards:
            names = {n.id for n in ast.walk(ast.parse(g, mode='eval')) if isinstance(n, ast.Name)}
            attrs = {n.attr for n in ast.walk(ast.parse(g, mode='eval')) if isinstance(n, ast.Attribute)}
            if g.startswith('not ('):
                bad.append(g)
            elif 'variable_map' in attrs and _fpattern(next((n for n in ast.walk(ast.parse(g, mode='eval')) if isinstance(n, ast.JoinedStr)), None)):
                allowed.append(g)
            elif attrs & {'abort_callback', 'replace_by_value'} or 'kwargs' in names:
                bad.append(g)
            else:
                allowed.append(g)       # dic2p non-empty, entry-point decision
        if bad:
            ctx.violation('R2', 'transform_subroutine:guard:conditional-installation', f'{ts.module.relpath}:{c.lineno}',
                          f'the sanity check is only added under `{" and ".join(bad)}`: entry points parametrised without that option '
                          f'get no guard and silently compute with the fixed value for every other input')
        else:
            ctx.judge('R2', 'guard:installed', facts={'guards': allowed})
    exits = [x for x in ast.walk(lp) if isinstance(x, (ast.Break, ast.Return))]
    if exits:
        ctx.violation('R2', 'transform_subroutine:guard:loop-exit', f'{ts.module.relpath}:{exits[0].lineno}',
                      f'the loop that installs one guard per parametrised variable is left early (`{ast.unparse(exits[0])}`): the keys of '
                      f'`{dname}` not yet visited get no guard although their dummies are replaced by the fixed value')
    else:
        ctx.judge('R2', 'guard:every key visited')
    # body of the conditional carries the abort statements
    bkw = next((k.value for k in cnd.keywords if k.arg == 'body'), None)
    bexpr = resolve(bkw) if bkw is not None else None
    abort_names = {t.id for a, g in X.nodes_with_guards(lp, lambda x: isinstance(x, ast.Assign)) for t in a.targets
                   if isinstance(t, ast.Name) and any('abort_callback is None' in g_ for g_ in g) and not any(
                       isinstance(k, ast.Dict) for k in [a.value])}
    if bexpr is not None and abort_names and abort_names & {n.id for n in ast.walk(bexpr) if isinstance(n, ast.Name)}:
        ctx.judge('R2', 'guard:body-aborts', facts={'body': ast.unparse(bexpr)})
    else:
        ctx.violation('R2', 'transform_subroutine:guard:body', f'{ts.module.relpath}:{cnd.lineno}',
                      f'the body of the guard (`{ast.unparse(bexpr) if bexpr is not None else None}`) does not contain the abort statements '
                      f'({sorted(abort_names)}): the guard triggers without stopping')
    # default abort: last statement is a STOP
    dflt = [a for a, g in X.nodes_with_guards(lp, lambda x: isinstance(x, ast.Assign)) if any(isinstance(t, ast.Name) and t.id in abort_names for t in a.targets)
            and any('abort_callback is None' in g_ and not g_.startswith('not (') for g_ in g)]
    if not dflt:
        raise AnalysisError('default abort sequence (abort_callback is None) not found')
    for a in dflt:
        elts = a.value.elts if isinstance(a.value, (ast.Tuple, ast.List)) else []
        texts = [next((k.value.value for k in e.keywords if k.arg == 'text' and isinstance(k.value, ast.Constant)), None)
                 if isinstance(e, ast.Call) else None for e in elts]
        stops = [t for t in texts if isinstance(t, str) and t.strip().upper().split()[:2] in (['STOP'], ['ERROR', 'STOP']) or
                 (isinstance(t, str) and t.strip().upper().startswith(('STOP', 'ERROR STOP')))]
        if stops and texts and texts[-1] in stops:
            ctx.judge('R2', 'guard:default-abort-stops', facts={'stop': stops})
        else:
            ctx.violation('R2', 'transform_subroutine:guard:default-abort', f'{ts.module.relpath}:{a.lineno}',
                          'the default abort sequence no longer ends in a STOP statement: execution continues with the fixed value')
    # ---- R3 rename / look-up agreement
    ren = [(c, g) for c, g in X.nodes_with_guards(fn, lambda x: isinstance(x, ast.Call) and isinstance(x.func, ast.Attribute) and x.func.attr == 'clone'
                                                  and any(k.arg == 'name' and isinstance(k.value, ast.JoinedStr) for k in x.keywords))]
    if len(ren) != 1:
        raise AnalysisError(f'expected one renaming clone(name=f"...") of a dummy argument, found {len(ren)}')
    rc, rg = ren[0]
    rname = next(k.value for k in rc.keywords if k.arg == 'name')
    argv = ast.unparse(rc.func.value)
    if _fpattern(rname) == _fpattern(look) and _fholes(rname) == [f'{argv}.name']:
        ctx.judge('R3', 'rename/look-up pattern', facts={'pattern': _fpattern(rname)})
    else:
        ctx.violation('R3', 'transform_subroutine:rename-lookup-mismatch', f'{ts.module.relpath}:{rc.lineno}',
                      f'a parametrised dummy is renamed to `{ast.unparse(rname)}` but the guard looks it up as `{ast.unparse(look)}`: the '
                      f'look-up fails, no guard is generated')
    keyset = set(X.names_assigned_from(fn, f'list({dname})')) | {dname}
    want = [f'not ({argv}.name not in {k})' for k in keyset] + [f'{argv}.name in {k}' for k in keyset]
    if any(g in want for g in rg):
        ctx.judge('R3', 'rename iff key of dic2p', facts={'guards': rg})
    else:
        ctx.violation('R3', 'transform_subroutine:rename-selection', f'{ts.module.relpath}:{rc.lineno}',
                      f'the dummy is renamed under `{" and ".join(rg)}`, not exactly when its name is a key of `{dname}`')
    # ---- R4 caller / callee agreement
    inv = [t.id for a in ast.walk(fn) if isinstance(a, ast.Assign) and isinstance(a.value, ast.DictComp) and len(a.value.generators) == 1
           and isinstance(a.value.generators[0].target, ast.Tuple) and len(a.value.generators[0].target.elts) == 2
           and ('.items()' in ast.unparse(a.value.generators[0].iter) or '.arg_iter()' in ast.unparse(a.value.generators[0].iter))
           and ast.unparse(a.value.key) == ast.unparse(a.value.generators[0].target.elts[1])
           and ast.unparse(a.value.value) == ast.unparse(a.value.generators[0].target.elts[0])
           for t in a.targets if isinstance(t, ast.Name)]
    amap = X.names_assigned_from(fn, '.arg_iter()')
    inv_ok = [n for n in inv if any(isinstance(a, ast.Assign) and any(isinstance(t, ast.Name) and t.id == n for t in a.targets)
                                    and ('.arg_iter()' in ast.unparse(a.value) or any(am in ast.unparse(a.value) for am in amap))
                                    for a in ast.walk(fn))]
    # the store `D[<callee dummy>] = <value>`: the dummy is obtained either through the inverse of call.arg_iter() or
    # positionally, as loop target of zip(<call>.routine.arguments, <call>.arguments)
    stores = []
    positional = {}
    pairing_covers_keywords = []
    for l in ast.walk(fn):
        if isinstance(l, ast.For) and isinstance(l.iter, ast.Call) and X.call_name_of(l.iter) == 'zip' and len(l.iter.args) == 2 \
                and isinstance(l.target, ast.Tuple) and len(l.target.elts) == 2 and ast.unparse(l.iter.args[0]).endswith('.routine.arguments') \
                and ast.unparse(l.iter.args[1]).endswith('.arguments') and not ast.unparse(l.iter.args[1]).endswith('.routine.arguments'):
            positional[l.target.elts[0].id] = (l.target.elts[1].id, l)
        # `for dummy, arg in <call>.arg_iter()`: the same pairing, extended to keyword arguments
        if isinstance(l, ast.For) and isinstance(l.iter, ast.Call) and isinstance(l.iter.func, ast.Attribute) and l.iter.func.attr == 'arg_iter' \
                and isinstance(l.target, ast.Tuple) and len(l.target.elts) == 2 and all(isinstance(e_, ast.Name) for e_ in l.target.elts):
            positional[l.target.elts[0].id] = (l.target.elts[1].id, l)
            pairing_covers_keywords.append(l)
    for a in ast.walk(fn):
        if isinstance(a, ast.Assign) and isinstance(a.targets[0], ast.Subscript):
            key_e = a.targets[0].slice
            p_ = [n.slice for n in ast.walk(key_e) if isinstance(n, ast.Subscript) and isinstance(n.value, ast.Name) and n.value.id in inv]
            if p_:
                stores.append((a, p_[0]))
                continue
            dn = [n.id for n in ast.walk(key_e) if isinstance(n, ast.Name) and n.id in positional]
            if dn and any(a in list(ast.walk(positional[dn[0]][1])) for _ in (0,)):
                stores.append((a, ast.Name(id=positional[dn[0]][0], ctx=ast.Load())))
                inv_positional = True
    if len(stores) != 1:
        raise AnalysisError(f'expected one store keyed by the callee dummy (inverse of call.arg_iter(), or zip of dummies and actuals), found {len(stores)}')
    st, passed_e = stores[0]
    passed = ast.unparse(passed_e)
    if any(isinstance(n, ast.Name) and n.id in positional for n in ast.walk(st.targets[0].slice)):
        inv_ok = ['positional']
    cont = st.targets[0].value
    to_succ = 'trafo_data' in ast.unparse(cont) or (isinstance(cont, ast.Name) and any(
        isinstance(a, ast.Assign) and isinstance(a.value, ast.Name) and a.value.id == cont.id and 'trafo_data' in ast.unparse(a.targets[0])
        for a in ast.walk(fn)))
    if not to_succ:
        raise AnalysisError(f'`{ast.unparse(st)[:80]}`: the container does not reach the successor trafo_data')

    def value_ok(v, p):
        """is ``v`` the caller's fixed value of the passed variable ``p``?"""
        txt = ast.unparse(v)
        if txt in (f'{dname}[{p}.name]', f'{dname}[str({p}.name)]', f'{dname}[{p}.name.lower()]'):
            return True, ''
        if isinstance(v, ast.Name):
            # loop target of zip(A, B) together with p?
            for l in ast.walk(fn):
                if isinstance(l, ast.For) and isinstance(l.target, ast.Tuple) and isinstance(l.iter, ast.Call) and X.call_name_of(l.iter) == 'zip' \
                        and len(l.target.elts) == len(l.iter.args) == 2:
                    tn = [ast.unparse(e) for e in l.target.elts]
                    if v.id in tn and p in tn:
                        A, B = (l.iter.args[tn.index(p)], l.iter.args[tn.index(v.id)])
                        ca, cb = (_comp_of(fn, x) for x in (A, B))
                        if ca is None or cb is None:
                            return False, f'`{v.id}` and `{p}` are paired by zip({ast.unparse(A)}, {ast.unparse(B)}) of two lists whose construction is not recognised'
                        ia, ib = (ast.unparse(c.generators[0].iter) for c in (ca, cb))
                        if ia != ib:
                            return False, (f'`{p}` and `{v.id}` are paired by zip() of two lists built in different orders (`{ia}` vs `{ib}`): with two '
                                           f'or more parametrised variables passed in an order other than that of `{dname}` the callee fixes the wrong value')
                        xb = cb.generators[0].target.id if isinstance(cb.generators[0].target, ast.Name) else None
                        if ast.unparse(cb.elt) in (f'{dname}[{xb}.name]', f'{dname}[{xb}]'):
                            return True, ''
                        return False, f'the values list `{ast.unparse(cb)}` does not look the passed variable up in `{dname}`'
            defs = [a.value for a in ast.walk(fn) if isinstance(a, ast.Assign) and any(isinstance(t, ast.Name) and t.id == v.id for t in a.targets)]
            if len(defs) == 1:
                return value_ok(defs[0], p)
        return False, f'the value `{txt}` is not `{dname}[{p}.name]`'
    run_r5(ctx, fn, ts, dname)
    run_r7(ctx, fn, ts, _outer_store(fn, st))
    # (a dummy looked up through the inverse of arg_iter() for a variable taken from call.arguments is a positional pairing)
    run_r6(ctx, fn, ts, st, bool(pairing_covers_keywords) and any(
        isinstance(n, ast.Name) and n.id in positional and positional[n.id][1] in pairing_covers_keywords for n in ast.walk(st.targets[0].slice)))
    okv, why = value_ok(st.value, passed)
    if inv_ok and okv:
        ctx.judge('R4', 'callee data: key = callee dummy, value = caller value of the passed variable',
                  facts={'key': ast.unparse(st.targets[0].slice), 'value': ast.unparse(st.value)})
    else:
        what = why if inv_ok else 'the key is not the callee dummy obtained from the inverse of call.arg_iter()'
        ctx.violation('R4', 'transform_subroutine:callee-data', f'{ts.module.relpath}:{st.lineno}',
                      f'`{ast.unparse(st)[:140]}`: {what}: the callee fixes a different dummy, or a different value, than the caller passed')


def run_r6(ctx, fn, ts, st, covers_keywords):
    """arguments that fix a dummy of the callee == arguments removed from the call, per argument kind (positional / keyword)"""
    ctx.rule('R6', 'a parametrised variable fixes a dummy of the callee only where it is also removed from the call: a pairing that covers '
                   'keyword arguments (call.arg_iter()) needs `kwarguments=` filtered in the rebuilt call')
    clones = [c for c in ast.walk(fn) if isinstance(c, ast.Call) and isinstance(c.func, ast.Attribute) and c.func.attr in ('clone', '_rebuild')
              and any(k.arg == 'arguments' for k in c.keywords)]

    def filtered(v):
        if isinstance(v, ast.Name):
            defs = [a.value for a in ast.walk(fn) if isinstance(a, ast.Assign) and any(isinstance(t, ast.Name) and t.id == v.id for t in a.targets)]
            return any(filtered(d) for d in defs)
        return any(isinstance(c, (ast.GeneratorExp, ast.ListComp)) and any(
            isinstance(i_, ast.Compare) and isinstance(i_.ops[0], ast.NotIn) for g in c.generators for i_ in g.ifs) for c in ast.walk(v))
    clones = [c for c in clones if filtered(next(k.value for k in c.keywords if k.arg == 'arguments'))]
    if len(clones) != 1:
        raise AnalysisError(f'transform_subroutine: expected one rebuilt call with filtered `arguments=`, found {len(clones)}')
    c = clones[0]
    kw = next((k.value for k in c.keywords if k.arg == 'kwarguments'), None)
    strips_keywords = kw is not None and filtered(kw)
    facts = {'pairing_covers_keyword_arguments': covers_keywords, 'call_strips_keyword_arguments': strips_keywords}
    if covers_keywords and not strips_keywords:
        ctx.violation('R6', 'transform_subroutine:keyword-argument-fixed-but-kept', f'{ts.module.relpath}:{st.lineno}',
                      f'`{ast.unparse(st)[:90]}` is reached for keyword arguments too (the pairing comes from arg_iter()), but '
                      f'`{ast.unparse(c)[:70]}` removes parametrised variables from the positional arguments only: for `call sub(t, klev=nlev)` '
                      f'the callee drops the dummy `klev` while the call still passes it', facts=facts)
    else:
        ctx.judge('R6', 'fixed occurrences are removed occurrences (per argument kind)', facts=facts)


def run_r7(ctx, fn, ts, st):
    """one value per dummy of a callee: the record is compared with what an earlier call (or caller) recorded before it replaces it"""
    ctx.rule('R7', 'the record stored in the successor\'s trafo_data is compared with the previous record on the path to the store: a conflict '
                   'raises (or the records are merged) instead of the last call winning')
    loop = next((l for l in ast.walk(fn) if isinstance(l, ast.For) and st in list(ast.walk(l)) and 'CallStatement' in ast.unparse(l.iter)), None)
    if loop is None:
        raise AnalysisError('transform_subroutine: the loop over the call statements around the callee record was not found')
    prev = set(X.names_assigned_from(loop, 'trafo_data'))
    grew = True
    while grew:
        grew = False
        for a in ast.walk(loop):
            if isinstance(a, ast.Assign) and any(isinstance(n, ast.Name) and n.id in prev for n in ast.walk(a.value)):
                for t in a.targets:
                    if isinstance(t, ast.Name) and t.id not in prev:
                        prev.add(t.id)
                        grew = True
    checked = False
    for r_, guards in X.nodes_with_guards(loop, lambda x: isinstance(x, ast.Raise)):
        if r_.lineno < st.lineno and any(any(isinstance(n, ast.Name) and n.id in prev for n in ast.walk(ast.parse(g, mode='eval')))
                                          for g in guards if not g.startswith('<')):
            checked = True
    merged = any(isinstance(n, ast.Name) and n.id in prev for n in ast.walk(st.value))
    if not merged and isinstance(st.value, ast.Name):
        merged = any(isinstance(a, (ast.Assign, ast.AugAssign)) and st.value.id in ast.unparse(a.targets[0] if isinstance(a, ast.Assign) else a.target)
                     and any(isinstance(n, ast.Name) and n.id in prev for n in ast.walk(a.value)) for a in ast.walk(loop))
    facts = {'previous_record_names': sorted(prev), 'raises_on_conflict': checked, 'merges': merged}
    if checked or merged:
        ctx.judge('R7', 'callee record: conflict with an earlier call detected', facts=facts)
    else:
        ctx.violation('R7', 'transform_subroutine:callee-record-overwritten', f'{ts.module.relpath}:{st.lineno}',
                      f'`{ast.unparse(st)[:100]}` replaces whatever an earlier call recorded for the same callee without looking at it: with '
                      f'`call fill(a, x); call fill(b, y)` and dic2p = {{a: 12, b: 11}} the callee is silently specialised to n = 11 for both calls',
                      facts=facts)


def _outer_store(fn, st):
    """the statement that publishes the record to the successor (`<successor>.trafo_data[key] = D`) for the store `D[dummy] = v`"""
    cont = st.targets[0].value
    if 'trafo_data' in ast.unparse(cont):
        return st
    for a in ast.walk(fn):
        if isinstance(a, ast.Assign) and isinstance(a.value, ast.Name) and isinstance(cont, ast.Name) and a.value.id == cont.id \
                and 'trafo_data' in ast.unparse(a.targets[0]):
            return a
    raise AnalysisError('the statement publishing the callee record to trafo_data was not found')


def run_r5(ctx, fn, ts, dname):
    """recorded occurrences == removed occurrences of parametrised variables in a call"""
    ctx.rule('R5', 'the occurrences of parametrised variables recorded for the callee are the occurrences removed from the call: no first-match '
                   'look-up (`.index(`) on the argument list')
    keyset = set(X.names_assigned_from(fn, f'list({dname})')) | {dname}
    removal = [c for c in ast.walk(fn) if isinstance(c, (ast.GeneratorExp, ast.ListComp)) and len(c.generators) == 1
               and ast.unparse(c.generators[0].iter).endswith('.arguments') and not ast.unparse(c.generators[0].iter).endswith('routine.arguments')
               and any(isinstance(i_, ast.Compare) and isinstance(i_.ops[0], ast.NotIn) for i_ in c.generators[0].ifs)]
    if not removal:
        raise AnalysisError('transform_subroutine: removal of parametrised variables from the call arguments not found')
    firsts = [c for c in ast.walk(fn) if isinstance(c, ast.Call) and isinstance(c.func, ast.Attribute) and c.func.attr == 'index'
              and ast.unparse(c.func.value).endswith('.arguments')]
    if firsts:
        ctx.violation('R5', 'transform_subroutine:first-occurrence-only', f'{ts.module.relpath}:{firsts[0].lineno}',
                      f'`{ast.unparse(firsts[0])}` locates only the first occurrence of a parametrised variable among the call arguments while '
                      f'`{ast.unparse(removal[0])[:70]}` removes every occurrence: call kernel(n, n, x) loses two arguments, the callee one dummy')
    else:
        ctx.judge('R5', 'no first-match look-up of parametrised arguments', facts={'removal': ast.unparse(removal[0])[:80]})


def _comp_of(fn, e):
    """the list comprehension a name / expression denotes (single definition)"""
    if isinstance(e, (ast.ListComp, ast.GeneratorExp)):
        return e
    if isinstance(e, ast.Name):
        defs = [a.value for a in ast.walk(fn) if isinstance(a, ast.Assign) and any(isinstance(t, ast.Name) and t.id == e.id for t in a.targets)]
        if len(defs) == 1 and isinstance(defs[0], (ast.ListComp, ast.GeneratorExp)) and len(defs[0].generators) == 1:
            return defs[0]
    return None

MUTANTS = [
    Mutant('callee-record-last-call-wins', FILE, "                    if conflicts:\n                        raise RuntimeError(", "                    if False:\n                        raise RuntimeError(",
           expect=('R7', 'callee-record-overwritten')),
    Mutant('callee-data-from-arg-iter', FILE, "                    for dummy, arg in zip(call.routine.arguments, call.arguments):",
           "                    for dummy, arg in call.arg_iter():", expect=('R6', 'keyword-argument-fixed-but-kept')),
    Mutant('guard-operator-eq', FILE, "condition = sym.Comparison(routine.variable_map[f'parametrised_{key}'], '!=',",
           "condition = sym.Comparison(routine.variable_map[f'parametrised_{key}'], '==',", expect=('R1', 'guard:operator'), quick=True),
    Mutant('guard-operator-gt', FILE, "condition = sym.Comparison(routine.variable_map[f'parametrised_{key}'], '!=',",
           "condition = sym.Comparison(routine.variable_map[f'parametrised_{key}'], '>',", expect=('R1', 'guard:operator')),
    Mutant('guard-only-with-callback', FILE,
           "                        routine.body.prepend(conditional)\n",
           "                        if self.abort_callback is not None:\n                            routine.body.prepend(conditional)\n",
           expect=('R2', 'conditional-installation')),
    Mutant('guard-body-comment-only', FILE, "                        body = (comment,) + abort\n", "                        body = (comment,)\n",
           expect=('R2', 'guard:body')),
    Mutant('default-abort-no-stop', FILE, "                                     ir.GenericStmt(text=\"STOP 1\"))",
           "                                     ir.Comment(text=\"! STOP 1\"))", expect=('R2', 'default-abort')),
    Mutant('rename-pattern-differs', FILE, "arguments.append(arg.clone(name=f'parametrised_{arg.name}'))",
           "arguments.append(arg.clone(name=f'parametrized_{arg.name}'))", expect=('R3', 'rename-lookup-mismatch')),
    Mutant('callee-value-by-callee-name', FILE, "                            successor_dic2p[str(dummy)] = dic2p[arg.name]",
           "                            successor_dic2p[str(dummy)] = dic2p[dummy.name]", expect=('R4', 'callee-data')),
    Mutant('first-occurrence-only', FILE,
           "                    for dummy, arg in zip(call.routine.arguments, call.arguments):\n                        if arg in vars2p:\n                            successor_dic2p[str(dummy)] = dic2p[arg.name]\n",
           "                    arg_map_reversed = {v: k for k, v in call.arg_iter()}\n                    for index in [call.arguments.index(v) for v in vars2p if v in call.arguments]:\n"
           "                        successor_dic2p[str(arg_map_reversed[call.arguments[index]])] = dic2p[call.arguments[index].name]\n",
           expect=('R5', 'first-occurrence-only')),
    Mutant('guard-loop-break', FILE, "                    if f'parametrised_{key}' in routine.variable_map:\n",
           "                    if f'parametrised_{key}' not in routine.variable_map:\n                        break\n                    if True:\n",
           expect=('R2', 'loop-exit')),
    Mutant('neutral-guard-loop-continue', FILE, "                    if f'parametrised_{key}' in routine.variable_map:\n",
           "                    if f'parametrised_{key}' not in routine.variable_map:\n                        continue\n                    if True:\n",
           expect=None),
    Mutant('neutral-error-stop', FILE, "ir.GenericStmt(text=\"STOP 1\"))", "ir.GenericStmt(text=\"ERROR STOP 1\"))", expect=None),
    Mutant('neutral-guard-literal-alias', FILE,
           "                        condition = sym.Comparison(routine.variable_map[f'parametrised_{key}'], '!=',\n                                                   sym.IntLiteral(value))",
           "                        fixed = sym.IntLiteral(value)\n                        condition = sym.Comparison(routine.variable_map[f'parametrised_{key}'], '!=', fixed)",
           expect=None),
]
