"""
C44  Parallel JIT library builds compile objects after their module dependencies.

 R1  in ``Lib.build._build_objs`` the scheduling call ``obj.build(...)`` is
     preceded, in the same loop iteration, by a loop that waits on
     ``dep.q_task`` for every ``dep in obj.obj_dependencies`` (when a queue is
     used).
 R2  orientation x direction: dependency-graph edges are (object, dependency)
     and the traversal is the *reversed* topological order (dependencies first).
 R3  barrier: every scheduled task is joined before ``compiler.link`` and
     before the work queue is left; the linker runs after ``_build_objs``.
 R4  build-once guard ``obj.q_task is None``; ``Obj.build`` records the task it
     schedules; ``wait_and_check`` blocks on the task and re-raises failures.
 R5  single writer: ``obj_dependencies`` (what the scheduler waits on) is written
     only by ``Builder.get_dependency_graph``; ``Obj`` instances are cached by
     name and ``Obj.__init__`` runs on every ``Obj(...)`` call, so an assignment
     there would wipe the record of an already expanded object.  ``q_task`` is
     written only by ``Obj.__init__`` / ``Obj.build``.
 R6  the cache key of ``Obj`` is lower-cased on every path (module names in USE
     statements are case-insensitive; a raw explicit name resolves to a fresh,
     source-less object and the dependency edge is lost).
Not decided: timing, timeouts, .mod races inside one compiler process.
"""
import ast

from sa import exprs as X
from sa.model import AnalysisError
from sa.mutate import Mutant
from sa.fold import classify

PROP = 'C44'

META = dict(
    technique='syntax-directed happens-before analysis of Lib.build (statement order / dominance inside the scheduling loop, '
              'barrier before link), orientation x direction table of the dependency graph',
    level='Decides the ordering discipline in the code shape: wait-on-all-dependencies dominates each schedule call, edge '
          'orientation x reversed topological order puts dependencies first, a full barrier precedes linking, each object is '
          'scheduled at most once, tasks are recorded and waited on. Does NOT decide timing/timeouts.',
    note='Trusts concurrent.futures semantics of task.result(); object identity of Obj nodes (cached by name) is assumed.',
    ref='DESIGN.md section 3, C44',
)

LIB = 'loki/jit_build/lib.py'
BLD = 'loki/jit_build/builder.py'
OBJ = 'loki/jit_build/obj.py'
WQ = 'loki/jit_build/workqueue.py'


def run(ctx):
    m = ctx.model
    ctx.rule('R1', 'wait loop over obj.obj_dependencies (wait_and_check(dep.q_task)) precedes obj.build in the same iteration')
    ctx.rule('R2', 'edges.append((item, node)) with node a dependency of item; traversal = reversed(topological_sort)')
    ctx.rule('R3', 'barrier over all q_task after the scheduling loop; link after _build_objs; _build_objs(q) inside the workqueue context')
    ctx.rule('R4', 'guard obj.q_task is None; Obj.build stores workqueue.execute(...) in self.q_task; wait_and_check calls '
                   'task.result and re-raises')
    build = m.get_function(LIB, 'Lib.build')
    inner = [n for n in build.node.body if isinstance(n, ast.FunctionDef) and n.name == '_build_objs']
    if not inner:
        raise AnalysisError('Lib.build._build_objs vanished')
    bo = inner[0]
    loops = [n for n in bo.body if isinstance(n, ast.For)]
    if not loops:
        raise AnalysisError('_build_objs: scheduling loop not found')
    main = loops[0]
    loopvar = ast.unparse(main.target)
    # R2 traversal direction
    topo = [n for n in bo.body if isinstance(n, ast.Assign) and 'topological_sort' in ast.unparse(n.value)]
    if not topo:
        raise AnalysisError('_build_objs: topological order assignment not found')
    tv = ast.unparse(topo[0].value)
    nrev = tv.count('reversed(')
    iter_src = ast.unparse(main.iter)
    tname = ast.unparse(topo[0].targets[0])
    if tname not in iter_src:
        raise AnalysisError('_build_objs: loop does not iterate over the computed order')
    gb = m.get_function(BLD, 'Builder.get_dependency_graph')
    # the edge list is the local handed to add_edges_from
    addc = [n for n in ast.walk(gb.node) if isinstance(n, ast.Call) and (X.dotted_attr(n.func) or '').endswith('add_edges_from') and n.args]
    en = ast.unparse(addc[0].args[0]) if addc else 'edges'
    edge = [n for n in ast.walk(gb.node) if isinstance(n, ast.Call) and X.dotted_attr(n.func) == f'{en}.append']
    if len(edge) != 1 or not isinstance(edge[0].args[0], ast.Tuple):
        raise AnalysisError('get_dependency_graph: edges.append((a, b)) not found')
    a, b = (ast.unparse(e) for e in edge[0].args[0].elts)
    # which one is the dependency? the one built from the depgen loop variable
    dep_loop = [n for n in ast.walk(gb.node) if isinstance(n, ast.For) and 'depgen(' in ast.unparse(n.iter)]
    if not dep_loop:
        raise AnalysisError('get_dependency_graph: dependency loop not found')
    depvar = ast.unparse(dep_loop[0].target)
    node_from_dep = {ast.unparse(n.targets[0]) for n in ast.walk(dep_loop[0]) if isinstance(n, ast.Assign)
                     and depvar in {x.id for x in ast.walk(n.value) if isinstance(x, ast.Name)}}
    owner = ast.unparse(dep_loop[0].iter.args[0]) if isinstance(dep_loop[0].iter, ast.Call) and dep_loop[0].iter.args else None
    if a == owner and b in node_from_dep:
        orientation = 'dependent->dependency'
    elif b == owner and a in node_from_dep:
        orientation = 'dependency->dependent'
    else:
        raise AnalysisError(f'get_dependency_graph: cannot classify edge ({a}, {b})')
    deps_first = (orientation == 'dependent->dependency' and nrev % 2 == 1) or (orientation == 'dependency->dependent' and nrev % 2 == 0)
    facts = {'edge': f'({a}, {b})', 'orientation': orientation, 'order': tv}
    (ctx.judge('R2', 'orientation x direction', facts=facts) if deps_first else
     ctx.violation('R2', 'orientation x direction', f'{build.module.relpath}:{topo[0].lineno}',
                   f'edges are {orientation} and the traversal is `{tv}`: objects are scheduled before their dependencies', facts=facts))
    add = [n for n in ast.walk(gb.node) if isinstance(n, ast.Call) and (X.dotted_attr(n.func) or '').endswith('add_edges_from')]
    (ctx.judge('R2', 'add_edges_from(edges)') if add and ast.unparse(add[0].args[0]) == en else
     ctx.violation('R2', 'get_dependency_graph:add_edges_from', gb.where, 'edge list is not handed to networkx unchanged'))
    od = [n for n in ast.walk(dep_loop[0]) if isinstance(n, ast.Call) and (X.dotted_attr(n.func) or '').endswith('obj_dependencies.append')]
    (ctx.judge('R2', 'obj_dependencies records every dependency node') if od and ast.unparse(od[0].args[0]) in node_from_dep and
     not any(isinstance(p, ast.If) and od[0] in list(ast.walk(p)) for p in ast.walk(dep_loop[0])) else
     ctx.violation('R2', 'get_dependency_graph:obj_dependencies', gb.where, 'obj_dependencies does not record every dependency node'))

    # R1 wait before build in same iteration
    sched = None
    wait_line = None
    guard_txt = None

    def scan(stmts, guards):
        nonlocal sched, wait_line, guard_txt
        for st in stmts:
            if isinstance(st, ast.If):
                scan(st.body, guards + [ast.unparse(st.test)])
                scan(st.orelse, guards)
            elif isinstance(st, ast.For):
                it = ast.unparse(st.iter)
                if it == f'{loopvar}.obj_dependencies':
                    dv = ast.unparse(st.target)
                    waits = [c for c in ast.walk(st) if isinstance(c, ast.Call) and X.call_name_of(c) == 'wait_and_check'
                             and c.args and ast.unparse(c.args[0]) == f'{dv}.q_task']
                    if waits and not any(isinstance(x, (ast.Break, ast.If)) for x in ast.walk(st) if x is not st):
                        wait_line = st.lineno
            else:
                for c in ast.walk(st):
                    if isinstance(c, ast.Call) and X.dotted_attr(c.func) == f'{loopvar}.build':
                        sched = c
                        guard_txt = guards
    scan(main.body, [])
    if sched is None:
        raise AnalysisError('_build_objs: obj.build(...) call not found')
    if wait_line is not None and wait_line < sched.lineno:
        ctx.judge('R1', 'wait dominates schedule', facts={'wait_loop_line': wait_line, 'build_line': sched.lineno})
    else:
        ctx.violation('R1', '_build_objs:wait-before-build', f'{build.module.relpath}:{sched.lineno}',
                      'obj.build is scheduled without first waiting on the q_task of every object in obj.obj_dependencies '
                      '(an object can be compiled before the module it uses exists)')
    kw = {k.arg: ast.unparse(k.value) for k in sched.keywords}
    (ctx.judge('R1', 'build receives the queue') if kw.get('workqueue') in ('queue',) else
     ctx.violation('R1', '_build_objs:workqueue-arg', f'{build.module.relpath}:{sched.lineno}', f'obj.build gets workqueue={kw.get("workqueue")!r}'))
    # R4 guard
    gt = ' and '.join(guard_txt or [])
    (ctx.judge('R4', 'build-once guard', facts={'guard': gt}) if f'{loopvar}.q_task is None' in gt else
     ctx.violation('R4', '_build_objs:build-once', f'{build.module.relpath}:{sched.lineno}', f'obj.build guarded by `{gt}`: objects can be scheduled twice'))
    # R3 barrier
    barrier = None
    for st in bo.body[bo.body.index(main) + 1:]:
        for lp in [x for x in ast.walk(st) if isinstance(x, ast.For)]:
            gname = (X.names_assigned_from(build.node, 'get_dependency_graph(') or ['dep_graph'])[0]
            if f'{gname}.nodes' in ast.unparse(lp.iter) and any(
                    isinstance(c, ast.Call) and X.call_name_of(c) == 'wait_and_check' for c in ast.walk(lp)):
                barrier = lp
    (ctx.judge('R3', 'barrier after scheduling loop') if barrier is not None else
     ctx.violation('R3', '_build_objs:barrier', f'{build.module.relpath}:{bo.lineno}',
                   'no loop waiting on every q_task after the scheduling loop: linking can start before compilation finished'))
    body = build.node.body
    link = [i for i, st in enumerate(body) if any(isinstance(c, ast.Call) and X.dotted_attr(c.func) == 'compiler.link' for c in ast.walk(st))]
    runs = [i for i, st in enumerate(body) if any(isinstance(c, ast.Call) and X.call_name_of(c) == '_build_objs' for c in ast.walk(st))
            and not isinstance(st, ast.FunctionDef)]
    (ctx.judge('R3', 'link after build') if link and runs and min(link) > max(runs) else
     ctx.violation('R3', 'Lib.build:link-order', build.where, 'compiler.link is not placed after the object builds'))
    inside = False
    for st in ast.walk(build.node):
        if isinstance(st, ast.With) and any('workqueue(' in ast.unparse(i.context_expr) for i in st.items):
            inside = any(isinstance(c, ast.Call) and X.call_name_of(c) == '_build_objs' and c.args for c in ast.walk(st))
    (ctx.judge('R3', 'parallel build inside workqueue context') if inside else
     ctx.violation('R3', 'Lib.build:workqueue-context', build.where, '_build_objs(q) is not executed inside the workqueue context'))
    # R4 Obj.build / wait_and_check
    ob = m.get_function(OBJ, 'Obj.build')
    rec = [n for n in ast.walk(ob.node) if isinstance(n, ast.Assign) and ast.unparse(n.targets[0]) == 'self.q_task'
           and 'workqueue.execute' in ast.unparse(n.value)]
    (ctx.judge('R4', 'Obj.build records task') if rec else
     ctx.violation('R4', 'Obj.build:q_task', ob.where, 'the scheduled task is not stored in self.q_task: nobody can wait for it'))
    wc = m.get_function(WQ, 'wait_and_check')
    res = [n for n in ast.walk(wc.node) if isinstance(n, ast.Call) and X.dotted_attr(n.func) == 'task.result']
    rs = [n for n in ast.walk(wc.node) if isinstance(n, ast.Raise)]
    (ctx.judge('R4', 'wait_and_check blocks and re-raises') if res and rs else
     ctx.violation('R4', 'wait_and_check', wc.where, 'wait_and_check does not block on task.result() / re-raise failures'))

    # ---- R5 single writer
    ctx.rule('R5', 'attribute obj_dependencies is assigned only in Builder.get_dependency_graph; q_task only in Obj.__init__/Obj.build')
    ctx.rule('R6', 'the name handed to the Obj instance cache is lower-cased on every path of Obj.__new__')
    writers = {'obj_dependencies': set(), 'q_task': set()}
    for rel in (LIB, BLD, OBJ, WQ, 'loki/jit_build/jit.py', 'loki/jit_build/header.py', 'loki/jit_build/compiler.py'):
        try:
            mod = m.module_by_path(rel)
        except AnalysisError:
            continue
        for fn in [n for n in ast.walk(mod.tree) if isinstance(n, (ast.FunctionDef, ast.AsyncFunctionDef))]:
            for n in ast.walk(fn):
                tgts = []
                if isinstance(n, ast.Assign):
                    tgts = n.targets
                elif isinstance(n, (ast.AugAssign, ast.AnnAssign)):
                    tgts = [n.target]
                for t in tgts:
                    for x in ast.walk(t):
                        if isinstance(x, ast.Attribute) and x.attr in writers and isinstance(x.ctx, ast.Store):
                            writers[x.attr].add((mod.relpath, fn.name, n.lineno))
    ALLOWED = {'obj_dependencies': {'get_dependency_graph'}, 'q_task': {'__init__', 'build'}}
    for attr, ws in writers.items():
        if not ws:
            raise AnalysisError(f'no writer of {attr} found')
        for rel, fname, line in sorted(ws):
            inst = f'{attr} written in {fname}'
            if fname in ALLOWED[attr]:
                ctx.judge('R5', inst, facts={'where': f'{rel}:{line}'})
            else:
                ctx.violation('R5', f'{fname}:{attr}', f'{rel}:{line}',
                              f'{fname} assigns .{attr}: Obj instances are cached by name and re-initialised on every Obj(...) call, '
                              f'so this resets scheduling state that _build_objs relies on (an object is then scheduled without '
                              f'waiting for its providers)')
    # ---- R6
    oc = m.get_class(OBJ, 'Obj')
    new = oc.function('__new__')
    calls = [c for c in ast.walk(new.node) if isinstance(c, ast.Call) and 'xnew_cached' in (X.dotted_attr(c.func) or '')]
    if not calls or len(calls[0].args) < 2:
        raise AnalysisError('Obj.__new__: cache call not found')
    key = calls[0].args[1]
    r = classify(key, new.node, at=calls[0].lineno)
    facts = {'key': ast.unparse(key), 'classification': str(r)}
    (ctx.judge('R6', 'Obj cache key folded', facts=facts) if r == 'folded' else
     ctx.violation('R6', 'Obj.__new__:cache-key', new.where,
                   f'the cache key `{ast.unparse(key)}` is not lower-cased on every path ({r}): `USE Kinds_Mod` resolves to a new '
                   f'source-less Obj instead of the object built from kinds_mod.F90', facts=facts))


MUTANTS = [
    Mutant('no-wait', LIB,
           "                    if queue:\n                        for dep in obj.obj_dependencies:\n                            wait_and_check(dep.q_task, logger=logger)\n",
           "", expect=('R1', 'wait-before-build'), quick=True),
    Mutant('wait-after-build', LIB,
           "                    if queue:\n                        for dep in obj.obj_dependencies:\n                            wait_and_check(dep.q_task, logger=logger)\n\n                    # Schedule object compilation on the workqueue\n                    obj.build(builder=builder, compiler=compiler, logger=logger,\n                            workqueue=queue, force=force, include_dirs=include_dirs)\n",
           "                    obj.build(builder=builder, compiler=compiler, logger=logger,\n                            workqueue=queue, force=force, include_dirs=include_dirs)\n                    if queue:\n                        for dep in obj.obj_dependencies:\n                            wait_and_check(dep.q_task, logger=logger)\n",
           expect=('R1', 'wait-before-build')),
    Mutant('not-reversed', LIB, "topo_nodes = list(reversed(list(nx.topological_sort(dep_graph))))", "topo_nodes = list(nx.topological_sort(dep_graph))",
           expect=('R2', 'orientation x direction')),
    Mutant('edge-swapped', BLD, "edges.append((item, node))", "edges.append((node, item))", expect=('R2', 'orientation x direction')),
    Mutant('no-barrier', LIB,
           "            if queue:\n                # Ensure all build tasks have finished\n                for obj in dep_graph.nodes:\n                    if obj.q_task is not None:\n                        wait_and_check(obj.q_task, logger=logger)\n",
           "", expect=('R3', 'barrier')),
    Mutant('guard-dropped', LIB, "                if obj.source_path and obj.q_task is None:", "                if obj.source_path:", expect=('R4', 'build-once')),
    Mutant('task-not-recorded', OBJ, "            self.q_task = workqueue.execute(args, log_queue=workqueue.log_queue)",
           "            workqueue.execute(args, log_queue=workqueue.log_queue)", expect=('R4', 'Obj.build:q_task')),
    Mutant('init-resets-deps', OBJ, "        self.q_task = None  # The parallel worker task\n",
           "        self.q_task = None  # The parallel worker task\n        self.obj_dependencies = []\n", expect=('R5', '__init__:obj_dependencies')),
    Mutant('name-fold-partial', OBJ, "        name = name or Path(kwargs.get('source_path')).stem\n        name = name.lower()  # Ensure no-caps!\n",
           "        name = name or Path(kwargs.get('source_path')).stem.lower()\n", expect=('R6', 'cache-key')),
    Mutant('wait-only-first-dep', LIB,
           "                        for dep in obj.obj_dependencies:\n                            wait_and_check(dep.q_task, logger=logger)\n",
           "                        for dep in obj.obj_dependencies:\n                            wait_and_check(dep.q_task, logger=logger)\n                            break\n",
           expect=('R1', 'wait-before-build')),
]
