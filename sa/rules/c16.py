"""
C16  Analysis attach/detach leaves the IR unchanged.

 R1  pairing on all exits: each context manager (pragmas_attached,
     pragma_regions_attached, dfa_attached, dataflow_analysis_attached) yields
     inside try/finally (or delegates to one that does) and the finally block
     detaches, under the same guard and on the same target, everything that was
     attached before the yield, with matching arguments.
 R2  in-place: attacher/detacher visitors only ``_update`` nodes and return the
     same object (node identities survive); the fields the attacher sets are
     the fields the detacher resets; re-insertion order pragma / node /
     pragma_post and pragma / body / pragma_post.
 R3  every handler the dataflow attacher/detacher dispatch to is in-place and
     annotations live outside the dataclass fields (attach cannot alter IR
     structure); totality of the attacher is a C26 matter, not a C16 one.
 R4  the detacher reaches whatever the attacher reaches: for every IR node class,
     if the handler the attacher dispatches to descends into the node's children
     (so that it can attach something below it), the handler the detacher
     dispatches to descends as well (all three attacher / detacher pairs; static
     dispatch, ``super()`` chains followed).  A detacher that stops at a node
     kind leaves the attachments below it in the IR after the context exits.
Not decided: equality of the reconstructed tuples for arbitrary pragma layouts.
"""
import ast

from sa import dispatch as D, exprs as X
from sa.model import AnalysisError
from sa.mutate import Mutant

PROP = 'C16'

META = dict(
    technique='syntax-directed exit-path pairing of attach/detach calls in generator context managers; '
              'effect analysis (_update vs _rebuild) of attacher/detacher visitors; static dispatch totality',
    level='Decides: every context manager detaches in a finally block exactly what it attached (same target, guard, '
          'arguments) on normal and exceptional exit of the with-body; attach/detach visitors are in-place and symmetric '
          'in the fields they set/reset; the dataflow attacher/detacher handle every IR node class. Does NOT decide '
          'that the re-inserted tuples equal the originals for every pragma layout.',
    note='Exceptions raised by the attach step itself (before the try) are outside the rule; reported as a note.',
    ref='DESIGN.md section 3, C16',
)

PU = 'loki/ir/pragma_utils.py'
PAIR = {'attach_pragmas': 'detach_pragmas', 'attach_pragma_regions': 'detach_pragma_regions',
        'attach_dataflow_analysis': 'detach_dataflow_analysis'}
KW_PAIR = {'attach_pragma_post': 'detach_pragma_post'}
KW_OPTIONAL_ON_DETACH = {'keyword'}     # detach_pragma_regions removes every region (superset), documented
CMS = [(PU, 'pragmas_attached'), (PU, 'pragma_regions_attached'), ('loki/analyse/abstract_dfa.py', 'dfa_attached'),
       ('loki/analyse/dataflow_analysis.py', 'dataflow_analysis_attached')]


def _actions(stmts, names, guard=''):
    out = []
    for st in stmts:
        if isinstance(st, ast.If):
            g = ast.unparse(st.test)
            out += _actions(st.body, names, (guard + ' & ' + g) if guard else g)
            out += _actions(st.orelse, names, (guard + ' & !' + g) if guard else '!' + g)
        elif isinstance(st, (ast.Assign, ast.Expr)):
            val = st.value
            if isinstance(val, ast.Call):
                fn = val.func.attr if isinstance(val.func, ast.Attribute) else getattr(val.func, 'id', None)
                if fn in names:
                    tgt = ast.unparse(st.targets[0]) if isinstance(st, ast.Assign) else None
                    out.append({'callee': fn, 'recv': ast.unparse(val.func.value) if isinstance(val.func, ast.Attribute) else None,
                                'guard': guard, 'target': tgt,
                                'args': [ast.unparse(a) for a in val.args],
                                'kwargs': {k.arg: ast.unparse(k.value) for k in val.keywords}, 'line': st.lineno})
        elif isinstance(st, (ast.With, ast.For, ast.While)):
            out += _actions(st.body, names, guard)
    return out


def _has_yield(node):
    return any(isinstance(n, (ast.Yield, ast.YieldFrom)) for n in ast.walk(node))


def check_cm(ctx, m, relpath, name, verified):
    f = m.get_function(relpath, name)
    if not any('contextmanager' in d for d in f.decorators):
        raise AnalysisError(f'{name} is no longer a @contextmanager')
    body = X.body_nodoc(f.node)
    nyield = sum(isinstance(n, (ast.Yield, ast.YieldFrom)) for n in ast.walk(f.node))
    inst = f'{name}'
    if nyield != 1:
        ctx.violation('R1', f'{name}:yield', f.where, f'{nyield} yield points (expected exactly one)')
        return
    # delegation form: with other_cm(...): yield
    for st in body:
        if isinstance(st, ast.With) and _has_yield(st):
            callee = [X.call_name_of(i.context_expr) for i in st.items]
            if all(c in verified for c in callee) and all(isinstance(s, ast.Expr) and _has_yield(s) for s in st.body):
                ctx.judge('R1', inst, facts={'delegates_to': callee})
                verified.add(name)
            else:
                ctx.violation('R1', f'{name}:delegation', f.where,
                              f'yield is wrapped by {callee}, which is not a verified attach/detach context manager')
            return
    tries = [st for st in body if isinstance(st, ast.Try)]
    ytry = [t for t in tries if any(_has_yield(s) for s in t.body)]
    if not ytry or not ytry[0].finalbody:
        ctx.violation('R1', f'{name}:try-finally', f.where,
                      'the yield is not inside try/finally: if the with-body raises, nothing is detached')
        return
    t = ytry[0]
    if any(isinstance(n, (ast.Return, ast.Break, ast.Continue)) for s in t.finalbody for n in ast.walk(s)):
        ctx.violation('R1', f'{name}:finally-return', f.where, 'return/break inside finally swallows the body exception')
    if t.handlers:
        for h in t.handlers:
            if not any(isinstance(n, ast.Raise) for n in ast.walk(h)):
                ctx.violation('R1', f'{name}:except-swallow', f.where, 'an except clause around the yield swallows exceptions')
    pre_stmts = body[:body.index(t)]
    attach = _actions(pre_stmts, set(PAIR)) + _actions([s for s in t.body if not _has_yield(s)], set(PAIR))
    detach = _actions(t.finalbody, set(PAIR.values()))
    late = _actions(body[body.index(t) + 1:], set(PAIR.values()))
    if late:
        ctx.violation('R1', f'{name}:detach-after-try', f.where, 'detach call placed after the try statement is skipped when the body raises')
    if not attach:
        raise AnalysisError(f'{name}: no attach action recognised (rule would pass vacuously)')
    remaining = list(detach)
    for a in attach:
        want = PAIR[a['callee']]
        cand = [d for d in remaining if d['callee'] == want and d['guard'] == a['guard'] and d['target'] == a['target']
                and d['args'] == a['args'] and d['recv'] == a['recv']]
        key = f"{name}:{a['callee']}({','.join(a['args'])})"
        if not cand:
            ctx.violation('R1', key, f'{f.module.relpath}:{a["line"]}',
                          f'{a["callee"]} on {a["args"]} (guard {a["guard"] or "-"}) has no matching {want} in the finally block '
                          f'(same guard, target and positional arguments)', facts={'attach': a, 'finally': detach})
            continue
        d = cand[0]
        remaining.remove(d)
        bad = []
        for k, v in a['kwargs'].items():
            dk = KW_PAIR.get(k, k)
            if dk in d['kwargs']:
                if d['kwargs'][dk] != v:
                    bad.append(f'{k}={v} vs {dk}={d["kwargs"][dk]}')
            elif k not in KW_OPTIONAL_ON_DETACH:
                bad.append(f'{k}={v} has no counterpart {dk}')
        if bad:
            ctx.violation('R1', key + ':kwargs', f'{f.module.relpath}:{d["line"]}',
                          f'detach arguments do not mirror the attach arguments: {bad}', facts={'attach': a, 'detach': d})
        else:
            ctx.judge('R1', key, facts={'attach': a, 'detach': d})
    for d in remaining:
        ctx.violation('R1', f"{name}:extra-{d['callee']}({','.join(d['args'])})", f'{f.module.relpath}:{d["line"]}',
                      f'{d["callee"]} on {d["args"]} in finally has no matching attach before the yield (detaches twice / wrong target)')
    # assignments write back to the attribute they read
    for a in attach + detach:
        if a['target'] is not None and a['args'] and a['target'] != a['args'][0]:
            ctx.violation('R1', f"{name}:writeback:{a['callee']}", f'{f.module.relpath}:{a["line"]}',
                          f'result of {a["callee"]}({a["args"][0]}) is stored into {a["target"]}')
    pre_only = _actions(pre_stmts, set(PAIR))
    if len(pre_only) > 1:
        ctx.note(f'{name}: {len(pre_only)} attach steps run before the try; an exception in a later attach step leaves '
                 f'earlier ones attached (outside the property: it speaks of the with-body raising)')
    verified.add(name)


def _inplace_exits(f):
    """Return statements of a handler that are not of an in-place form."""
    bad = []
    par = X.param_name(f)
    # locals that hold the mapper entry of the visited node / an accumulated result of visiting the children
    handles = set(X.names_assigned_from(f.node, 'self.mapper['))
    accum = set(X.names_assigned_from(f.node, "kwargs.pop('ret'")) | {'ret'}
    for r in (n for n in ast.walk(f.node) if isinstance(n, ast.Return)):
        v = r.value
        if v is None or (isinstance(v, ast.Constant) and v.value is None):
            continue
        if isinstance(v, ast.Name) and (v.id == par or v.id in accum):
            continue
        txt = ast.unparse(v)
        if isinstance(v, ast.Call):
            d = X.dotted_attr(v.func) or ''
            if d == 'self.visit_Node' or d.startswith('super().visit_'):
                continue
            if d == 'self._rebuild' and v.args and ast.unparse(v.args[0]) == par:
                continue        # Transformer._rebuild honours self.inplace (checked under R2)
            if d.endswith('._rebuild') and d.split('.')[0] in handles:
                continue        # only under `o in self.mapper`; attacher/detacher are built with an empty mapper
            if d == 'tuple' or d == 'as_tuple':
                continue        # visit_tuple: tuple of the visited elements
        bad.append(txt)
    for n in ast.walk(f.node):
        if isinstance(n, ast.Call) and X.dotted_attr(n.func) in (f'{par}.clone', f'{par}._rebuild'):
            bad.append(ast.unparse(n))
    return bad


def run(ctx):
    m = ctx.model
    ctx.rule('R1', 'each attach/detach context manager has one yield inside try/finally (or delegates to a verified one); '
                   'the finally block detaches every attached target under the same guard with mirrored arguments; no '
                   'return/except that swallows the body exception')
    ctx.rule('R2', 'Pragma(Region)Attacher/Detacher and the dataflow attacher/detacher modify nodes only via _update and '
                   'return the same object; attacher-set fields == detacher-reset fields; re-insertion order is '
                   'pragma, node/body, pragma_post')
    ctx.rule('R3', 'every handler the dataflow attacher/detacher dispatch to (all IR node classes, tuples) exits with the '
                   'visited node updated in place; annotations are stored in transient underscore attributes outside the '
                   'dataclass fields; structural fields are only re-assigned from their own re-visited value')
    verified = set()
    for rel, name in CMS:
        check_cm(ctx, m, rel, name, verified)
    ctx.floor('R1', 'context managers', len(verified), 4) if not ctx.findings else None

    # ---- R2
    PA = m.get_class(PU, 'PragmaAttacher')
    PD = m.get_class(PU, 'PragmaDetacher')
    for V in (PA, PD):
        for mem in V.members.values():
            if mem.kind != 'func':
                continue
            for n in ast.walk(mem.node):
                if isinstance(n, ast.Call) and isinstance(n.func, ast.Attribute) and n.func.attr in ('_rebuild', 'clone'):
                    ctx.violation('R2', f'{V.name}.{mem.name}:rebuild', f'{V.module.relpath}:{n.lineno}',
                                  f'{V.name}.{mem.name} rebuilds a node ({ast.unparse(n.func)}): node identities do not survive')
        vn = V.function('visit_Node')
        if vn is None:
            raise AnalysisError(f'{V.name}.visit_Node vanished')
        rets = [n for n in ast.walk(vn.node) if isinstance(n, ast.Return)]
        upd = [n for n in ast.walk(vn.node) if isinstance(n, ast.Call) and X.dotted_attr(n.func) == 'o._update']
        if rets and all(isinstance(r.value, ast.Name) and r.value.id == 'o' for r in rets) and upd:
            ctx.judge('R2', f'{V.name}.visit_Node:inplace')
        else:
            ctx.violation('R2', f'{V.name}.visit_Node:inplace', vn.where, 'visit_Node must update o in place and return o')
        vo = V.function('visit_object')
        if vo is None or not all(isinstance(r.value, ast.Name) and r.value.id == 'o'
                                 for r in ast.walk(vo.node) if isinstance(r, ast.Return)):
            ctx.violation('R2', f'{V.name}.visit_object', V.where, 'non-node objects (expressions) must be returned untouched')
        else:
            ctx.judge('R2', f'{V.name}.visit_object')

    def upd_kw(cls):
        out = {}
        for mem in cls.members.values():
            if mem.kind == 'func':
                for n in ast.walk(mem.node):
                    if isinstance(n, ast.Call) and isinstance(n.func, ast.Attribute) and n.func.attr == '_update':
                        for k in n.keywords:
                            if k.arg:
                                out.setdefault(k.arg, []).append(ast.unparse(k.value))
        return out
    a_kw, d_kw = upd_kw(PA), upd_kw(PD)
    if set(a_kw) == set(d_kw) and set(a_kw) >= {'pragma', 'pragma_post'}:
        ctx.judge('R2', 'Pragma fields set==reset', facts={'attacher': sorted(a_kw), 'detacher': sorted(d_kw)})
    else:
        ctx.violation('R2', 'PragmaAttacher/PragmaDetacher:fields', PD.where,
                      f'attacher sets {sorted(a_kw)} but detacher resets {sorted(d_kw)}')
    for k, vals in d_kw.items():
        if any(v != 'None' for v in vals):
            ctx.violation('R2', f'PragmaDetacher:{k}-reset', PD.where, f'detacher sets {k} to {vals}, expected None')
    # flag discipline: pragma_post is touched only under the *_pragma_post flag (attach and detach must mirror each other:
    # the context manager passes detach_pragma_post=attach_pragma_post)
    for V, flag in ((PA, 'self.attach_pragma_post'), (PD, 'self.detach_pragma_post')):
        f = V.function('visit_tuple')
        sites = X.nodes_with_guards(f.node, lambda n: isinstance(n, ast.Call) and isinstance(n.func, ast.Attribute)
                                    and n.func.attr == '_update' and any(k.arg == 'pragma_post' for k in n.keywords))
        if not sites:
            raise AnalysisError(f'{V.name}.visit_tuple: no _update(pragma_post=...) site')
        for call, guards in sites:
            inst = f'{V.name}.visit_tuple:pragma_post@{len([1 for x in ctx.instances if x[1].startswith(V.name + ".visit_tuple:pragma_post")])}'
            if any(flag in g and not g.startswith('not (') for g in guards):
                ctx.judge('R2', inst, facts={'guards': guards})
            else:
                ctx.violation('R2', f'{V.name}.visit_tuple:pragma_post-flag', f'{V.module.relpath}:{call.lineno}',
                              f'`{ast.unparse(call)}` is not guarded by {flag} (guards: {guards}): pragmas attached as pragma_post with '
                              f'the flag off are never detached again by the mirrored detach call')
        sites = X.nodes_with_guards(f.node, lambda n: isinstance(n, ast.Call) and isinstance(n.func, ast.Attribute)
                                    and n.func.attr == '_update' and any(k.arg == 'pragma' for k in n.keywords))
        for call, guards in sites:
            recv = ast.unparse(call.func.value)          # the node being updated
            ok = any(f'isinstance({recv}, self.node_type)' in g and not g.startswith('not (') for g in guards)
            (ctx.judge('R2', f'{V.name}.visit_tuple:pragma-type-guard', facts={'guards': guards}) if ok else
             ctx.violation('R2', f'{V.name}.visit_tuple:pragma-type-guard', f'{V.module.relpath}:{call.lineno}',
                           f'`{ast.unparse(call)}` is not restricted to nodes of the requested node_type'))
    # re-insertion order in PragmaDetacher.visit_tuple
    vt = PD.function('visit_tuple')
    loop = next((n for n in ast.walk(vt.node) if isinstance(n, ast.For)), None)
    order = []
    if loop is not None:
        lv = loop.target.id if isinstance(loop.target, ast.Name) else 'i'
        # the accumulator is the local returned (as a tuple) by the handler
        accs = {n.target.id for n in ast.walk(loop) if isinstance(n, ast.AugAssign) and isinstance(n.target, ast.Name)}
        rets = ' '.join(ast.unparse(r.value) for r in ast.walk(vt.node) if isinstance(r, ast.Return) and r.value is not None)
        acc = next((a for a in sorted(accs) if a in rets), 'updated')
        for n in ast.walk(loop):
            if isinstance(n, ast.AugAssign) and isinstance(n.target, ast.Name) and n.target.id == acc:
                txt = ast.unparse(n.value)
                tag = 'pragma_post' if 'pragma_post' in txt else ('pragma' if '.pragma' in txt else ('node' if txt in (f'({lv},)', f'[{lv}]') else txt))
                order.append((n.lineno, tag))
    order = [t for _, t in sorted(order)]
    if order == ['pragma', 'node', 'pragma_post']:
        ctx.judge('R2', 'PragmaDetacher.visit_tuple:order', facts={'order': order})
    else:
        ctx.violation('R2', 'PragmaDetacher.visit_tuple:order', vt.where,
                      f're-insertion order is {order}, expected pragma, node, pragma_post')
    # guard of post-detach uses the detach_pragma_post flag; pragma detach unconditional on it
    # region attacher/detacher
    RD = m.get_class(PU, 'PragmaRegionDetacher')
    rvt = RD.function('visit_tuple')
    handle = [n for n in ast.walk(rvt.node) if isinstance(n, ast.Assign) and isinstance(n.targets[0], ast.Name)
              and '.pragma_post' in ast.unparse(n.value) and '.body' in ast.unparse(n.value)]
    if handle:
        txt = ast.unparse(handle[0].value)
        import re as _re
        pos = [(_re.search(r'\w+\.pragma,', txt) or _re.search(r'\w+\.pragma\b(?!_)', txt)), _re.search(r'\w+\.body', txt),
               _re.search(r'\w+\.pragma_post', txt)]
        pos = [p_.start() if p_ else -1 for p_ in pos]
        if all(p >= 0 for p in pos) and pos == sorted(pos):
            ctx.judge('R2', 'PragmaRegionDetacher:order', facts={'handle': txt})
        else:
            ctx.violation('R2', 'PragmaRegionDetacher:order', rvt.where, f'region is unpacked as {txt}')
    else:
        raise AnalysisError('PragmaRegionDetacher.visit_tuple: handle assignment not found')
    RA = m.get_class(PU, 'PragmaRegionAttacher')
    avt = RA.function('visit_tuple')
    reg = [n for n in ast.walk(avt.node) if isinstance(n, ast.Call) and X.call_name_of(n) == 'PragmaRegion']
    if len(reg) != 1:
        raise AnalysisError('PragmaRegionAttacher: PragmaRegion construction not found')
    kw = {k.arg: ast.unparse(k.value) for k in reg[0].keywords}
    pair = next((n.target for n in ast.walk(avt.node) if isinstance(n, ast.For) and 'pragma_pairs' in ast.unparse(n.iter)
                 and isinstance(n.target, ast.Tuple) and len(n.target.elts) == 2), None)
    okr = False
    if pair is not None:
        st_, sp_ = (ast.unparse(e) for e in pair.elts)
        ist = (X.names_assigned_from(avt.node, f'.index({st_})') or ['?'])[0]
        isp = (X.names_assigned_from(avt.node, f'.index({sp_})') or ['?'])[0]
        okr = kw.get('pragma') == st_ and kw.get('pragma_post') == sp_ and kw.get('body') == f'o[{ist} + 1:{isp}]'
    (ctx.judge('R2', 'PragmaRegionAttacher:region', facts=kw) if okr else
     ctx.violation('R2', 'PragmaRegionAttacher:region', avt.where, f'PragmaRegion built with {kw}'))
    for fn, cls in (('attach_pragma_regions', 'PragmaRegionAttacher'), ('detach_pragma_regions', 'PragmaRegionDetacher')):
        f = m.get_function(PU, fn)
        calls = [n for n in ast.walk(f.node) if isinstance(n, ast.Call) and X.call_name_of(n) == cls]
        ok = calls and all(any(k.arg == 'inplace' and ast.unparse(k.value) == 'True' for k in c.keywords) for c in calls)
        (ctx.judge('R2', f'{fn}:inplace') if ok else
         ctx.violation('R2', f'{fn}:inplace', f.where, f'{cls} is not constructed with inplace=True'))
    DF = 'loki/analyse/dataflow_analysis.py'
    for cn in ('DataflowAnalysisAttacher', 'DataflowAnalysisDetacher'):
        c = m.get_class(DF, cn)
        init = c.function('__init__')
        calls = [n for n in ast.walk(init.node) if isinstance(n, ast.Call) and X.dotted_attr(n.func) == 'super().__init__']
        ok = calls and any(k.arg == 'inplace' and ast.unparse(k.value) == 'True' for k in calls[0].keywords)
        (ctx.judge('R2', f'{cn}:inplace') if ok else
         ctx.violation('R2', f'{cn}:inplace', init.where, f'{cn} does not force inplace=True'))
    # Transformer._rebuild honours inplace by _update + return o
    T = m.get_class('loki/ir/transformer.py', 'Transformer')
    rb = T.function('_rebuild')
    ok = False
    for n in ast.walk(rb.node):
        if isinstance(n, ast.If) and ast.unparse(n.test) == 'self.inplace':
            calls = [c for c in ast.walk(ast.Module(body=n.body, type_ignores=[])) if isinstance(c, ast.Call)]
            ok = any(X.dotted_attr(c.func) == 'o._update' for c in calls) and \
                any(isinstance(s, ast.Return) and ast.unparse(s.value) == 'o' for s in n.body)
    (ctx.judge('R2', 'Transformer._rebuild:inplace') if ok else
     ctx.violation('R2', 'Transformer._rebuild:inplace', rb.where, 'inplace mode must _update and return the same node'))

    # ---- R3
    A = m.get_class(DF, 'DataflowAnalysis._Attacher')
    Dt = m.get_class(DF, 'DataflowAnalysis._Detacher')
    nodes = D.ir_node_classes(m)
    ctx.floor('R3', 'IR node classes', len(nodes), 45)
    judged = {}
    for V, what in ((A, 'attacher'), (Dt, 'detacher')):
        handlers = D.visitor_handlers(m, V)
        for c in nodes + ['tuple', 'list']:
            f, key = D.visitor_dispatch(m, V, c, handlers)
            cname = c if isinstance(c, str) else c.name
            if f is None:
                continue
            if f.fqn not in judged:
                judged[f.fqn] = _inplace_exits(f)
            bad = judged[f.fqn]
            if bad:
                ctx.violation('R3', f'{f.qualname}:exit', f.where,
                              f'{f.qualname} (dispatched for {cname} in the dataflow {what}) can return something other than '
                              f'the visited node updated in place: {bad[0]}', instance=f'{what}x{cname}')
            else:
                ctx.judge('R3', f'{what}x{cname}', facts={'handler': f.qualname})

    def kwnames(fn):
        out = set()
        for n in ast.walk(fn.node):
            if isinstance(n, ast.Call) and X.dotted_attr(n.func) == 'o._update':
                out |= {k.arg for k in n.keywords}
        return out
    an = kwnames(m.get_function(DF, 'DataflowAnalysisAttacher.visit_Node'))
    dn = kwnames(m.get_function(DF, 'DataflowAnalysisDetacher.visit_Node'))
    fields = set(m.dataclass_fields(m.get_class('loki/ir/nodes/abstract_nodes.py', 'Node')))
    for nm in sorted(an | dn):
        # annotations must live outside the dataclass fields, else they change node equality / rebuild arguments
        if not nm.startswith('_') or nm in fields:
            ctx.violation('R3', f'dataflow-annotation:{nm}', Dt.where,
                          f'dataflow annotation {nm!r} is stored in a dataclass field / public attribute: attach changes IR structure')
        else:
            ctx.judge('R3', f'annotation {nm} is transient')
    if an != dn:
        ctx.note(f'attacher stores {sorted(an)}, detacher resets {sorted(dn)} (stale annotations do not alter IR structure; informational)')
    # attacher must not touch traversable/structural fields other than re-assigning visited bodies
    Acls = m.get_class(DF, 'DataflowAnalysisAttacher')
    for mem in Acls.members.values():
        if mem.kind != 'func':
            continue
        for n in ast.walk(mem.node):
            if isinstance(n, ast.Call) and X.dotted_attr(n.func) == 'o._update':
                for k in n.keywords:
                    if k.arg and not k.arg.startswith('_'):
                        # structural field: value must be the visited version of the same field
                        taint, flows = X.attr_flows(mem.node, 'o')
                        src = flows(k.value)
                        if k.arg not in src and not X.has(src, '*'):
                            ctx.violation('R3', f'DataflowAnalysisAttacher.{mem.name}:{k.arg}', f'{Acls.module.relpath}:{n.lineno}',
                                          f'attacher writes field {k.arg} from {sorted(src)} (must derive from the re-visited {k.arg})')
                        else:
                            ctx.judge('R3', f'{mem.name} rewrites {k.arg} from itself')
    run_r4(ctx)


def _descends(m, V, f, depth=0):
    """does handler ``f`` (dispatched in visitor class ``V``) recurse into the children of the visited node?"""
    if f is None or depth > 6:
        return False
    args = [a.arg for a in f.node.args.args]
    par = args[1] if len(args) > 1 else None
    # names derived from the node's attributes: assigned from / iterating over an expression that reads `<par>.<attr>`
    derived = set()

    def reads(e):
        return any(isinstance(n, ast.Attribute) and isinstance(n.value, ast.Name) and n.value.id == par for n in ast.walk(e)) or \
            any(isinstance(n, ast.Name) and n.id in derived for n in ast.walk(e))
    changed = par is not None
    while changed:
        changed = False
        for n in ast.walk(f.node):
            tg = None
            if isinstance(n, ast.Assign) and reads(n.value):
                tg = [t for t in n.targets]
            elif isinstance(n, (ast.For, ast.comprehension)) and reads(n.iter):
                tg = [n.target]
            for t in tg or []:
                for x in ast.walk(t):
                    if isinstance(x, ast.Name) and x.id not in derived and x.id != par:
                        derived.add(x.id); changed = True
    for c in ast.walk(f.node):
        if not isinstance(c, ast.Call):
            continue
        d = X.dotted_attr(c.func) or ''
        if d.startswith('self.visit') and par and any(reads(a) for a in c.args):
            return True
        if isinstance(c.func, ast.Attribute) and isinstance(c.func.value, ast.Call) and X.call_name_of(c.func.value) == 'super':
            nxt = m.member_function(V, c.func.attr, after=f.cls)
            if _descends(m, V, nxt, depth + 1):
                return True
    return False


def run_r4(ctx):
    m = ctx.model
    DF = 'loki/analyse/dataflow_analysis.py'
    ctx.rule('R4', 'for every IR node class: attacher handler descends into the children => detacher handler descends too '
                   '(PragmaAttacher/PragmaDetacher, PragmaRegionAttacher/PragmaRegionDetacher, dataflow _Attacher/_Detacher)')
    pairs = [(m.get_class(PU, 'PragmaAttacher'), m.get_class(PU, 'PragmaDetacher')),
             (m.get_class(PU, 'PragmaRegionAttacher'), m.get_class(PU, 'PragmaRegionDetacher')),
             (m.get_class(DF, 'DataflowAnalysis._Attacher'), m.get_class(DF, 'DataflowAnalysis._Detacher'))]
    nodes = D.ir_node_classes(m)
    n = deep = 0
    for A_, D_ in pairs:
        ha, hd = D.visitor_handlers(m, A_), D.visitor_handlers(m, D_)
        for c in nodes:
            fa, _ = D.visitor_dispatch(m, A_, c, ha)
            fd, _ = D.visitor_dispatch(m, D_, c, hd)
            if fa is None or fd is None:
                continue
            n += 1
            da, dd = _descends(m, A_, fa), _descends(m, D_, fd)
            deep += da
            inst = f'{D_.name}x{c.name}'
            if da and not dd:
                ctx.violation('R4', f'{D_.name}:{fd.name}:does-not-descend', fd.where,
                              f'{A_.name} descends into the children of a {c.name} ({fa.qualname}) but {D_.name} handles it with '
                              f'{fd.qualname}, which does not: what was attached below a {c.name} stays in the IR after detaching',
                              instance=inst)
            else:
                ctx.judge('R4', inst, nontrivial=da, facts={'attacher': fa.qualname, 'detacher': fd.qualname})
    ctx.floor('R4', 'attacher/detacher handler pairs', n, 120)
    ctx.floor('R4', 'pairs whose attacher descends', deep, 60)


MUTANTS = [
    Mutant('region-detacher-skips-leaf-nodes', PU, "    visit_list = visit_tuple\n\n\n@Timer(logger=debug, text=lambda s: f'[Loki::IR] Executed detach_pragma_regions",
           "    visit_list = visit_tuple\n\n    def visit_LeafNode(self, o, **kwargs):\n        return o\n\n\n@Timer(logger=debug, text=lambda s: f'[Loki::IR] Executed detach_pragma_regions",
           expect=('R4', 'does-not-descend')),
    Mutant('yield-outside-try', PU,
           "    try:\n        yield module_or_routine\n    finally:\n        if hasattr(module_or_routine, 'spec'):\n            module_or_routine.spec = detach_pragmas(",
           "    yield module_or_routine\n    if True:\n        if hasattr(module_or_routine, 'spec'):\n            module_or_routine.spec = detach_pragmas(",
           expect=('R1', 'pragmas_attached:try-finally'), quick=True),
    Mutant('detach-body-twice', PU,
           "        if hasattr(module_or_routine, 'spec'):\n            module_or_routine.spec = detach_pragma_regions(module_or_routine.spec)",
           "        if hasattr(module_or_routine, 'body'):\n            module_or_routine.body = detach_pragma_regions(module_or_routine.body)",
           expect=('R1', 'pragma_regions_attached:attach_pragma_regions(module_or_routine.spec)')),
    Mutant('post-flag-not-mirrored', PU,
           "            module_or_routine.body = detach_pragmas(module_or_routine.body, node_type,\n                                                    detach_pragma_post=attach_pragma_post)",
           "            module_or_routine.body = detach_pragmas(module_or_routine.body, node_type,\n                                                    detach_pragma_post=False)",
           expect=('R1', 'kwargs')),
    Mutant('dfa-no-finally', 'loki/analyse/abstract_dfa.py',
           "    try:\n        yield module_or_routine\n    finally:\n        dfa.detach_dataflow_analysis(module_or_routine)",
           "    yield module_or_routine\n    dfa.detach_dataflow_analysis(module_or_routine)",
           expect=('R1', 'dfa_attached:try-finally')),
    Mutant('detacher-order', PU,
           "            if isinstance(i, self.node_type) and getattr(i, 'pragma', None):\n                # Pragmas need to go before the node\n                updated += as_tuple(i.pragma)\n                # Modify the node in-place to leave existing references intact\n                i._update(pragma=None)\n            # Insert node into the tuple\n            updated += (i,)\n",
           "            updated += (i,)\n            if isinstance(i, self.node_type) and getattr(i, 'pragma', None):\n                updated += as_tuple(i.pragma)\n                i._update(pragma=None)\n",
           expect=('R2', 'PragmaDetacher.visit_tuple:order')),
    Mutant('post-attach-ignores-flag', PU,
           "                          self.attach_pragma_post and updated and\n                          isinstance(updated[-1], self.node_type) and",
           "                          updated and isinstance(updated[-1], self.node_type) and", expect=('R2', 'pragma_post-flag')),
    Mutant('attacher-rebuilds', PU,
           "                        i._update(pragma=as_tuple(pragmas))",
           "                        i = i.clone(pragma=as_tuple(pragmas))", expect=('R2', 'rebuild')),
    Mutant('neutral-detacher-forgets-uses', 'loki/analyse/dataflow_analysis.py',
           "o._update(_live_symbols=None, _defines_symbols=None, _uses_symbols=None)",
           "o._update(_live_symbols=None, _defines_symbols=None)", expect=None),
    Mutant('attacher-rebuilds-node', 'loki/analyse/dataflow_analysis.py',
           "        o._update(body=body)\n        return self.visit_Node(o, live_symbols=live, defines_symbols=defines, uses_symbols=uses, **kwargs)\n\n    def visit_Associate",
           "        o = o.clone(body=body)\n        return self.visit_Node(o, live_symbols=live, defines_symbols=defines, uses_symbols=uses, **kwargs)\n\n    def visit_Associate",
           expect=('R3', 'visit_InternalNode')),
    Mutant('attacher-public-annotation', 'loki/analyse/dataflow_analysis.py',
           "o._update(_uses_symbols=kwargs.get('uses_symbols', OrderedSet()))",
           "o._update(label=kwargs.get('uses_symbols', OrderedSet()))", expect=('R3', 'label')),
    Mutant('region-detach-not-inplace', PU, "return PragmaRegionDetacher(inplace=True).visit(ir)",
           "return PragmaRegionDetacher().visit(ir)", expect=('R2', 'detach_pragma_regions:inplace')),
    Mutant('neutral-extra-logging', PU,
           "    try:\n        yield module_or_routine\n    finally:\n        if hasattr(module_or_routine, 'spec'):\n            module_or_routine.spec = detach_pragmas(",
           "    try:\n        yield module_or_routine\n    finally:\n        debug('leaving pragmas_attached')\n        if hasattr(module_or_routine, 'spec'):\n            module_or_routine.spec = detach_pragmas(",
           expect=None),
]
